From Coq Require Import ZArith QArith List Bool Lia.
Import ListNotations.
Local Open Scope Q_scope.

Definition oq := option Q.
Fixpoint updq {A} (l : list A) (i : nat) (x : A) : list A :=
  match l, i with [], _ => [] | _ :: r, O => x :: r | y :: r, S j => y :: updq r j x end.
Definition ole (a b : option Z) : bool :=
  match a, b with Some x, Some y => (x <=? y)%Z | Some _, None => true | None, Some _ => false | None, None => true end.
Fixpoint ins (k : option Z) (i : nat) (l : list (option Z * nat)) :=
  match l with [] => [(k, i)] | (k', i') :: r => if ole k' k then (k', i') :: ins k i r else (k, i) :: l end.
Definition argsort (row : list (option Z)) : list nat :=
  map snd (fold_left (fun acc ki => ins (fst ki) (snd ki) acc) (combine row (seq 0 (length row))) []).

Definition qmin_opt (a : oq) (b : oq) : oq :=
  match a, b with Some x, Some y => Some (if Qle_bool x y then x else y) | Some x, None => Some x | None, b => b end.
Definition qadd (a b : Q) := Qred (a + b).
Definition qsub (a b : Q) := Qred (a - b).
Definition qmul (a b : Q) := Qred (a * b).
Definition qdiv (a b : Q) := Qred (a / b).
Definition sumq (l : list Q) : Q := fold_left qadd l 0.

Record est := { pos : list (option nat); rem : list oq; eaten : list oq; X : list (list Q) }.

Section Eat.
Variables (ranked : list (list nat)) (speeds : list Q) (eps : Q).
Let n := length ranked.
Definition sp (i : nat) : Q := nth i speeds 0.
Definition cur_item (st : est) (i : nat) : option nat :=
  match nth i (pos st) None with Some p => Some (nth p (nth i ranked []) O) | None => None end.
Definition advance (rem' : list oq) (i : nat) (p : nat) : nat :=
  (fix go (fuel p : nat) := match fuel with O => p | S f =>
     if (p <? n)%nat then match nth (nth p (nth i ranked []) O) rem' None with None => go f (S p) | Some _ => p end else p end) (S n) p.
Definition estep (st : est) : option est :=
  let cur := map (cur_item st) (seq 0 n) in
  let tot := map (fun j => sumq (map sp (filter (fun i => match nth i cur None with Some c => (c =? j)%nat | None => false end) (seq 0 n)))) (seq 0 n) in
  let ta := fold_left qmin_opt (map (fun i => match nth i (eaten st) None with Some e => Some (qdiv (qsub 1 e) (sp i)) | None => None end) (seq 0 n)) None in
  let ti := fold_left qmin_opt (map (fun j => match nth j (rem st) None with
                                             | Some r => if Qle_bool (nth j tot 0) 0 then None else Some (qdiv r (nth j tot 0))
                                             | None => None end) (seq 0 n)) None in
  match ta with
  | None => None
  | Some _ =>
    match qmin_opt ta ti with None => None | Some t =>
    let X' := map (fun i => match nth i cur None with
                            | Some c => updq (nth i (X st) []) c (qadd (nth c (nth i (X st) []) 0) (qmul t (sp i)))
                            | None => nth i (X st) [] end) (seq 0 n) in
    let rem' := map (fun j => match nth j (rem st) None with
                              | Some r => let r' := qsub r (qmul (nth j tot 0) t) in if Qle_bool r' eps then None else Some r'
                              | None => None end) (seq 0 n) in
    let eaten' := map (fun i => match nth i (eaten st) None with
                                | Some e => let e' := qadd e (qmul (sp i) t) in if Qle_bool (1 - eps) e' then None else Some e'
                                | None => None end) (seq 0 n) in
    let pos' := map (fun i => match nth i (pos st) None with
                              | Some p => let p' := advance rem' i p in
                                          if (p' =? n)%nat then None else match nth i eaten' None with None => None | Some _ => Some p' end
                              | None => None end) (seq 0 n) in
    Some {| pos := pos'; rem := rem'; eaten := eaten'; X := X' |}
    end
  end.
Fixpoint eloop (fuel : nat) (st : est) : option est :=
  match fuel with O => None | S f =>
    if forallb (fun r => match r with None => true | Some _ => false end) (rem st)
       || forallb (fun e => match e with Some x => Qle_bool 1 x | None => false end) (eaten st)
    then Some st
    else match estep st with None => None | Some st' => eloop f st' end
  end.
End Eat.
Definition eating (profile : list (list (option Z))) (speeds : list Q) (eps : Q) : option (list (list Q)) :=
  let n := length profile in
  let ranked := map argsort profile in
  match eloop ranked speeds eps (2 * n + 2)
         {| pos := repeat (Some O) n; rem := repeat (Some 1) n; eaten := repeat (Some 0) n; X := repeat (repeat 0 n) n |} with
  | Some st => Some (map (map Qred) (X st)) | None => None end.

Definition qclose (tol a b : Q) : bool := Qle_bool (a - b) tol && Qle_bool (b - a) tol.
Definition mclose (tol : Q) (A B : list (list Q)) : bool :=
  (length A =? length B)%nat && forallb (fun rr => (length (fst rr) =? length (snd rr))%nat && forallb (fun ab => qclose tol (fst ab) (snd ab)) (combine (fst rr) (snd rr))) (combine A B).
Definition echeck (c : list (list (option Z)) * list Q * list (list Q)) : bool :=
  let '(P, s, E) := c in
  match eating P s 0 with Some Xm => mclose (1 # 10000000) Xm E | None => false end.
Fixpoint emism (i : nat) (cs : list _) : list nat :=
  match cs with [] => [] | c :: r => if echeck c then emism (S i) r else i :: emism (S i) r end.
