From Coq Require Import ZArith Arith List Bool Lia.
Import ListNotations.
Require Import DA GS2 GS3.

(* generic counting facts about filter *)
Lemma filter_len_ext {A} (f g : A -> bool) l : (forall x, In x l -> f x = g x) -> length (filter f l) = length (filter g l).
Proof. intros H. rewrite (filter_ext_in f g l H). reflexivity. Qed.
Lemma filter_len_add (f g : nat -> bool) l r : NoDup l -> In r l -> f r = false -> g r = true ->
  (forall x, x <> r -> f x = g x) -> length (filter g l) = S (length (filter f l)).
Proof.
  induction 1 as [|x t Hn Hnd IH]; intros Hin Hf Hg Hext; [destruct Hin|].
  destruct Hin as [->|Hin]; simpl.
  - rewrite Hf, Hg. simpl. f_equal. apply filter_len_ext. intros y Hy. symmetry. apply Hext. intros ->. contradiction.
  - assert (x <> r) by (intros ->; contradiction). rewrite (Hext x H). destruct (g x); simpl; rewrite IH; auto.
Qed.
Lemma filter_len_le (f g : nat -> bool) l : (forall x, g x = true -> f x = true) -> length (filter g l) <= length (filter f l).
Proof.
  intros H. induction l as [|x t IH]; simpl; [lia|]. destruct (g x) eqn:E.
  - rewrite (H x E). simpl. lia.
  - destruct (f x); simpl; lia.
Qed.

Section HRefine.
Variables (n m : nat).
Variable prefH : nat -> nat -> option nat.
Variable rkR : nat -> nat -> option nat.
Variable cap : nat -> nat.
Variable pl : nat -> list nat.
Hypothesis pl_spec : forall h k, prefH h k = nth_error (pl h) k.
Hypothesis pl_nodup : forall h, NoDup (pl h).
Hypothesis pl_lt : forall h r, In r (pl h) -> r < n.
Hypothesis pl_out : forall h, m <= h -> pl h = [].
Hypothesis rk_inj : forall r h h' k, rkR r h = Some k -> rkR r h' = Some k -> h = h'.

Let Rs := seq 0 n.
Let qR := fun _ : nat => 1.
Definition HGood (s : state) : Prop :=
  invF pl rkR qR s /\ invR pl rkR qR s /\ invQ cap Rs s /\ invA pl rkR cap qR Rs s.

Lemma Hpl_univ : forall p r, In r (pl p) -> In r Rs.
Proof. intros p r H. apply in_seq. pose proof (pl_lt _ _ H). lia. Qed.
Lemma HRs_nodup : NoDup Rs. Proof. apply seq_NoDup. Qed.

Lemma hgood_step s p0 : HGood s -> enabled pl cap Rs s p0 -> HGood (step pl rkR qR s p0).
Proof.
  intros [HF [HR [HQ HA]]] Hen. split; [|split; [|split]].
  - eapply (step_invF pl rkR cap qR Rs pl_nodup s p0 HF Hen); reflexivity.
  - eapply (step_invR pl rkR cap qR Rs pl_nodup rk_inj s p0 HF HR Hen); reflexivity.
  - eapply (step_invQ pl rkR cap qR Rs HRs_nodup s p0 Hen); [reflexivity|exact HQ].
  - eapply (step_invA pl rkR cap qR Rs pl_nodup Hpl_univ HRs_nodup rk_inj s p0 HF Hen); [reflexivity|reflexivity|exact HQ|exact HA].
Qed.

Definition hl (o : option nat) : list nat := match o with Some h => [h] | None => [] end.
Record HInv (st : hst) (s : state) : Prop := {
  h_nxt : forall h, nxt s h = offers st h;
  h_held : forall r, held s r = hl (rwl st r);
  h_acc : forall h, acc st h = Z.of_nat (length (engs Rs s h));
  h_c2 : forall h, cur st h = 2 -> length (pl h) <= offers st h
}.
Definition hstep := hosp_step prefH rkR.

Lemma memb_In' x l : memb x l = true <-> In x l.
Proof.
  unfold memb. rewrite existsb_exists. split.
  - intros [y [Hy E]]. apply Nat.eqb_eq in E. subst. exact Hy.
  - intros H. exists x. split; [exact H|apply Nat.eqb_refl].
Qed.
Lemma memb_false x l : memb x l = false <-> ~ In x l.
Proof. rewrite <- memb_In'. destruct (memb x l); split; congruence. Qed.

Section HStepFacts.
Variables (s : state) (h0 r : nat).
Hypothesis Hnth : nth_error (pl h0) (nxt s h0) = Some r.
Let s' := step pl rkR qR s h0.
Lemma Hr0_is_r : nth (nxt s h0) (pl h0) 0 = r.
Proof. apply nth_error_nth. exact Hnth. Qed.
Lemma Hnxt_step h : nxt s' h = if Nat.eqb h h0 then S (nxt s h0) else nxt s h.
Proof. unfold s', step. rewrite Hr0_is_r. destruct (rkR r h0); reflexivity. Qed.
Lemma Hheld_other r' : r' <> r -> held s' r' = held s r'.
Proof.
  intros Hne. unfold s', step. rewrite Hr0_is_r. destruct (rkR r h0); [|reflexivity]. simpl.
  apply Nat.eqb_neq in Hne. rewrite Hne. reflexivity.
Qed.
Lemma Hheld_none : rkR r h0 = None -> forall r', held s' r' = held s r'.
Proof. intros E r'. unfold s', step. rewrite Hr0_is_r, E. reflexivity. Qed.
Lemma Hheld_some k : rkR r h0 = Some k ->
  held s' r = let l := h0 :: held s r in if 1 <? length l then DA.rem1 (worst rkR r l h0) l else l.
Proof. intros E. unfold s', step. rewrite Hr0_is_r, E. simpl. rewrite Nat.eqb_refl. reflexivity. Qed.
Lemma Hr_in_Rs : In r Rs.
Proof. apply Hpl_univ with h0. eapply nth_error_In; exact Hnth. Qed.
End HStepFacts.

Lemma hstep_skip st h : cur st h <> 1 -> hstep st h = st.
Proof. intros H. unfold hstep, hosp_step. apply Nat.eqb_neq in H. rewrite H. reflexivity. Qed.
Lemma hstep_exh st h : cur st h = 1 -> prefH h (offers st h) = None ->
  hstep st h = {| offers := offers st; rwl := rwl st; acc := acc st; cur := fupd (cur st) h 2 |}.
Proof. intros H H0. unfold hstep, hosp_step. rewrite H. cbn [Nat.eqb negb]. rewrite H0. reflexivity. Qed.
Lemma hstep_unacc st h r : cur st h = 1 -> prefH h (offers st h) = Some r -> rkR r h = None ->
  hstep st h = {| offers := fupd (offers st) h (S (offers st h)); rwl := rwl st; acc := acc st; cur := cur st |}.
Proof. intros H H0 H1. unfold hstep, hosp_step. rewrite H. cbn [Nat.eqb negb]. rewrite H0, H1. reflexivity. Qed.
Lemma hstep_free st h r rr : cur st h = 1 -> prefH h (offers st h) = Some r -> rkR r h = Some rr -> rwl st r = None ->
  hstep st h = {| offers := fupd (offers st) h (S (offers st h)); rwl := fupd (rwl st) r (Some h);
                  acc := fupd (acc st) h (acc st h + 1)%Z; cur := cur st |}.
Proof. intros H H0 H1 H2. unfold hstep, hosp_step. rewrite H. cbn [Nat.eqb negb]. rewrite H0, H1, H2. reflexivity. Qed.
Lemma hstep_cmp st h r rr h1 r1 : cur st h = 1 -> prefH h (offers st h) = Some r -> rkR r h = Some rr ->
  rwl st r = Some h1 -> rkR r h1 = Some r1 ->
  hstep st h = if rr <? r1
               then {| offers := fupd (offers st) h (S (offers st h)); rwl := fupd (rwl st) r (Some h);
                       acc := fupd (fupd (acc st) h (acc st h + 1)%Z) h1 (fupd (acc st) h (acc st h + 1)%Z h1 - 1)%Z; cur := cur st |}
               else {| offers := fupd (offers st) h (S (offers st h)); rwl := rwl st; acc := acc st; cur := cur st |}.
Proof. intros H H0 H1 H2 H3. unfold hstep, hosp_step. rewrite H. cbn [Nat.eqb negb]. rewrite H0, H1, H2, H3. destruct (rr <? r1); reflexivity. Qed.

Lemma engs_len_ext s s' h : (forall r, In r Rs -> (In h (held s' r) <-> In h (held s r))) ->
  length (engs Rs s' h) = length (engs Rs s h).
Proof.
  intros H. unfold engs. apply filter_len_ext. intros r Hr.
  destruct (memb h (held s' r)) eqn:E1, (memb h (held s r)) eqn:E2; try reflexivity.
  - apply memb_In' in E1. apply (H r Hr) in E1. apply memb_In' in E1. congruence.
  - apply memb_In' in E2. apply (H r Hr) in E2. apply memb_In' in E2. congruence.
Qed.
Lemma engs_len_add s s' h r : In r Rs -> ~ In h (held s r) -> In h (held s' r) ->
  (forall r', r' <> r -> (In h (held s' r') <-> In h (held s r'))) ->
  length (engs Rs s' h) = S (length (engs Rs s h)).
Proof.
  intros Hr Hn Hy Hext. unfold engs. apply (filter_len_add _ _ Rs r HRs_nodup Hr).
  - apply memb_false. exact Hn.
  - apply memb_In'. exact Hy.
  - intros x Hx. destruct (memb h (held s x)) eqn:E1, (memb h (held s' x)) eqn:E2; try reflexivity.
    + apply memb_In' in E1. apply (Hext x Hx) in E1. apply memb_In' in E1. congruence.
    + apply memb_In' in E2. apply (Hext x Hx) in E2. apply memb_In' in E2. congruence.
Qed.
Lemma engs_len_le s s' h : (forall r, In h (held s' r) -> In h (held s r)) ->
  length (engs Rs s' h) <= length (engs Rs s h).
Proof. intros H. unfold engs. apply filter_len_le. intros r E. apply memb_In'. apply H. apply memb_In'. exact E. Qed.

Lemma henabled st s h0 r : HInv st s -> length (engs Rs s h0) < cap h0 -> prefH h0 (offers st h0) = Some r ->
  enabled pl cap Rs s h0.
Proof.
  intros I Hlt Hp. split; [exact Hlt|]. rewrite (h_nxt _ _ I). rewrite pl_spec in Hp. apply nth_error_Some. congruence.
Qed.

Lemma fupd_same' {A} (f : nat -> A) i x : fupd f i x i = x.
Proof. unfold fupd. rewrite Nat.eqb_refl. reflexivity. Qed.
Lemma fupd_other' {A} (f : nat -> A) i x j : j <> i -> fupd f i x j = f j.
Proof. unfold fupd. intros H. apply Nat.eqb_neq in H. rewrite H. reflexivity. Qed.

Definition frame (st st' : hst) (s s' : state) (h0 : nat) : Prop :=
  forall h, h <> h0 -> cur st' h = cur st h /\ length (engs Rs s' h) <= length (engs Rs s h).

Lemma hsim_step st s h0 : HInv st s -> HGood s -> (cur st h0 = 1 -> length (engs Rs s h0) < cap h0) ->
  exists s', HInv (hstep st h0) s' /\ HGood s' /\ frame st (hstep st h0) s s' h0.
Proof.
  intros I G Hc. destruct (Nat.eq_dec (cur st h0) 1) as [E|E].
  2:{ exists s. rewrite hstep_skip by exact E. split; [exact I|]. split; [exact G|]. intros h _. split; [reflexivity|lia]. }
  pose proof (Hc E) as Hlt.
  destruct (prefH h0 (offers st h0)) as [r|] eqn:Hp.
  2:{ (* exhausted *)
      exists s. rewrite (hstep_exh st h0 E Hp). split; [|split; [exact G|]].
      - constructor; cbn [offers rwl acc cur]; try apply I.
        intros h Hh. destruct (Nat.eq_dec h h0) as [->|Hne].
        + rewrite pl_spec in Hp. apply nth_error_None in Hp. exact Hp.
        + rewrite fupd_other' in Hh by exact Hne. apply (h_c2 _ _ I); exact Hh.
      - intros h Hne. cbn [cur]. rewrite fupd_other' by exact Hne. split; [reflexivity|lia]. }
  pose proof (henabled st s h0 r I Hlt Hp) as Hen.
  assert (Hnth : nth_error (pl h0) (nxt s h0) = Some r) by (rewrite (h_nxt _ _ I), <- pl_spec; exact Hp).
  pose proof (Hr_in_Rs s h0 r Hnth) as HrRs.
  pose proof (Hnxt_step s h0 r Hnth) as Hnx.
  pose proof (Hheld_other s h0 r Hnth) as Hho.
  set (s' := step pl rkR qR s h0) in *.
  assert (Ioff : forall h, nxt s' h = fupd (offers st) h0 (S (offers st h0)) h).
  { intros h. rewrite Hnx. unfold fupd. destruct (Nat.eqb h h0); rewrite ?(h_nxt _ _ I); reflexivity. }
  assert (Hc2 : forall h, cur st h = 2 -> length (pl h) <= fupd (offers st) h0 (S (offers st h0)) h).
  { intros h Hh. destruct (Nat.eq_dec h h0) as [->|Hne]; [congruence|]. rewrite fupd_other' by exact Hne. apply (h_c2 _ _ I); exact Hh. }
  exists s'. split; [|split; [apply hgood_step; assumption|]].
  - (* HInv *)
    destruct (rkR r h0) as [rr|] eqn:Hr.
    2:{ rewrite (hstep_unacc st h0 r E Hp Hr). pose proof (Hheld_none s h0 r Hnth Hr) as Hh.
        constructor; cbn [offers rwl acc cur]; [exact Ioff| | |exact Hc2].
        - intros r'. fold s'. rewrite Hh. apply I.
        - intros h. rewrite (h_acc _ _ I). f_equal. symmetry. apply engs_len_ext. intros r' _. fold s'. rewrite Hh. tauto. }
    pose proof (Hheld_some s h0 r Hnth rr Hr) as Hhs. fold s' in Hhs. cbv zeta in Hhs. rewrite (h_held _ _ I) in Hhs.
    destruct G as [HF [_ [HQ _]]].
    assert (Hh0free : ~ In h0 (held s r)).
    { intros Hin. destruct (HF r) as [_ [_ Hm]]. destruct (Hm _ Hin) as [_ Hpre].
      unfold prefix in Hpre. apply in_firstn_nth in Hpre. destruct Hpre as [i [Hi Hni]].
      assert (i = nxt s h0) by (eapply nodup_nth_inj; [apply pl_nodup|exact Hni|exact Hnth]). lia. }
    destruct (rwl st r) as [h1|] eqn:Hw.
    + (* resident holds h1 *)
      assert (Hin1 : In h1 (held s r)) by (rewrite (h_held _ _ I), Hw; now left).
      assert (Hne01 : h1 <> h0) by (intros ->; contradiction).
      destruct (HF r) as [_ [_ Hm]]. destruct (Hm _ Hin1) as [Hrk1 _].
      destruct (rkR r h1) as [r1|] eqn:Hr1; [|congruence].
      rewrite (hstep_cmp st h0 r rr h1 r1 E Hp Hr Hw Hr1).
      simpl hl in Hhs. simpl length in Hhs. change (1 <? 2) with true in Hhs. cbv iota in Hhs.
      assert (Hworst : worst rkR r [h0; h1] h0 = if rr <? r1 then h1 else h0).
      { simpl. unfold rankv. rewrite Hr, Hr1. rewrite Nat.ltb_irrefl. reflexivity. }
      rewrite Hworst in Hhs.
      destruct (rr <? r1) eqn:Ecmp.
      * (* takes the new offer *)
        assert (Hh' : held s' r = [h0]).
        { rewrite Hhs. simpl. apply Nat.eqb_neq in Hne01. rewrite Hne01. rewrite Nat.eqb_refl. reflexivity. }
        constructor; cbn [offers rwl acc cur]; [exact Ioff| | |exact Hc2].
        -- intros r'. destruct (Nat.eq_dec r' r) as [->|Hne]; [rewrite fupd_same', Hh'; reflexivity|].
           rewrite fupd_other' by exact Hne. fold s'. rewrite Hho by exact Hne. apply I.
        -- intros h. destruct (Nat.eq_dec h h1) as [->|Hn1].
           ++ rewrite fupd_same'. rewrite fupd_other' by exact Hne01. rewrite (h_acc _ _ I).
              assert (length (engs Rs s h1) = S (length (engs Rs s' h1))).
              { apply (engs_len_add s' s h1 r HrRs).
                - rewrite Hh'. intros [H|[]]. congruence.
                - exact Hin1.
                - intros r' Hne. fold s'. rewrite Hho by exact Hne. tauto. }
              lia.
           ++ rewrite fupd_other' by exact Hn1. destruct (Nat.eq_dec h h0) as [->|Hn0].
              ** rewrite fupd_same'. rewrite (h_acc _ _ I).
                 assert (length (engs Rs s' h0) = S (length (engs Rs s h0))).
                 { apply (engs_len_add s s' h0 r HrRs Hh0free).
                   - rewrite Hh'. now left.
                   - intros r' Hne. fold s'. rewrite Hho by exact Hne. tauto. }
                 lia.
              ** rewrite fupd_other' by exact Hn0. rewrite (h_acc _ _ I). f_equal. symmetry. apply engs_len_ext.
                 intros r' _. destruct (Nat.eq_dec r' r) as [->|Hne]; [|fold s'; rewrite Hho by exact Hne; tauto].
                 rewrite Hh', (h_held _ _ I), Hw. simpl. split; intros [H|[]]; congruence.
      * (* keeps the old one *)
        assert (Hh' : held s' r = [h1]).
        { rewrite Hhs. simpl. rewrite Nat.eqb_refl. reflexivity. }
        constructor; cbn [offers rwl acc cur]; [exact Ioff| | |exact Hc2].
        -- intros r'. destruct (Nat.eq_dec r' r) as [->|Hne]; [rewrite Hh', Hw; reflexivity|].
           fold s'. rewrite Hho by exact Hne. apply I.
        -- intros h. rewrite (h_acc _ _ I). f_equal. symmetry. apply engs_len_ext.
           intros r' _. destruct (Nat.eq_dec r' r) as [->|Hne]; [|fold s'; rewrite Hho by exact Hne; tauto].
           rewrite Hh', (h_held _ _ I), Hw. tauto.
    + (* resident is free *)
      rewrite (hstep_free st h0 r rr E Hp Hr Hw).
      simpl in Hhs.
      constructor; cbn [offers rwl acc cur]; [exact Ioff| | |exact Hc2].
      * intros r'. destruct (Nat.eq_dec r' r) as [->|Hne]; [rewrite fupd_same', Hhs; reflexivity|].
        rewrite fupd_other' by exact Hne. fold s'. rewrite Hho by exact Hne. apply I.
      * intros h. destruct (Nat.eq_dec h h0) as [->|Hn0].
        -- rewrite fupd_same'. rewrite (h_acc _ _ I).
           assert (length (engs Rs s' h0) = S (length (engs Rs s h0))).
           { apply (engs_len_add s s' h0 r HrRs Hh0free).
             - rewrite Hhs. now left.
             - intros r' Hne. fold s'. rewrite Hho by exact Hne. tauto. }
           lia.
        -- rewrite fupd_other' by exact Hn0. rewrite (h_acc _ _ I). f_equal. symmetry. apply engs_len_ext.
           intros r' _. destruct (Nat.eq_dec r' r) as [->|Hne]; [|fold s'; rewrite Hho by exact Hne; tauto].
           rewrite Hhs, (h_held _ _ I), Hw. simpl. split; [intros [H|[]]; congruence|intros []].
  - (* frame *)
    intros h Hne. split.
    + unfold hstep, hosp_step. rewrite E. cbn [Nat.eqb negb]. rewrite Hp.
      destruct (rkR r h0); [|reflexivity].
      destruct (match rwl st r with Some h1 => match rkR r h1 with Some r0 => _ | None => false end | None => true end); reflexivity.
    + apply engs_len_le. intros r' Hin.
      destruct (Nat.eq_dec r' r) as [->|Hner]; [|fold s' in Hin; rewrite Hho in Hin by exact Hner; exact Hin].
      destruct (rkR r h0) as [rr|] eqn:Hr; [|rewrite (Hheld_none s h0 r Hnth Hr) in Hin; exact Hin].
      pose proof (Hheld_some s h0 r Hnth rr Hr) as Hhs. fold s' in Hhs. cbv zeta in Hhs. rewrite Hhs in Hin.
      destruct (1 <? length (h0 :: held s r)).
      * apply (DA.rem1_in cap qR) in Hin. destruct Hin as [Heq|Hin]; [congruence|exact Hin].
      * destruct Hin as [Heq|Hin]; [congruence|exact Hin].
Qed.

Lemma hsim_round ps : NoDup ps -> forall st s, HInv st s -> HGood s ->
  (forall h, In h ps -> cur st h = 1 -> length (engs Rs s h) < cap h) ->
  exists s', HInv (fold_left hstep ps st) s' /\ HGood s'.
Proof.
  induction 1 as [|h0 ps Hnin Hnd IH]; intros st s I G Hc; simpl.
  - exists s. auto.
  - destruct (hsim_step st s h0 I G (Hc h0 (or_introl eq_refl))) as [s1 [I1 [G1 Fr]]].
    apply (IH _ s1 I1 G1). intros h Hh Hch.
    assert (Hne : h <> h0) by (intros ->; contradiction).
    destruct (Fr h Hne) as [Ec Hle]. rewrite Ec in Hch. specialize (Hc h (or_intror Hh) Hch). lia.
Qed.

Definition with_cur (st : hst) (c : nat -> nat) : hst := {| offers := offers st; rwl := rwl st; acc := acc st; cur := c |}.
Definition rfl := reflag cap.

Lemma hsim_loop fuel : forall st s st', HInv st s -> HGood s ->
  hosp_loop m prefH rkR cap fuel st = Some st' ->
  exists s', HInv st' s' /\ HGood s' /\ forall h, h < m -> rfl st' h <> 1.
Proof.
  induction fuel as [|f IH]; intros st s st' I G H; simpl in H; [discriminate|].
  destruct (forallb (fun h => negb (Nat.eqb (reflag cap st h) 1)) (seq 0 m)) eqn:E.
  - injection H as <-. exists s. split; [exact I|]. split; [exact G|].
    intros h Hh. rewrite forallb_forall in E. assert (Hin : In h (seq 0 m)) by (apply in_seq; lia).
    specialize (E h Hin). apply negb_true_iff, Nat.eqb_neq in E. exact E.
  - assert (I1 : HInv (with_cur st (reflag cap st)) s).
    { constructor; cbn [with_cur offers rwl acc cur]; try apply I.
      intros h Hh. unfold reflag in Hh. destruct (Nat.eqb (cur st h) 2) eqn:E2.
      - apply Nat.eqb_eq in E2. apply (h_c2 _ _ I); exact E2.
      - destruct (Z.of_nat (cap h) =? acc st h)%Z; discriminate. }
    assert (Hpre : forall h, In h (seq 0 m) -> cur (with_cur st (reflag cap st)) h = 1 -> length (engs Rs s h) < cap h).
    { intros h _ Hh. cbn [with_cur cur] in Hh. unfold reflag in Hh.
      destruct (Nat.eqb (cur st h) 2); [discriminate|].
      destruct (Z.of_nat (cap h) =? acc st h)%Z eqn:Ea; [discriminate|].
      apply Z.eqb_neq in Ea. rewrite (h_acc _ _ I) in Ea. destruct G as [_ [_ [HQ _]]]. specialize (HQ h). lia. }
    destruct (hsim_round (seq 0 m) (seq_NoDup m 0) _ s I1 G Hpre) as [s1 [I2 G2]].
    exact (IH _ s1 st' I2 G2 H).
Qed.

Definition s0 : state := {| nxt := fun _ => 0; held := fun _ => [] |}.
Lemma hengs_s0 p : engs Rs s0 p = [].
Proof.
  unfold engs. destruct (filter (fun r => memb p (held s0 r)) Rs) as [|r t] eqn:E; [reflexivity|].
  assert (Hin : In r (filter (fun r => memb p (held s0 r)) Rs)) by (rewrite E; now left).
  apply filter_In in Hin. destruct Hin as [_ Hm]. simpl in Hm. discriminate.
Qed.
Lemma hgood_s0 : HGood s0.
Proof.
  split; [|split; [|split]].
  - intros r. simpl. split; [constructor|]. split; [unfold qR; lia|]. intros p [].
  - intros p r H. unfold prefix in H. simpl in H. destruct H.
  - intros p. rewrite hengs_s0. simpl. lia.
  - intros mu _ p r H. unfold prefix in H. simpl in H. destruct H.
Qed.
Lemma hinv_init : HInv hosp_init s0.
Proof.
  constructor; simpl; try reflexivity.
  - intros h. rewrite hengs_s0. reflexivity.
  - intros h H. discriminate.
Qed.

Theorem gs_hosp_correct fuel st' :
  hosp_loop m prefH rkR cap fuel hosp_init = Some st' ->
  exists s, HInv st' s /\ HGood s /\ terminal pl cap Rs s /\ (forall p r, ~ blocking pl rkR cap qR Rs s p r).
Proof.
  intros H. destruct (hsim_loop fuel hosp_init s0 st' hinv_init hgood_s0 H) as [s [I [G Hfl]]].
  exists s. split; [exact I|]. split; [exact G|].
  assert (T : terminal pl cap Rs s).
  { intros h. destruct (Nat.lt_ge_cases h m) as [Hh|Hh].
    - specialize (Hfl h Hh). unfold rfl, reflag in Hfl.
      destruct (Nat.eqb (cur st' h) 2) eqn:E2.
      + right. apply Nat.eqb_eq in E2. rewrite (h_nxt _ _ I). apply (h_c2 _ _ I); exact E2.
      + destruct (Z.of_nat (cap h) =? acc st' h)%Z eqn:Ea; [|congruence].
        left. apply Z.eqb_eq in Ea. rewrite (h_acc _ _ I) in Ea. lia.
    - right. rewrite (pl_out h Hh). simpl. lia. }
  split; [exact T|]. destruct G as [HF [HR _]]. apply (terminal_stable pl rkR cap qR Rs pl_nodup s HF HR T).
Qed.
End HRefine.
Print Assumptions gs_hosp_correct.
