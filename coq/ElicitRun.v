From Coq Require Import ZArith QArith List Bool Lia.
Import ListNotations.
Require Import ElicitM.
Local Open Scope Z_scope.

(* running composite programs *)
Lemma run_bind {A B} m fx V (p : prog A) (f : A -> prog B) : forall st,
  run m fx V (bind p f) st = let '(a, st') := run m fx V p st in run m fx V (f a) st'.
Proof.
  induction p as [a|k c IH]; intros st; simpl; [reflexivity|].
  destruct (elicit m fx V st k) as [st' v]. apply IH.
Qed.
Lemma run_mapP_nil {A B} m fx V (f : A -> prog B) st : run m fx V (mapP f []) st = ([], st).
Proof. reflexivity. Qed.
Lemma run_mapP_cons {A B} m fx V (f : A -> prog B) x t st :
  run m fx V (mapP f (x :: t)) st =
  let '(y, st1) := run m fx V (f x) st in let '(ys, st2) := run m fx V (mapP f t) st1 in (y :: ys, st2).
Proof.
  cbn [mapP]. rewrite run_bind. destruct (run m fx V (f x) st) as [y st1]. rewrite run_bind.
  destruct (run m fx V (mapP f t) st1) as [ys st2]. reflexivity.
Qed.
Lemma run_foldP_cons {A S} m fx V (f : S -> A -> prog S) x t s st :
  run m fx V (foldP f (x :: t) s) st = let '(s', st1) := run m fx V (f s x) st in run m fx V (foldP f t s') st1.
Proof. cbn [foldP]. rewrite run_bind. reflexivity. Qed.

(* invariants are preserved pointwise by mapP when each component preserves them *)
Lemma run_mapP_inv {A B} m fx V (f : A -> prog B) (I : estate -> Prop) (Q0 : A -> B -> Prop) l :
  (forall x st y st', In x l -> I st -> run m fx V (f x) st = (y, st') -> I st' /\ Q0 x y) ->
  forall st ys st', I st -> run m fx V (mapP f l) st = (ys, st') -> I st' /\ Forall2 Q0 l ys.
Proof.
  induction l as [|x t IH]; intros Hf st ys st' HI H.
  - rewrite run_mapP_nil in H. injection H as <- <-. split; [exact HI|constructor].
  - rewrite run_mapP_cons in H. destruct (run m fx V (f x) st) as [y st1] eqn:E1.
    destruct (run m fx V (mapP f t) st1) as [ys' st2] eqn:E2. injection H as <- <-.
    destruct (Hf x st y st1 (or_introl eq_refl) HI E1) as [I1 Q1].
    destruct (IH (fun a s b s' Ha => Hf a s b s' (or_intror Ha)) st1 ys' st2 I1 E2) as [I2 Q2].
    split; [exact I2|constructor; assumption].
Qed.
Print Assumptions run_mapP_inv.
