From Coq Require Import ZArith List Bool Lia.
Import ListNotations.
Local Open Scope Z_scope.

Definition adjl := list (Z * Z).
Definition graph := list (Z * adjl).
Definition flowmap := list ((Z * Z) * Z).
Definition maxsize : Z := 9223372036854775807.

Fixpoint lookup (G : graph) (u : Z) : adjl :=
  match G with [] => [] | (k, a) :: r => if k =? u then a else lookup r u end.
Fixpoint set_adj (G : graph) (u : Z) (a : adjl) : graph :=
  match G with [] => [] | (k, a0) :: r => if k =? u then (k, a) :: r else (k, a0) :: set_adj r u a end.
Definition keys (G : graph) : list Z := map fst G.
Definition memZ (x : Z) (l : list Z) : bool := existsb (Z.eqb x) l.
Fixpoint removeZ (x : Z) (l : list Z) : list Z :=
  match l with [] => [] | y :: r => if x =? y then removeZ x r else y :: removeZ x r end.
Fixpoint aget (a : adjl) (v : Z) : Z :=
  match a with [] => 0 | (w, c) :: r => if w =? v then c else aget r v end.
Definition cf (G : graph) (u v : Z) : Z := aget (lookup G u) v.
Definition targets (G : graph) (u : Z) : list Z := map fst (lookup G u).

Definition pair_eqb (a b : Z * Z) : bool := (fst a =? fst b) && (snd a =? snd b).
Fixpoint fget (f : flowmap) (k : Z * Z) : Z :=
  match f with [] => 0 | (k', v) :: r => if pair_eqb k k' then v else fget r k end.
Fixpoint fset (f : flowmap) (k : Z * Z) (v : Z) : flowmap :=
  match f with [] => [(k, v)] | (k', v') :: r => if pair_eqb k k' then (k', v) :: r else (k', v') :: fset r k v end.

(* flow.py:34-43 *)
Definition init_edge (i : Z) (st : graph * flowmap) (e : Z * Z) : graph * flowmap :=
  let '(Gf, fl) := st in
  let j := fst e in
  let fl := fset (fset fl (i, j) 0) (j, i) 0 in
  let Gf := if forallb (fun vc => negb (fst vc =? i)) (lookup Gf j)
            then set_adj Gf j (lookup Gf j ++ [(i, 0)]) else Gf in
  (Gf, fl).
Definition init (G : graph) : graph * flowmap :=
  fold_left (fun st ka => fold_left (init_edge (fst ka)) (snd ka) st) G (G, []).

(* flow.py:68-117; the for-loop is parametrised by the recursive call *)
Definition dres := option (list Z * option (list Z * Z)).
Fixpoint dfs_loop (rec : Z -> list Z -> dres) (cur : Z) (cands : adjl) (vis : list Z)
         (best : option (list Z * Z)) : dres :=
  match cands with
  | [] => Some (vis, best)
  | (v, c) :: r =>
    if memZ v vis then dfs_loop rec cur r vis best
    else if c >? 0 then
      match rec v (v :: vis) with
      | None => None
      | Some (vis', None) => dfs_loop rec cur r vis' best
      | Some (vis', Some (path, cap)) =>
        let bc := match best with Some (_, b) => b | None => 0 end in
        if Z.min cap c >? bc then dfs_loop rec cur r vis' (Some (cur :: path, Z.min cap c))
        else dfs_loop rec cur r vis' best
      end
    else dfs_loop rec cur r vis best
  end.
Fixpoint dfs (fuel : nat) (G : graph) (sink cur : Z) (vis : list Z) : dres :=
  match fuel with
  | O => None
  | S f =>
    if cur =? sink then Some (removeZ cur vis, Some ([cur], maxsize))
    else
      match dfs_loop (dfs f G sink) cur (lookup G cur) vis None with
      | None => None
      | Some (vis', Some b) => Some (removeZ cur vis', Some b)
      | Some (vis', None) => Some (vis', None)
      end
  end.

(* flow.py:56-66 *)
Definition bump (a : adjl) (w d : Z) : adjl := map (fun vc => if fst vc =? w then (fst vc, snd vc + d) else vc) a.
Definition push (st : graph * flowmap) (u v c : Z) : graph * flowmap :=
  let '(Gf, fl) := st in
  let fl := fset fl (u, v) (fget fl (u, v) + c) in
  let fl := fset fl (v, u) (fget fl (v, u) - c) in
  let Gf := set_adj Gf u (bump (lookup Gf u) v (- c)) in
  let Gf := set_adj Gf v (bump (lookup Gf v) u c) in
  (Gf, fl).
Fixpoint augment (path : list Z) (c : Z) (st : graph * flowmap) : graph * flowmap :=
  match path with
  | u :: ((v :: _) as rest) => augment rest c (push st u v c)
  | _ => st
  end.

Fixpoint ff_loop (fuel : nat) (st : graph * flowmap) (s t : Z) : option (graph * flowmap) :=
  match fuel with O => None | S f =>
    match dfs (length (fst st) + 2) (fst st) t s [s] with
    | None => None
    | Some (_, None) => Some st
    | Some (_, Some (path, c)) => ff_loop f (augment path c st) s t
    end end.

(* flow.py:119-150: Python pops an arbitrary frontier element, so only the resulting set is defined;
   it is modelled as the least set containing s closed under positive residual arcs *)
Definition expand (G : graph) (S : list Z) : list Z :=
  fold_left (fun acc u => fold_left (fun acc vc => if (snd vc >? 0) && negb (memZ (fst vc) acc) then acc ++ [fst vc] else acc)
                                   (lookup G u) acc) S S.
Fixpoint closure (fuel : nat) (G : graph) (S : list Z) : list Z :=
  match fuel with O => S | S f => let S' := expand G S in if (length S' =? length S)%nat then S else closure f G S' end.

Fixpoint insZ (x : Z) (l : list Z) := match l with [] => [x] | y :: r => if x <=? y then x :: l else y :: insZ x r end.
Definition sortZ (l : list Z) := fold_right insZ [] l.

Definition ford_fulkerson (fuel : nat) (G : graph) (s t : Z) : option (flowmap * list Z) :=
  match ff_loop fuel (init G) s t with
  | None => None
  | Some (Gf, fl) =>
    let out := flat_map (fun ka => map (fun e => ((fst ka, fst e), fget fl (fst ka, fst e))) (snd ka)) G in
    Some (out, sortZ (closure (S (length Gf)) Gf [s]))
  end.

Definition flow_eqb (a b : flowmap) : bool :=
  (length a =? length b)%nat && forallb (fun p => pair_eqb (fst (fst p)) (fst (snd p)) && (snd (fst p) =? snd (snd p))) (combine a b).
Definition listZ_eqb (a b : list Z) : bool := (length a =? length b)%nat && forallb (fun p => fst p =? snd p) (combine a b).
Definition check (c : graph * Z * Z * nat * flowmap * list Z) : bool :=
  let '(G, s, t, fuel, ef, ec) := c in
  match ford_fulkerson fuel G s t with None => false | Some (f, cut) => flow_eqb f ef && listZ_eqb cut ec end.
Fixpoint mism (i : nat) (cs : list (graph * Z * Z * nat * flowmap * list Z)) : list nat :=
  match cs with [] => [] | c :: r => if check c then mism (S i) r else i :: mism (S i) r end.
