(* Boolean domain check for the bipartite-matching theorems, sound for wfb. *)
From Coq Require Import ZArith List Bool Lia.
Import ListNotations.
From SCK Require Import FlowModel FlowWf BipModel BipProof BipFinal.
Local Open Scope Z_scope.

Definition wfbb (G : bgraph) (X Y : list Z) : bool :=
  nodupZ X && nodupZ Y && forallb (fun x => negb (memZ x Y)) X &&
  negb (memZ (-1) X) && negb (memZ (-1) Y) && negb (memZ (-2) X) && negb (memZ (-2) Y) &&
  forallb (fun x => nodupZ (adj G x) && forallb (fun y => memZ y Y) (adj G x)) X.

Lemma negb_memZ x l : negb (memZ x l) = true -> ~ In x l.
Proof. intros H Hin. apply memZ_In' in Hin. rewrite Hin in H. discriminate. Qed.

Theorem wfbb_sound G X Y : wfbb G X Y = true -> wfb G X Y.
Proof.
  unfold wfbb. intros H.
  repeat match type of H with (_ && _ = true) => let H2 := fresh "H" in apply andb_prop in H as [H H2] end.
  unfold wfb. split; [apply nodupZ_NoDup; assumption|]. split; [apply nodupZ_NoDup; assumption|].
  split.
  { intros x Hx. match goal with K : forallb (fun x => negb (memZ x Y)) X = true |- _ => rewrite forallb_forall in K; apply negb_memZ; apply K; exact Hx end. }
  split; [split; apply negb_memZ; assumption|]. split; [split; apply negb_memZ; assumption|].
  intros x Hx.
  match goal with K : forallb (fun x => nodupZ (adj G x) && _) X = true |- _ => rewrite forallb_forall in K; specialize (K x Hx); apply andb_prop in K as [K1 K2] end.
  split; [apply nodupZ_NoDup; assumption|].
  intros y Hy. rewrite forallb_forall in K2. apply memZ_In'. apply K2. exact Hy.
Qed.
