(* C03 (b),(c): eliminating one rotation from a perfect matching, as coded (sequential in-place updates of the list of
   pairs), is the simultaneous shift "every man of the rotation moves to the next woman of the rotation"; the result
   is again a perfect matching on the same men and women, and its total value is the old value plus rot_weight. *)
From Coq Require Import Arith ZArith List Bool Lia Permutation.
Import ListNotations.
From SCK Require Import Irving.

Definition zsum {A} (f : A -> Z) (l : list A) : Z := fold_right (fun x a => (f x + a)%Z) 0%Z l.
Definition pvalue (V1 V2 : list (list Z)) (M : list (nat * nat)) : Z :=
  zsum (fun p => (vget V1 (fst p) (snd p) + vget V2 (snd p) (fst p))%Z) M.
Definition elim_one (rt : rot) (M : list (nat * nat)) : option (list (nat * nat)) :=
  fold_left (elim_apply_one rt) (seq 0 (length rt)) (Some M).
Definition nxt (rt : rot) (i : nat) : nat * nat := nth ((i + 1) mod length rt) rt (O, O).
Definition shift (rt : rot) (p : nat * nat) : nat * nat :=
  match pindex_of p rt with Some i => (fst p, snd (nxt rt i)) | None => p end.
(* first i pairs of the rotation already shifted *)
Definition shift_upto (rt : rot) (i : nat) (p : nat * nat) : nat * nat :=
  match pindex_of p rt with Some j => if j <? i then (fst p, snd (nxt rt j)) else p | None => p end.

(* ---------- basic facts ---------- *)
Lemma peq_true a b : peq a b = true <-> a = b.
Proof.
  unfold peq. rewrite andb_true_iff, !Nat.eqb_eq. destruct a, b; simpl. split; [intros [-> ->]; reflexivity|intros H; injection H; auto].
Qed.
Lemma peq_refl a : peq a a = true. Proof. apply peq_true. reflexivity. Qed.
Lemma pindex_of_Some x l k : pindex_of x l = Some k -> nth_error l k = Some x /\ forall j, j < k -> nth_error l j <> Some x.
Proof.
  revert k. induction l as [|y r IH]; intros k H; [discriminate|]. cbn [pindex_of] in H. destruct (peq x y) eqn:E.
  - injection H as <-. apply peq_true in E. subst. split; [reflexivity|]. intros j Hj. lia.
  - destruct (pindex_of x r) as [k'|] eqn:E2; [|discriminate]. injection H as <-. destruct (IH k' eq_refl) as [H1 H2]. split; [exact H1|].
    intros [|j] Hj; simpl.
    + intros H. injection H as ->. rewrite peq_refl in E. discriminate.
    + apply H2. lia.
Qed.
Lemma pindex_of_None x l : pindex_of x l = None <-> ~ In x l.
Proof.
  induction l as [|y r IH]; [simpl; tauto|]. cbn [pindex_of]. destruct (peq x y) eqn:E.
  - apply peq_true in E. subst. split; [discriminate|]. intros H. exfalso. apply H. now left.
  - destruct (pindex_of x r) as [k|]; simpl.
    + split; [discriminate|]. intros H. exfalso. apply H. right. destruct IH as [_ IH]. 
      destruct (in_dec (fun a b : nat * nat => ltac:(decide equality; apply Nat.eq_dec)) x r) as [i|ni]; [exact i|]. specialize (IH ni). discriminate.
    + split; [|reflexivity]. intros _ [H|H]; [subst; rewrite peq_refl in E; discriminate|]. destruct IH as [IH _]. apply IH; [reflexivity|exact H].
Qed.
Lemma pindex_of_In x l : In x l -> exists k, pindex_of x l = Some k.
Proof.
  intros H. destruct (pindex_of x l) as [k|] eqn:E; [exists k; reflexivity|]. apply pindex_of_None in E. contradiction.
Qed.
Lemma pindex_of_nth l i : NoDup l -> i < length l -> pindex_of (nth i l (O, O)) l = Some i.
Proof.
  intros Hnd Hi. destruct (pindex_of_In (nth i l (O, O)) l) as [k Hk]; [apply nth_In; exact Hi|]. rewrite Hk. f_equal.
  destruct (pindex_of_Some _ _ _ Hk) as [H1 _].
  assert (Hk' : k < length l) by (apply nth_error_Some; congruence).
  rewrite (NoDup_nth l (O, O)) in Hnd. symmetry. apply (Hnd i k Hi Hk'). apply nth_error_nth with (d := (O, O)) in H1. symmetry. exact H1.
Qed.

Lemma upd_length {A} (l : list A) i x : length (upd l i x) = length l.
Proof. revert i. induction l as [|y r IH]; intros [|i]; simpl; auto. Qed.
Lemma nth_error_upd {A} (l : list A) i x j : nth_error (upd l i x) j = if j =? i then (if i <? length l then Some x else None) else nth_error l j.
Proof.
  revert i j. induction l as [|y r IH]; intros i j.
  - destruct i, j; simpl; try reflexivity. destruct (j =? i); reflexivity.
  - destruct i as [|i], j as [|j]; simpl; try reflexivity. rewrite IH. destruct (j =? i); [|reflexivity].
    change (S i <? S (length r)) with (i <? length r). reflexivity.
Qed.
Lemma upd_map_ext {A} (f g : A -> A) (l : list A) k :
  nth_error l k <> None ->
  (forall j y, nth_error l j = Some y -> j <> k -> g y = f y) ->
  (forall y, nth_error l k = Some y -> g y = y) ->
  forall x, (forall y, nth_error l k = Some y -> f y = x) ->
  upd (map g l) k x = map f l.
Proof.
  revert k. induction l as [|y r IH]; intros k Hk Ho Hs x Hx; [destruct k; simpl in Hk; congruence|].
  destruct k as [|k]; simpl.
  - f_equal; [symmetry; apply Hx; reflexivity|]. apply map_ext_in. intros a Ha. apply In_nth_error in Ha as [j Hj]. apply (Ho (S j) a Hj). lia.
  - f_equal; [apply (Ho O y eq_refl); lia|]. apply IH.
    + exact Hk.
    + intros j a Hj Hne. apply (Ho (S j) a Hj). lia.
    + intros a Ha. apply (Hs a Ha).
    + intros a Ha. apply (Hx a Ha).
Qed.

Section Elim.
Variables (rt : rot) (M : list (nat * nat)).
Hypothesis HndM : NoDup (map fst M).
Hypothesis Hndr : NoDup (map fst rt).
Hypothesis Hincl : incl rt M.
Let r := length rt.

Lemma NoDup_of_fst (l : list (nat * nat)) : NoDup (map fst l) -> NoDup l.
Proof. apply NoDup_map_inv. Qed.
Lemma fst_inj_M p q : In p M -> In q M -> fst p = fst q -> p = q.
Proof.
  intros Hp Hq E. apply In_nth_error in Hp as [i Hi]. apply In_nth_error in Hq as [j Hj].
  assert (Hi' : nth_error (map fst M) i = Some (fst p)) by (rewrite nth_error_map, Hi; reflexivity).
  assert (Hj' : nth_error (map fst M) j = Some (fst q)) by (rewrite nth_error_map, Hj; reflexivity).
  rewrite NoDup_nth_error in HndM. assert (i = j). { apply HndM; [apply nth_error_Some; congruence|congruence]. }
  subst. congruence.
Qed.

(* the state after i steps of the inner loop *)
Lemma elim_steps i : i <= r ->
  fold_left (elim_apply_one rt) (seq 0 i) (Some M) = Some (map (shift_upto rt i) M).
Proof.
  induction i as [|i IH]; intros Hi.
  - cbn [seq fold_left]. f_equal. rewrite <- (map_id M) at 1. apply map_ext. intros p. unfold shift_upto.
    destruct (pindex_of p rt); reflexivity.
  - rewrite seq_S, fold_left_app, IH by lia. cbn [fold_left plus]. unfold elim_apply_one.
    set (pr := nth i rt (O, O)).
    assert (Hpr_rt : In pr rt) by (apply nth_In; fold r; lia).
    assert (Hpr_M : In pr M) by (apply Hincl; exact Hpr_rt).
    assert (Hidx : pindex_of pr rt = Some i) by (apply pindex_of_nth; [apply NoDup_of_fst; exact Hndr|fold r; lia]).
    (* pr is still present, unchanged, in the current list *)
    assert (Hfix : shift_upto rt i pr = pr).
    { unfold shift_upto. rewrite Hidx. rewrite Nat.ltb_irrefl. reflexivity. }
    assert (Hin : In pr (map (shift_upto rt i) M)) by (rewrite <- Hfix; apply in_map; exact Hpr_M).
    destruct (pindex_of_In _ _ Hin) as [k Hk]. rewrite Hk. f_equal.
    destruct (pindex_of_Some _ _ _ Hk) as [Hk1 _]. rewrite nth_error_map in Hk1.
    destruct (nth_error M k) as [q|] eqn:Eq; [|discriminate]. simpl in Hk1. injection Hk1 as Hq.
    (* q is pr itself: same man *)
    assert (Hq_M : In q M) by (eapply nth_error_In; exact Eq).
    assert (Hfst : fst (shift_upto rt i q) = fst q).
    { unfold shift_upto. destruct (pindex_of q rt); [destruct (_ <? _)|]; reflexivity. }
    assert (q = pr). { apply fst_inj_M; [exact Hq_M|exact Hpr_M|]. rewrite <- Hfst, Hq. reflexivity. }
    subst q.
    apply upd_map_ext.
    + congruence.
    + intros j y Hj Hne. unfold shift_upto. destruct (pindex_of y rt) as [jj|] eqn:Ey; [|reflexivity].
      destruct (Nat.eq_dec jj i) as [->|Hji].
      * exfalso. destruct (pindex_of_Some _ _ _ Ey) as [Hy _]. destruct (pindex_of_Some _ _ _ Hidx) as [Hp _].
        assert (y = pr) by congruence. subst y.
        rewrite NoDup_nth_error in HndM.
        assert (j = k). { apply HndM; [apply nth_error_Some; rewrite nth_error_map, Hj; discriminate|rewrite !nth_error_map, Hj, Eq; reflexivity]. }
        contradiction.
      * destruct (jj <? i) eqn:E1; destruct (jj <? S i) eqn:E2; try reflexivity;
        apply Nat.ltb_lt in E1 || apply Nat.ltb_ge in E1; apply Nat.ltb_lt in E2 || apply Nat.ltb_ge in E2; lia.
    + intros y Hy. assert (y = pr) by congruence. subst y. exact Hfix.
    + intros y Hy. assert (y = pr) by congruence. subst y. unfold shift_upto. rewrite Hidx.
      assert (E : i <? S i = true) by (apply Nat.ltb_lt; lia). rewrite E. unfold nxt. reflexivity.
Qed.

Theorem elim_one_spec : elim_one rt M = Some (map (shift rt) M).
Proof.
  unfold elim_one. fold r. rewrite elim_steps by lia. f_equal. apply map_ext_in. intros p Hp. unfold shift_upto, shift.
  destruct (pindex_of p rt) as [j|] eqn:E; [|reflexivity].
  destruct (pindex_of_Some _ _ _ E) as [H _]. assert (j < r) by (apply nth_error_Some; congruence).
  assert (E2 : j <? r = true) by (apply Nat.ltb_lt; assumption). rewrite E2. reflexivity.
Qed.

(* same men, in the same positions *)
Theorem shift_keeps_men : map fst (map (shift rt) M) = map fst M.
Proof.
  rewrite map_map. apply map_ext. intros p. unfold shift. destruct (pindex_of p rt); reflexivity.
Qed.
End Elim.

(* ---------- sums ---------- *)
Local Open Scope Z_scope.
Lemma zsum_map {A B} (f : B -> Z) (g : A -> B) l : zsum f (map g l) = zsum (fun x => f (g x)) l.
Proof. induction l as [|x t IH]; simpl; [reflexivity|]. rewrite IH. reflexivity. Qed.
Lemma zsum_ext_in {A} (f g : A -> Z) l : (forall x, In x l -> f x = g x) -> zsum f l = zsum g l.
Proof. induction l as [|x t IH]; intros H; simpl; [reflexivity|]. rewrite (H x), IH; [reflexivity| |now left]. intros y Hy. apply H. now right. Qed.
Lemma zsum_plus {A} (f g : A -> Z) l : zsum (fun x => f x + g x) l = zsum f l + zsum g l.
Proof. induction l as [|x t IH]; simpl; [reflexivity|]. rewrite IH. lia. Qed.
Lemma zsum_zero {A} (f : A -> Z) l : (forall x, In x l -> f x = 0) -> zsum f l = 0.
Proof. induction l as [|x t IH]; intros H; simpl; [reflexivity|]. rewrite (H x), IH; [reflexivity| |now left]. intros y Hy. apply H. now right. Qed.
Lemma zsum_app {A} (f : A -> Z) l1 l2 : zsum f (l1 ++ l2) = zsum f l1 + zsum f l2.
Proof. induction l1 as [|x t IH]; simpl; [reflexivity|]. rewrite IH. lia. Qed.
Lemma zsum_perm {A} (f : A -> Z) l l' : Permutation l l' -> zsum f l = zsum f l'.
Proof. induction 1; simpl; lia. Qed.
Lemma zsum_nth {A} (f : A -> Z) (d : A) l : zsum f l = zsum (fun i => f (nth i l d)) (seq 0 (length l)).
Proof.
  induction l as [|x t IH]; [reflexivity|]. cbn [length seq zsum fold_right]. rewrite <- seq_shift. 
  change (fold_right (fun x0 a => f x0 + a) 0 t) with (zsum f t).
  change (fold_right (fun (x0 : nat) a => f (nth x0 (x :: t) d) + a) 0 (map S (seq 0 (length t)))) with (zsum (fun i => f (nth i (x :: t) d)) (map S (seq 0 (length t)))).
  rewrite zsum_map. cbn [nth]. rewrite IH. reflexivity.
Qed.
Lemma zsum_sub_support {A} (d : A -> Z) (rt : list A) : forall M, NoDup rt -> NoDup M -> incl rt M ->
  (forall p, In p M -> ~ In p rt -> d p = 0) -> zsum d M = zsum d rt.
Proof.
  induction rt as [|a rt' IH]; intros M Hr HM Hi Hz.
  - simpl. apply zsum_zero. intros x Hx. apply Hz; [exact Hx|intros []].
  - assert (Ha : In a M) by (apply Hi; now left). apply in_split in Ha as [l1 [l2 ->]].
    rewrite (zsum_perm d (l1 ++ a :: l2) (a :: l1 ++ l2)) by (symmetry; apply Permutation_middle).
    cbn [zsum fold_right]. f_equal. inversion Hr as [|? ? Hna Hr']; subst. apply IH.
    + exact Hr'.
    + apply NoDup_remove_1 in HM. exact HM.
    + intros x Hx. assert (Hx' : In x (l1 ++ a :: l2)) by (apply Hi; now right).
      apply in_app_or in Hx' as [H|[H|H]]; [apply in_or_app; now left|subst; contradiction|apply in_or_app; now right].
    + intros p Hp Hn. apply Hz.
      * apply in_app_or in Hp as [H|H]; apply in_or_app; [now left|right; now right].
      * intros [H|H]; [|contradiction]. subst p. apply NoDup_remove_2 in HM. contradiction.
Qed.
Lemma zsum_cyclic (f : nat -> Z) r : zsum f (seq 0 r) = zsum (fun i => f ((i + r - 1) mod r)%nat) (seq 0 r).
Proof.
  destruct r as [|r']; [reflexivity|]. rewrite <- (zsum_map f (fun i => ((i + S r' - 1) mod S r')%nat)).
  assert (E : map (fun i => ((i + S r' - 1) mod S r')%nat) (seq 0 (S r')) = r' :: seq 0 r').
  { cbn [seq map]. f_equal.
    - rewrite Nat.mod_small by lia. lia.
    - rewrite <- seq_shift, map_map. rewrite <- (map_id (seq 0 r')) at 2. apply map_ext_in. intros k Hk. apply in_seq in Hk.
      replace (S k + S r' - 1)%nat with (k + 1 * S r')%nat by lia. rewrite Nat.mod_add by lia. apply Nat.mod_small. lia. }
  rewrite E. rewrite seq_S. rewrite zsum_app. simpl. lia.
Qed.
Lemma fold_left_zsum (f : nat -> Z) l : forall a, fold_left (fun acc i => acc + f i) l a = a + zsum f l.
Proof. induction l as [|x t IH]; intros a; simpl; [lia|]. rewrite IH. lia. Qed.

Lemma fold_left_zsum2 (f g : nat -> Z) l : forall a, fold_left (fun acc i => acc + f i + g i) l a = a + zsum (fun i => f i + g i) l.
Proof. induction l as [|x t IH]; intros a; simpl; [lia|]. rewrite IH. lia. Qed.
Lemma zsum_opp {A} (f : A -> Z) l : zsum (fun x => - f x) l = - zsum f l.
Proof. induction l as [|x t IH]; simpl; [reflexivity|]. rewrite IH. lia. Qed.
Lemma succ_mod_inj r i j : (i < r)%nat -> (j < r)%nat -> ((i + 1) mod r = (j + 1) mod r)%nat -> i = j.
Proof.
  intros Hi Hj E. destruct (Nat.eq_dec (i + 1) r) as [Ei|Ei]; destruct (Nat.eq_dec (j + 1) r) as [Ej|Ej].
  - lia.
  - rewrite Ei, Nat.mod_same, Nat.mod_small in E by lia. lia.
  - rewrite Ej, Nat.mod_same, Nat.mod_small in E by lia. lia.
  - rewrite !Nat.mod_small in E by lia. lia.
Qed.
Lemma pred_succ_mod r i : (i < r)%nat -> (((i + r - 1) mod r + 1) mod r = i)%nat.
Proof.
  intros Hi. destruct i as [|k].
  - rewrite (Nat.mod_small (0 + r - 1)) by lia. replace (0 + r - 1 + 1)%nat with r by lia. apply Nat.mod_same. lia.
  - replace (S k + r - 1)%nat with (k + 1 * r)%nat by lia. rewrite Nat.mod_add by lia. rewrite (Nat.mod_small k) by lia. rewrite Nat.mod_small by lia. lia.
Qed.

Lemma NoDup_map_in {A B} (f : A -> B) l : NoDup l -> (forall x y, In x l -> In y l -> f x = f y -> x = y) -> NoDup (map f l).
Proof.
  induction l as [|a t IH]; intros Hn Hinj; [constructor|]. inversion Hn; subst. cbn [map]. constructor.
  - intros Hin. apply in_map_iff in Hin as [y [E Hy]]. assert (y = a) by (apply Hinj; [now right|now left|exact E]). subst. contradiction.
  - apply IH; [assumption|]. intros x y Hx Hy. apply Hinj; now right.
Qed.

Section Perfect.
Variables (rt : rot) (M : list (nat * nat)) (V1 V2 : list (list Z)).
Hypothesis HndM : NoDup (map fst M).
Hypothesis HndW : NoDup (map snd M).
Hypothesis Hndr : NoDup (map fst rt).
Hypothesis Hincl : incl rt M.
Let r := length rt.

Lemma snd_inj_M p q : In p M -> In q M -> snd p = snd q -> p = q.
Proof.
  intros Hp Hq E. apply In_nth_error in Hp as [i Hi]. apply In_nth_error in Hq as [j Hj].
  rewrite NoDup_nth_error in HndW. assert (i = j).
  { apply HndW; [apply nth_error_Some; rewrite nth_error_map, Hi; discriminate|rewrite !nth_error_map, Hi, Hj; simpl; congruence]. }
  subst. congruence.
Qed.
Lemma nxt_in i : (i < r)%nat -> In (nxt rt i) rt.
Proof. intros Hi. unfold nxt. apply nth_In. apply Nat.mod_upper_bound. fold r. lia. Qed.
Lemma pidx_bound p i : pindex_of p rt = Some i -> (i < r)%nat /\ nth i rt (O, O) = p.
Proof.
  intros H. destruct (pindex_of_Some _ _ _ H) as [H1 _]. split; [apply nth_error_Some; congruence|]. apply nth_error_nth. exact H1.
Qed.

Lemma shift_snd_inj p q : In p M -> In q M -> snd (shift rt p) = snd (shift rt q) -> p = q.
Proof.
  assert (Hrt : NoDup rt) by (apply NoDup_map_inv with (f := fst); exact Hndr).
  intros Hp Hq. unfold shift. destruct (pindex_of p rt) as [i|] eqn:Ep; destruct (pindex_of q rt) as [j|] eqn:Eq; cbn [snd].
  - intros E. destruct (pidx_bound _ _ Ep) as [Hi Hpi]. destruct (pidx_bound _ _ Eq) as [Hj Hqj].
    assert (En : nxt rt i = nxt rt j) by (apply snd_inj_M; [apply Hincl, nxt_in; exact Hi|apply Hincl, nxt_in; exact Hj|exact E]).
    unfold nxt in En. rewrite (NoDup_nth rt (O, O)) in Hrt. apply Hrt in En; [|apply Nat.mod_upper_bound; fold r; lia|apply Nat.mod_upper_bound; fold r; lia].
    apply succ_mod_inj in En; [|exact Hi|exact Hj]. subst j. congruence.
  - intros E. destruct (pidx_bound _ _ Ep) as [Hi _]. exfalso.
    assert (q = nxt rt i) by (apply snd_inj_M; [exact Hq|apply Hincl, nxt_in; exact Hi|symmetry; exact E]).
    apply pindex_of_None in Eq. apply Eq. subst q. apply nxt_in. exact Hi.
  - intros E. destruct (pidx_bound _ _ Eq) as [Hj _]. exfalso.
    assert (p = nxt rt j) by (apply snd_inj_M; [exact Hp|apply Hincl, nxt_in; exact Hj|exact E]).
    apply pindex_of_None in Ep. apply Ep. subst p. apply nxt_in. exact Hj.
  - apply snd_inj_M; assumption.
Qed.

(* the same women, each still married exactly once *)
Theorem shift_keeps_women : Permutation (map snd (map (shift rt) M)) (map snd M).
Proof.
  apply NoDup_Permutation_bis.
  - rewrite map_map. apply NoDup_map_in; [apply NoDup_map_inv with (f := fst); exact HndM|]. apply shift_snd_inj.
  - rewrite !map_length. lia.
  - intros w Hw. rewrite map_map in Hw. apply in_map_iff in Hw as [p [<- Hp]]. unfold shift.
    destruct (pindex_of p rt) as [i|] eqn:E; cbn [snd].
    + destruct (pidx_bound _ _ E) as [Hi _]. apply in_map. apply Hincl, nxt_in. exact Hi.
    + apply in_map. exact Hp.
Qed.

(* value of the new matching = old value + rotation weight *)
Theorem elim_value : pvalue V1 V2 (map (shift rt) M) = pvalue V1 V2 M + rot_weight V1 V2 rt.
Proof.
  assert (Hrt : NoDup rt) by (apply NoDup_map_inv with (f := fst); exact Hndr).
  assert (HM : NoDup M) by (apply NoDup_map_inv with (f := fst); exact HndM).
  unfold pvalue. rewrite zsum_map. set (g := fun p : nat * nat => vget V1 (fst p) (snd p) + vget V2 (snd p) (fst p)).
  set (d := fun p => g (shift rt p) - g p).
  rewrite (zsum_ext_in (fun x => g (shift rt x)) (fun x => g x + d x)) by (intros; unfold d; lia).
  rewrite zsum_plus. f_equal.
  rewrite (zsum_sub_support d rt M Hrt HM Hincl).
  2:{ intros p _ Hn. apply pindex_of_None in Hn. unfold d, shift. rewrite Hn. lia. }
  rewrite (zsum_nth d (O, O) rt). fold r.
  unfold rot_weight. cbv zeta. fold r.
  set (A := fun i => vget V1 (fst (nth i rt (O, O))) (snd (nth i rt (O, O))) - vget V1 (fst (nth i rt (O, O))) (snd (nth ((i + 1) mod r) rt (O, O)))).
  set (h := fun i => vget V2 (snd (nth ((i + 1) mod r) rt (O, O))) (fst (nth i rt (O, O)))).
  set (c := fun i => vget V2 (snd (nth i rt (O, O))) (fst (nth i rt (O, O)))).
  rewrite (zsum_ext_in _ (fun i => - (A i + c i) + h i)).
  2:{ intros i Hi. apply in_seq in Hi. unfold d, shift. rewrite pindex_of_nth by (assumption || (fold r; lia)).
      unfold g, nxt, A, c, h. cbn [fst snd]. fold r. lia. }
  rewrite fold_left_zsum2.
  match goal with |- _ = - (0 + zsum ?F _) => rewrite (zsum_ext_in F (fun i => (A i + c i) + - h ((i + r - 1) mod r)%nat)) end.
  2:{ intros i Hi. apply in_seq in Hi. unfold A, c, h. rewrite pred_succ_mod by lia. lia. }
  rewrite !zsum_plus, !zsum_opp, ?zsum_plus. rewrite (zsum_cyclic h r). lia.
Qed.
End Perfect.

(* ---------- the whole elimination stage: any list of rotations, each exposed in the current matching ---------- *)
Fixpoint exposed_all (M : list (nat * nat)) (rts : list rot) : Prop :=
  match rts with [] => True | rt :: rest => NoDup (map fst rt) /\ incl rt M /\ exposed_all (map (shift rt) M) rest end.
Theorem eliminate_spec V1 V2 : forall rts M, NoDup (map fst M) -> NoDup (map snd M) -> exposed_all M rts ->
  exists M', eliminate M rts = Some M' /\ map fst M' = map fst M /\ Permutation (map snd M') (map snd M) /\ pvalue V1 V2 M' = pvalue V1 V2 M + zsum (rot_weight V1 V2) rts.
Proof.
  unfold eliminate. induction rts as [|rt rest IH]; intros M HM HW He.
  - exists M. cbn [fold_left zsum fold_right]. repeat split; [reflexivity|lia].
  - destruct He as [Hr [Hi He]]. cbn [fold_left].
    change (fold_left (elim_apply_one rt) (seq 0 (length rt)) (Some M)) with (elim_one rt M).
    rewrite (elim_one_spec rt M HM Hr Hi).
    assert (HM' : NoDup (map fst (map (shift rt) M))) by (rewrite shift_keeps_men; exact HM).
    assert (HW' : NoDup (map snd (map (shift rt) M))).
    { eapply Permutation_NoDup; [symmetry; apply shift_keeps_women; assumption|exact HW]. }
    destruct (IH _ HM' HW' He) as [M' [E [Hf [Hs Hv]]]]. exists M'. split; [exact E|]. split; [|split].
    + rewrite Hf. apply shift_keeps_men.
    + rewrite Hs. apply shift_keeps_women; assumption.
    + rewrite Hv, elim_value by assumption. cbn [zsum fold_right]. fold (zsum (rot_weight V1 V2) rest). lia.
Qed.

(* ---------- boolean form of the hypothesis, evaluated per explored case ---------- *)
Fixpoint nodupn (l : list nat) : bool := match l with [] => true | x :: t => negb (existsb (Nat.eqb x) t) && nodupn t end.
Lemma nodupn_sound l : nodupn l = true -> NoDup l.
Proof.
  induction l as [|x t IH]; intros H; [constructor|]. cbn [nodupn] in H. apply andb_prop in H as [H1 H2]. constructor; [|apply IH; exact H2].
  intros Hin. apply negb_true_iff in H1. assert (existsb (Nat.eqb x) t = true) by (apply existsb_exists; exists x; split; [exact Hin|apply Nat.eqb_refl]). congruence.
Qed.
Fixpoint exposed_allb (M : list (nat * nat)) (rts : list rot) : bool :=
  match rts with [] => true | rt :: rest => nodupn (map fst rt) && forallb (fun p => memp p M) rt && exposed_allb (map (shift rt) M) rest end.
Lemma exposed_allb_sound rts : forall M, exposed_allb M rts = true -> exposed_all M rts.
Proof.
  induction rts as [|rt rest IH]; intros M H; [exact I|]. cbn [exposed_allb] in H. apply andb_prop in H as [H H3]. apply andb_prop in H as [H1 H2].
  cbn [exposed_all]. split; [apply nodupn_sound; exact H1|]. split; [|apply IH; exact H3].
  intros p Hp. rewrite forallb_forall in H2. specialize (H2 p Hp). unfold memp in H2. apply existsb_exists in H2 as [q [Hq E]].
  apply peq_true in E. subst. exact Hq.
Qed.
Definition perfectb (M : list (nat * nat)) : bool := nodupn (map fst M) && nodupn (map snd M).

(* what the per-case checker establishes about a run of the pipeline, by the theorem above *)
Theorem irving_elimination_sound P1 P2 V1 V2 ff t :
  irving P1 P2 V1 V2 ff = Some t ->
  perfectb (t_M0 t) = true -> exposed_allb (t_M0 t) (map (fun i => nth i (t_rots t) []) (t_S t)) = true ->
  exists M', t_out t = Some M' /\ map fst M' = map fst (t_M0 t) /\ Permutation (map snd M') (map snd (t_M0 t)) /\
             pvalue V1 V2 M' = pvalue V1 V2 (t_M0 t) + zsum (fun i => nth i (t_ws t) 0) (t_S t).
Proof.
  intros Hr Hp He. apply andb_prop in Hp as [Hp1 Hp2]. apply nodupn_sound in Hp1, Hp2. apply exposed_allb_sound in He.
  destruct (eliminate_spec V1 V2 _ _ Hp1 Hp2 He) as [M' [E [Hf [Hs Hv]]]]. exists M'.
  unfold irving in Hr. cbv zeta in Hr.
  repeat match type of Hr with match ?x with _ => _ end = _ => destruct x as [?v|]; [|discriminate] end.
  match type of Hr with (let (_, _) := ?v in _) = _ => destruct v as [rots el] end.
  repeat match type of Hr with match ?x with _ => _ end = _ => destruct x as [?v|]; [|discriminate] end. injection Hr as <-. cbn [t_out t_M0 t_rots t_S t_ws] in *.
  split; [exact E|]. split; [exact Hf|]. split; [exact Hs|]. rewrite Hv. f_equal. rewrite zsum_map. apply zsum_ext_in. intros i Hi.
  destruct (Nat.lt_ge_cases i (length rots)) as [L|L].
  - rewrite (nth_indep _ 0 (rot_weight V1 V2 [])) by (rewrite map_length; exact L). rewrite map_nth. reflexivity.
  - rewrite !nth_overflow by (rewrite ?map_length; exact L). reflexivity.
Qed.
