From Coq Require Import ZArith List Bool Lia.
Import ListNotations.
Require Import FlowModel FlowProof FlowInit FlowFinal Mwcs MwcsProof MwcsOpt.
Local Open Scope Z_scope.

Lemma memn_In x l : memn x l = true <-> In x l.
Proof.
  unfold memn. rewrite existsb_exists. split.
  - intros [y [Hy E]]. apply Nat.eqb_eq in E. subst. exact Hy.
  - intros H. exists x. split; [exact H|apply Nat.eqb_refl].
Qed.

Section Close.
Variable P : list (list nat).
Let R := length P.
Let ids := seq 0 R.
Variable inT : nat -> bool.
Hypothesis HT : forall u v, (u < R)%nat -> In v (nthl P u) -> inT v = true -> inT u = true.

Definition pstep (cs : list nat) (rho : nat) : list nat :=
  if memn rho cs then cs else if existsb (fun x => memn x cs) (nthl P rho) then rho :: cs else cs.
Lemma pass_unfold l cs : pass P l cs = fold_left pstep l cs. Proof. reflexivity. Qed.

Definition okset (cs : list nat) : Prop := NoDup cs /\ (forall x, In x cs -> (x < R)%nat /\ inT x = true).
Lemma pstep_ok cs rho : (rho < R)%nat -> okset cs -> okset (pstep cs rho) /\ incl cs (pstep cs rho).
Proof.
  intros Hr [Hnd Hin]. unfold pstep. destruct (memn rho cs) eqn:Em; [split; [split; assumption|apply incl_refl]|].
  destruct (existsb (fun x => memn x cs) (nthl P rho)) eqn:Ee; [|split; [split; assumption|apply incl_refl]].
  apply existsb_exists in Ee. destruct Ee as [v [Hv Hm]]. apply memn_In in Hm.
  split; [|apply incl_tl, incl_refl]. split.
  - constructor; [intros H; apply memn_In in H; congruence|exact Hnd].
  - intros x [<-|Hx]; [split; [exact Hr|apply (HT rho v Hr Hv); apply Hin; exact Hm]|apply Hin; exact Hx].
Qed.
Lemma fold_ok l : forall cs, (forall x, In x l -> (x < R)%nat) -> okset cs -> okset (fold_left pstep l cs) /\ incl cs (fold_left pstep l cs).
Proof.
  induction l as [|rho t IH]; intros cs Hl Hok; simpl; [split; [exact Hok|apply incl_refl]|].
  destruct (pstep_ok cs rho (Hl rho (or_introl eq_refl)) Hok) as [Hok1 Hi1].
  destruct (IH (pstep cs rho) (fun x Hx => Hl x (or_intror Hx)) Hok1) as [Hok2 Hi2]. split; [exact Hok2|eapply incl_tran; eauto].
Qed.
Lemma pstep_len cs rho : (length cs <= length (pstep cs rho))%nat.
Proof. unfold pstep. destruct (memn rho cs); [lia|]. destruct (existsb _ _); simpl; lia. Qed.
Lemma fold_len l : forall cs, (length cs <= length (fold_left pstep l cs))%nat.
Proof. induction l as [|rho t IH]; intros cs; simpl; [lia|]. eapply Nat.le_trans; [apply pstep_len|apply IH]. Qed.
(* a pass that does not grow the set did nothing, so the set is already closed *)
Lemma fold_fixed l : forall cs, length (fold_left pstep l cs) = length cs ->
  fold_left pstep l cs = cs /\ forall rho, In rho l -> memn rho cs = true \/ existsb (fun x => memn x cs) (nthl P rho) = false.
Proof.
  induction l as [|rho t IH]; intros cs Hlen; simpl in *; [split; [reflexivity|intros r []]|].
  assert (Hs : pstep cs rho = cs).
  { destruct (memn rho cs) eqn:Em; [unfold pstep; rewrite Em; reflexivity|].
    destruct (existsb (fun x => memn x cs) (nthl P rho)) eqn:Ee; [|unfold pstep; rewrite Em, Ee; reflexivity].
    exfalso. assert (E : pstep cs rho = rho :: cs) by (unfold pstep; rewrite Em, Ee; reflexivity).
    rewrite E in Hlen. pose proof (fold_len t (rho :: cs)) as Hl. simpl length in Hl. lia. }
  rewrite Hs in *. destruct (IH cs Hlen) as [A B]. split; [exact A|].
  intros r [<-|Hr]; [|apply B; exact Hr]. destruct (memn rho cs) eqn:Em; [now left|].
  destruct (existsb (fun x => memn x cs) (nthl P rho)) eqn:Ee; [|now right]. exfalso.
  assert (E : pstep cs rho = rho :: cs) by (unfold pstep; rewrite Em, Ee; reflexivity).
  assert (Hl : length (rho :: cs) = length cs) by (rewrite <- E, Hs; reflexivity). simpl in Hl. lia.
Qed.

Lemma close_props : forall k cs, okset cs -> (R < length cs + k)%nat ->
  let r := close P ids k cs in
  okset r /\ incl cs r /\ forall u v, (u < R)%nat -> In v (nthl P u) -> In v r -> In u r.
Proof.
  assert (Hids : forall x, In x ids -> (x < R)%nat) by (intros x Hx; apply in_seq in Hx; lia).
  induction k as [|k IH]; intros cs Hok Hk.
  - exfalso. destruct Hok as [Hnd Hin]. assert (incl cs ids) by (intros x Hx; apply in_seq; destruct (Hin x Hx); lia).
    pose proof (NoDup_incl_length Hnd H). unfold ids in H0. rewrite seq_length in H0. lia.
  - cbn [close]. rewrite pass_unfold. destruct (fold_ok ids cs Hids Hok) as [Hok' Hinc].
    destruct (length (fold_left pstep ids cs) =? length cs)%nat eqn:E.
    + apply Nat.eqb_eq in E. destruct (fold_fixed ids cs E) as [_ Hfix]. split; [exact Hok|]. split; [apply incl_refl|].
      intros u v Hu Hv Hin. assert (Huids : In u ids) by (unfold ids; apply in_seq; lia).
      destruct (Hfix u Huids) as [H|H]; [apply memn_In; exact H|].
      exfalso. assert (existsb (fun x => memn x cs) (nthl P u) = true) by (apply existsb_exists; exists v; split; [exact Hv|apply memn_In; exact Hin]). congruence.
    + apply Nat.eqb_neq in E. pose proof (fold_len ids cs).
      destruct (IH (fold_left pstep ids cs) Hok' ltac:(lia)) as [A [B C]]. split; [exact A|]. split; [eapply incl_tran; eauto|exact C].
Qed.
End Close.

(* C03(e): find_maximum_weight_closed_subset returns a maximum-weight predecessor-closed set *)
Theorem mwcs_optimal P ws fuel cs :
  (forall pi, (pi < length P)%nat -> NoDup (nthl P pi) /\ forall rho, In rho (nthl P pi) -> (rho < length P)%nat /\ rho <> pi) ->
  sumN (negp ws) (seq 0 (length P)) < maxsize ->
  mwcs fuel P ws = Some cs ->
  let c1 := fun pi => memn pi cs in
  pred_closed P c1 /\ forall c, pred_closed P c -> W P ws c <= W P ws c1.
Proof.
  intros PW Hsmall H c1. unfold mwcs in H.
  destruct (ford_fulkerson fuel (cnet P ws) (-1) (-2)) as [[out cut]|] eqn:Eff; [|discriminate]. injection H as Hcs.
  destruct (mincut_gives_max_closed P ws PW Hsmall fuel out cut Eff) as [HT0 Hopt].
  pose (T0 := fun pi => negb (memZ (Z.of_nat pi) cut)).
  pose (seed := filter (fun pi => (wt ws pi >? 0) && negb (memZ (Z.of_nat pi) cut)) (seq 0 (length P))).
  assert (Hseed : okset P T0 seed).
  { split; [apply NoDup_filter, seq_NoDup|]. intros x Hx. apply filter_In in Hx. destruct Hx as [Hx Hb]. apply in_seq in Hx.
    apply andb_true_iff in Hb. destruct Hb as [_ Hb]. split; [lia|exact Hb]. }
  pose proof (close_props P T0 HT0 (S (length P)) seed Hseed ltac:(lia)) as Hcp. cbv zeta in Hcp.
  change (close P (seq 0 (length P)) (S (length P)) seed = cs) in Hcs. rewrite Hcs in Hcp.
  destruct Hcp as [[Hnd Hin] [Hinc Hcl]].
  assert (Hpc : pred_closed P c1).
  { intros u v Hu Hv Hc. unfold c1 in *. apply memn_In. apply memn_In in Hc. eapply Hcl; eauto. }
  split; [exact Hpc|]. intros c Hc. apply Z.le_trans with (W P ws T0); [apply Hopt; exact Hc|].
  unfold W. set (ids := seq 0 (length P)).
  rewrite (sumN_split (wt ws) c1 (filter T0 ids)).
  assert (E1 : filter c1 (filter T0 ids) = filter c1 ids).
  { clear -Hin. induction ids as [|a t IH]; simpl; [reflexivity|]. destruct (T0 a) eqn:Ea; simpl.
    - destruct (c1 a); [f_equal|]; exact IH.
    - destruct (c1 a) eqn:Ec; [|exact IH]. exfalso. unfold c1 in Ec. apply memn_In in Ec. destruct (Hin a Ec) as [_ Ht]. congruence. }
  rewrite E1.
  assert (E2 : sumN (wt ws) (filter (fun x => negb (c1 x)) (filter T0 ids)) <= 0).
  { assert (G : forall l, (forall x, In x l -> In x ids) -> sumN (wt ws) (filter (fun x => negb (c1 x)) (filter T0 l)) <= 0).
    { induction l as [|a t IH]; intros Hl; simpl; [lia|]. assert (IHt : sumN (wt ws) (filter (fun x => negb (c1 x)) (filter T0 t)) <= 0) by (apply IH; intros; apply Hl; now right).
      destruct (T0 a) eqn:Ea; simpl; [|exact IHt]. destruct (c1 a) eqn:Ec; simpl; [exact IHt|].
      assert (wt ws a <= 0); [|lia]. destruct (Z.gtb_spec (wt ws a) 0) as [Hpos|Hle]; [|lia]. exfalso.
      assert (Hs : In a seed).
      { apply filter_In. split; [apply Hl; now left|]. apply andb_true_iff. split; [apply Z.gtb_lt; lia|exact Ea]. }
      apply Hinc in Hs. apply memn_In in Hs. unfold c1 in Ec. congruence. }
    apply G. auto. }
  lia.
Qed.
Print Assumptions mwcs_optimal.
