From Coq Require Import ZArith QArith List Bool Lia.
Import ListNotations.
Require Import ElicitM.
Local Open Scope Z_scope.
Ltac Zify.zify_post_hook ::= Z.to_euclidean_division_equations.

Section BS.
Variables (fixer : Z) (V : key -> Q) (rk : list Z) (i m : Z) (tau : Q).
Definition val (p : Z) : Q := V (i + fixer, nth (Z.to_nat p) rk 0 + fixer).

(* C14: what the binary search of the elicitation rules returns *)
Lemma bsearch_spec fuel : forall a b st p st',
  memo_inv V st ->
  run true fixer V (bsearchP fuel rk i a b tau) st = (p, st') ->
  0 <= a -> a < b -> b <= m -> b - a <= Z.of_nat fuel ->
  (a = 0 \/ (tau <= val a)%Q) -> (b = m \/ (val b < tau)%Q) ->
  memo_inv V st' /\ a <= p /\ p < b /\ (p = 0 \/ (tau <= val p)%Q) /\ (p + 1 = m \/ (val (p + 1) < tau)%Q).
Proof.
  induction fuel as [|f IH]; intros a b st p st' Hm Hrun Ha Hab Hb Hf Hlo Hhi; [lia|].
  cbn [bsearchP] in Hrun. destruct (b - a <=? 1) eqn:E.
  - apply Z.leb_le in E. cbn [run] in Hrun. injection Hrun as <- <-.
    assert (b = a + 1) by lia. subst b. split; [exact Hm|]. split; [lia|]. split; [lia|]. split; assumption.
  - apply Z.leb_gt in E. cbn [run] in Hrun.
    set (mid := (a + b) / 2) in *.
    assert (Hmid : a < mid /\ mid < b).
    { unfold mid. lia. }
    pose proof (elicit_memo_inv fixer V st (i, nth (Z.to_nat mid) rk 0) Hm) as [Hm1 Hv].
    destruct (elicit true fixer V st (i, nth (Z.to_nat mid) rk 0)) as [st1 u] eqn:Ee. cbn [fst snd] in Hm1, Hv.
    assert (Hu : u = val mid) by (rewrite Hv; reflexivity).
    destruct (Qle_bool tau u) eqn:Eq.
    + apply Qle_bool_iff in Eq. rewrite Hu in Eq.
      destruct (IH mid b st1 p st' Hm1 Hrun ltac:(lia) ltac:(lia) Hb ltac:(lia) (or_intror Eq) Hhi) as [A [B [C [D F]]]].
      split; [exact A|]. split; [lia|]. split; [lia|]. split; assumption.
    + assert (Hlt : (val mid < tau)%Q).
      { rewrite <- Hu. apply Qnot_le_lt. intros Hle. apply Qle_bool_iff in Hle. congruence. }
      destruct (IH a mid st1 p st' Hm1 Hrun Ha ltac:(lia) ltac:(lia) ltac:(lia) Hlo (or_intror Hlt)) as [A [B [C [D F]]]].
      split; [exact A|]. split; [lia|]. split; [lia|]. split; assumption.
Qed.

(* C15: a search on an interval of width w forwards at most log2_up w questions *)
Lemma bsearch_queries fuel : forall a b st p st',
  run true fixer V (bsearchP fuel rk i a b tau) st = (p, st') ->
  a < b -> (Z.of_nat (cnt st') <= Z.of_nat (cnt st) + Z.log2_up (b - a)).
Proof.
  induction fuel as [|f IH]; intros a b st p st' Hrun Hab.
  - cbn in Hrun. injection Hrun as <- <-. pose proof (Z.log2_up_nonneg (b - a)). lia.
  - cbn [bsearchP] in Hrun. destruct (b - a <=? 1) eqn:E.
    + cbn [run] in Hrun. injection Hrun as <- <-. pose proof (Z.log2_up_nonneg (b - a)). lia.
    + apply Z.leb_gt in E. cbn [run] in Hrun.
      set (mid := (a + b) / 2) in *.
      assert (Hmid : a < mid /\ mid < b).
      { unfold mid. lia. }
      assert (Hhalf : 2 * (b - mid) <= (b - a) + 1 /\ 2 * (mid - a) <= b - a).
      { unfold mid. lia. }
      destruct (elicit true fixer V st (i, nth (Z.to_nat mid) rk 0)) as [st1 u] eqn:Ee.
      assert (Hc1 : (cnt st1 <= S (cnt st))%nat).
      { unfold elicit in Ee. destruct (mget (memo st) _); injection Ee as <- _; simpl; lia. }
      assert (Hlog : forall w, 1 <= w -> 2 * w <= (b - a) + 1 -> Z.log2_up w + 1 <= Z.log2_up (b - a)).
      { intros w Hw Hle. destruct (Z.eq_dec w 1) as [->|Hne].
        - simpl. assert (1 < b - a) by lia. pose proof (Z.log2_up_pos (b - a) H). lia.
        - assert (Hw2 : 1 < w) by lia.
          (* 2^(log2_up w - 1) < w, so 2^(log2_up w) < 2w <= b-a+1, hence 2^(log2_up w) <= b - a ... *)
          pose proof (Z.log2_up_spec w Hw2) as [Hl _].
          assert (Hp : 2 ^ Z.log2_up w < 2 * w).
          { replace (Z.log2_up w) with (Z.succ (Z.pred (Z.log2_up w))) by lia. rewrite Z.pow_succ_r; [lia|].
            pose proof (Z.log2_up_pos w Hw2). lia. }
          assert (Hq : 2 ^ Z.log2_up w < b - a + 1) by lia.
          (* log2_up w < log2_up (b-a) or equal with slack: use monotonicity on 2^(log2_up w) + ... *)
          assert (Hr : 2 ^ Z.log2_up w <= b - a) by lia.
          assert (Hs : 2 ^ Z.log2_up w < b - a \/ 2 ^ Z.log2_up w = b - a) by lia.
          destruct Hs as [Hs|Hs].
          + apply Z.log2_up_lt_pow2 in Hs; lia.
          + (* then 2w > b - a = 2^L means w > 2^(L-1): fine, but we need L + 1 <= log2_up (b-a) = L: impossible, so show contradiction *)
            exfalso. rewrite <- Hs in Hle. (* 2w <= 2^L + 1 and 2^(L-1) < w, i.e. 2^L < 2w <= 2^L + 1, so 2w = 2^L + 1: parity *)
            assert (Hpar : 2 * w = 2 ^ Z.log2_up w + 1) by lia.
            pose proof (Z.log2_up_pos w Hw2) as HLpos.
            replace (Z.log2_up w) with (Z.succ (Z.pred (Z.log2_up w))) in Hpar by lia. rewrite Z.pow_succ_r in Hpar by lia. lia. }
      destruct (Qle_bool tau u).
      * specialize (IH mid b st1 p st' Hrun ltac:(lia)).
        pose proof (Hlog (b - mid) ltac:(lia) ltac:(lia)). lia.
      * specialize (IH a mid st1 p st' Hrun ltac:(lia)).
        pose proof (Hlog (mid - a) ltac:(lia) ltac:(lia)). lia.
Qed.
End BS.
Print Assumptions bsearch_spec.
Print Assumptions bsearch_queries.
