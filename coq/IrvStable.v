(* C03 (c'): eliminating a rotation that is exposed in a stable matching (each man's next woman is the first one after
   his wife who prefers him to her own husband) yields a stable matching again - for every strict instance, no bound on n. *)
From Coq Require Import Arith ZArith List Bool Lia Permutation.
Import ListNotations.
From SCK Require Import Irving IrvRot.

Section Stab.
Variables (P1 P2 : list (list nat)).     (* 0-based ranks: P1 m w, P2 w m *)
Definition rk (P : list (list nat)) (a b : nat) : nat := nth b (nth a P []) 0.

(* a matching as a list of (man, woman) pairs; no blocking pair *)
Definition pmatching (M : list (nat * nat)) : Prop := NoDup (map fst M) /\ NoDup (map snd M).
Definition pstable (M : list (nat * nat)) : Prop :=
  pmatching M /\ forall m w w' m', In (m, w') M -> In (m', w) M -> ~ (rk P1 m w < rk P1 m w' /\ rk P2 w m < rk P2 w m').
(* strictness of the men's rows on the women that occur in M *)
Definition strict_on (M : list (nat * nat)) : Prop :=
  forall m w w', In m (map fst M) -> In w (map snd M) -> In w' (map snd M) -> rk P1 m w = rk P1 m w' -> w = w'.

(* rt is exposed in M: consecutive pairs (m, w), (m1, w1): w1 comes after w on m's list, w1 prefers m to her husband m1, and
   no woman strictly between w and w1 on m's list prefers m to her husband *)
Definition exposed_full (M : list (nat * nat)) (rt : rot) : Prop :=
  NoDup (map (@fst nat nat) rt) /\ incl rt M /\
  forall i, i < length rt ->
    let m := fst (nth i rt (0, 0)) in let w := snd (nth i rt (0, 0)) in
    let m1 := fst (nxt rt i) in let w1 := snd (nxt rt i) in
    rk P1 m w < rk P1 m w1 /\ rk P2 w1 m < rk P2 w1 m1 /\
    forall m2 w2, In (m2, w2) M -> rk P1 m w < rk P1 m w2 -> rk P1 m w2 < rk P1 m w1 -> ~ rk P2 w2 m < rk P2 w2 m2.

Lemma snd_unique (M : list (nat * nat)) a b w : NoDup (map snd M) -> In (a, w) M -> In (b, w) M -> a = b.
Proof.
  intros Hnd Ha Hb. apply In_nth_error in Ha as [i Hi]. apply In_nth_error in Hb as [j Hj].
  rewrite NoDup_nth_error in Hnd. assert (i = j).
  { apply Hnd; [apply nth_error_Some; rewrite nth_error_map, Hi; discriminate|rewrite !nth_error_map, Hi, Hj; reflexivity]. }
  subst. congruence.
Qed.
Lemma fst_unique (M : list (nat * nat)) m a b : NoDup (map fst M) -> In (m, a) M -> In (m, b) M -> a = b.
Proof.
  intros Hnd Ha Hb. apply In_nth_error in Ha as [i Hi]. apply In_nth_error in Hb as [j Hj].
  rewrite NoDup_nth_error in Hnd. assert (i = j).
  { apply Hnd; [apply nth_error_Some; rewrite nth_error_map, Hi; discriminate|rewrite !nth_error_map, Hi, Hj; reflexivity]. }
  subst. congruence.
Qed.

Section One.
Variables (M : list (nat * nat)) (rt : rot).
Hypothesis HS : pstable M.
Hypothesis Hstrict : strict_on M.
Hypothesis HE : exposed_full M rt.
Let r := length rt.

Lemma pidx p i : pindex_of p rt = Some i -> i < r /\ nth i rt (0, 0) = p.
Proof.
  intros H. destruct (pindex_of_Some _ _ _ H) as [H1 _]. split; [apply nth_error_Some; congruence|apply nth_error_nth; exact H1].
Qed.

(* women are weakly better off *)
Lemma women_improve q m_old : In q M -> In (m_old, snd (shift rt q)) M -> rk P2 (snd (shift rt q)) (fst (shift rt q)) <= rk P2 (snd (shift rt q)) m_old.
Proof.
  intros Hq Hold. destruct HS as [[HndM HndW] _]. destruct HE as [Hndr [Hincl Hexp]]. unfold shift in *.
  destruct (pindex_of q rt) as [j|] eqn:Ej.
  - destruct (pidx q j Ej) as [Hj Hnth]. cbn [fst snd] in *. specialize (Hexp j Hj). cbv zeta in Hexp. destruct Hexp as [_ [Hb _]].
    rewrite Hnth in Hb.
    assert (Hn : In (nxt rt j) M) by (apply Hincl; unfold nxt; apply nth_In, Nat.mod_upper_bound; lia).
    assert (m_old = fst (nxt rt j)).
    { apply (snd_unique M m_old (fst (nxt rt j)) (snd (nxt rt j)) HndW Hold). destruct (nxt rt j); exact Hn. }
    subst m_old. lia.
  - destruct q as [m' w]. cbn [fst snd] in *. assert (m_old = m') by (apply (snd_unique M m_old m' w HndW Hold Hq)). subst. lia.
Qed.

Theorem eliminate_keeps_stable : pstable (map (shift rt) M).
Proof.
  pose proof HS as [[HndM HndW] Hnb]. pose proof HE as [Hndr [Hincl Hexp]].
  split.
  - split.
    + rewrite (shift_keeps_men rt M). exact HndM.
    + eapply Permutation_NoDup; [symmetry; apply (shift_keeps_women rt M HndM HndW Hndr Hincl)|exact HndW].
  - intros m w w' m' Hp Hq [B1 B2].
    apply in_map_iff in Hp as [p [Ep Hp]]. apply in_map_iff in Hq as [q [Eq Hq]].
    (* the old husband of w *)
    assert (Hw : In w (map snd M)).
    { eapply Permutation_in; [apply (shift_keeps_women rt M HndM HndW Hndr Hincl)|]. apply in_map_iff. exists (shift rt q). split; [rewrite Eq; reflexivity|apply in_map; exact Hq]. }
    apply in_map_iff in Hw as [[m_old w_] [Ew Hold]]. cbn [snd] in Ew. subst w_.
    pose proof (women_improve q m_old Hq) as HF2. rewrite Eq in HF2. cbn [fst snd] in HF2. specialize (HF2 Hold).
    assert (B2' : rk P2 w m < rk P2 w m_old) by lia.
    unfold shift in Ep. destruct (pindex_of p rt) as [i|] eqn:Ei.
    + destruct (pidx p i Ei) as [Hi Hnth]. injection Ep as Em Ew'. specialize (Hexp i Hi). cbv zeta in Hexp. rewrite Hnth in Hexp.
      destruct p as [pm w0]. cbn [fst snd] in *. subst pm. destruct Hexp as [Ha [_ Hc]]. rewrite Ew' in Ha, Hc.
      destruct (lt_eq_lt_dec (rk P1 m w) (rk P1 m w0)) as [[L|E]|G].
      * apply (Hnb m w w0 m_old Hp Hold). split; assumption.
      * assert (w = w0).
        { apply (Hstrict m w w0); [apply in_map_iff; exists (m, w0); auto|apply in_map_iff; exists (m_old, w); auto|apply in_map_iff; exists (m, w0); auto|exact E]. }
        subst w0. assert (m_old = m) by (apply (snd_unique M m_old m w HndW Hold Hp)). subst m_old. lia.
      * apply (Hc m_old w Hold G B1). exact B2'.
    + subst p. apply (Hnb m w w' m_old Hp Hold). split; assumption.
Qed.
End One.

(* strictness is about the set of women, which elimination does not change *)
Lemma strict_on_shift (M : list (nat * nat)) (rt : rot) : NoDup (map fst M) -> NoDup (map snd M) -> NoDup (map fst rt) -> incl rt M -> strict_on M -> strict_on (map (shift rt) M).
Proof.
  intros H1 H2 H3 H4 Hs m w w' Hm Hw Hw'. apply Hs; [rewrite <- (shift_keeps_men rt M); exact Hm| |]; (eapply Permutation_in; [apply (shift_keeps_women rt M H1 H2 H3 H4)|assumption]).
Qed.

Fixpoint exposed_full_all (M : list (nat * nat)) (rts : list rot) : Prop :=
  match rts with [] => True | rt :: rest => exposed_full M rt /\ exposed_full_all (map (shift rt) M) rest end.

Theorem eliminate_all_keeps_stable : forall rts M, pstable M -> strict_on M -> exposed_full_all M rts ->
  exists M', eliminate M rts = Some M' /\ pstable M'.
Proof.
  unfold eliminate. induction rts as [|rt rest IH]; intros M HS Hst HE.
  - exists M. split; [reflexivity|exact HS].
  - destruct HE as [HE1 HE2]. pose proof HS as [[HndM HndW] _]. pose proof HE1 as [Hndr [Hincl _]]. cbn [fold_left].
    change (fold_left (elim_apply_one rt) (seq 0 (length rt)) (Some M)) with (elim_one rt M).
    rewrite (elim_one_spec rt M HndM Hndr Hincl).
    apply IH; [apply eliminate_keeps_stable; assumption|apply strict_on_shift; assumption|exact HE2].
Qed.
End Stab.

(* ---------- boolean forms, evaluated by the kernel on every explored run ---------- *)
Section Bool.
Variables (P1 P2 : list (list nat)).
Definition pstableb (M : list (nat * nat)) : bool :=
  perfectb M &&
  forallb (fun p => forallb (fun q => negb ((rk P1 (fst p) (snd q) <? rk P1 (fst p) (snd p)) && (rk P2 (snd q) (fst p) <? rk P2 (snd q) (fst q)))) M) M.
Definition strict_onb (M : list (nat * nat)) : bool :=
  forallb (fun p => forallb (fun a => forallb (fun b => negb (rk P1 (fst p) (snd a) =? rk P1 (fst p) (snd b)) || (snd a =? snd b)) M) M) M.
Definition exposed_fullb (M : list (nat * nat)) (rt : rot) : bool :=
  nodupn (map fst rt) && forallb (fun p => memp p M) rt &&
  forallb (fun i =>
    let m := fst (nth i rt (0, 0)) in let w := snd (nth i rt (0, 0)) in
    let m1 := fst (nxt rt i) in let w1 := snd (nxt rt i) in
    (rk P1 m w <? rk P1 m w1) && (rk P2 w1 m <? rk P2 w1 m1) &&
    forallb (fun q => negb ((rk P1 m w <? rk P1 m (snd q)) && (rk P1 m (snd q) <? rk P1 m w1) && (rk P2 (snd q) m <? rk P2 (snd q) (fst q)))) M)
    (seq 0 (length rt)).
Fixpoint exposed_full_allb (M : list (nat * nat)) (rts : list rot) : bool :=
  match rts with [] => true | rt :: rest => exposed_fullb M rt && exposed_full_allb (map (shift rt) M) rest end.

Lemma pstableb_sound M : pstableb M = true -> pstable P1 P2 M.
Proof.
  unfold pstableb. intros H. apply andb_prop in H as [Hp Hb]. apply andb_prop in Hp as [H1 H2]. apply nodupn_sound in H1, H2.
  split; [split; assumption|]. intros m w w' m' Hp Hq [B1 B2]. rewrite forallb_forall in Hb. specialize (Hb _ Hp). rewrite forallb_forall in Hb.
  specialize (Hb _ Hq). cbn [fst snd] in Hb. apply negb_true_iff, andb_false_iff in Hb. destruct Hb as [Hb|Hb]; apply Nat.ltb_ge in Hb; lia.
Qed.
Lemma strict_onb_sound M : strict_onb M = true -> strict_on P1 M.
Proof.
  intros H m w w' Hm Hw Hw' E. unfold strict_onb in H. rewrite forallb_forall in H.
  apply in_map_iff in Hm as [p [<- Hp]]. apply in_map_iff in Hw as [a [<- Ha]]. apply in_map_iff in Hw' as [b [<- Hb]].
  specialize (H p Hp). rewrite forallb_forall in H. specialize (H a Ha). rewrite forallb_forall in H. specialize (H b Hb).
  apply orb_prop in H as [H|H]; [apply negb_true_iff, Nat.eqb_neq in H; contradiction|apply Nat.eqb_eq in H; exact H].
Qed.
Lemma exposed_fullb_sound M rt : exposed_fullb M rt = true -> exposed_full P1 P2 M rt.
Proof.
  unfold exposed_fullb. intros H. apply andb_prop in H as [H H3]. apply andb_prop in H as [H1 H2].
  split; [apply nodupn_sound; exact H1|]. split.
  - intros p Hp. rewrite forallb_forall in H2. specialize (H2 p Hp). unfold memp in H2. apply existsb_exists in H2 as [q [Hq E]].
    apply peq_true in E. subst. exact Hq.
  - intros i Hi. rewrite forallb_forall in H3. specialize (H3 i ltac:(apply in_seq; lia)). cbv zeta in H3 |- *.
    apply andb_prop in H3 as [H3 Hc]. apply andb_prop in H3 as [Ha Hb]. apply Nat.ltb_lt in Ha, Hb. split; [exact Ha|]. split; [exact Hb|].
    intros m2 w2 Hin L1 L2 L3. rewrite forallb_forall in Hc. specialize (Hc _ Hin). cbn [fst snd] in Hc.
    apply negb_true_iff in Hc. apply Nat.ltb_lt in L1, L2, L3. rewrite L1, L2, L3 in Hc. discriminate.
Qed.
Lemma exposed_full_allb_sound rts : forall M, exposed_full_allb M rts = true -> exposed_full_all P1 P2 M rts.
Proof.
  induction rts as [|rt rest IH]; intros M H; [exact I|]. cbn [exposed_full_allb] in H. apply andb_prop in H as [H1 H2].
  split; [apply exposed_fullb_sound; exact H1|apply IH; exact H2].
Qed.
End Bool.

(* a run of the pipeline whose hypotheses were evaluated: the returned matching is stable (pair-list form) *)
Theorem irving_final_stable P1 P2 V1 V2 ff t :
  irving P1 P2 V1 V2 ff = Some t ->
  pstableb P1 P2 (t_M0 t) = true -> strict_onb P1 (t_M0 t) = true ->
  exposed_full_allb P1 P2 (t_M0 t) (map (fun i => nth i (t_rots t) []) (t_S t)) = true ->
  exists M', t_out t = Some M' /\ pstable P1 P2 M'.
Proof.
  intros Hr H1 H2 H3. apply pstableb_sound in H1. apply strict_onb_sound in H2. apply exposed_full_allb_sound in H3.
  destruct (eliminate_all_keeps_stable P1 P2 _ _ H1 H2 H3) as [M' [E HS]]. exists M'. split; [|exact HS].
  unfold irving in Hr. cbv zeta in Hr.
  repeat match type of Hr with match ?x with _ => _ end = _ => destruct x as [?v|]; [|discriminate] end.
  match type of Hr with (let (_, _) := ?v in _) = _ => destruct v as [rots el] end.
  repeat match type of Hr with match ?x with _ => _ end = _ => destruct x as [?v|]; [|discriminate] end.
  injection Hr as <-. cbn [t_out t_M0 t_rots t_S] in *. exact E.
Qed.
