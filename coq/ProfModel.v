(* profile_utils.py / data_generation.py: executable specification-level models (counting definitions instead of
   argsort loops — they are what the code computes whenever the code's result is determined, and the
   correspondence check compares them exactly on such inputs). None = NaN. No proofs here. *)
From Coq Require Import Arith ZArith QArith Qround Qabs List Bool Lia.
Import ListNotations.

Definition oq := option Q.
Definition countb {A} (f : A -> bool) (l : list A) : nat := length (filter f l).
Definition somes (row : list oq) : nat := countb (fun o => match o with Some _ => true | None => false end) row.
Definition qlt (a b : Q) : bool := negb (Qle_bool b a).

(* number of entries j' with key(j') strictly before key(j), plus the earlier ones among equal keys *)
Definition rank_by (lt eq : Q -> Q -> bool) (row : list oq) (j : nat) (x : Q) : nat :=
  countb (fun o => match o with Some y => lt y x | None => false end) row +
  countb (fun o => match o with Some y => eq y x | None => false end) (firstn j row).

(* compute_ordinal_profile (profile_utils.py:268-282): rank 1 = highest value; NaN kept; equal values in index order
   (numpy's argsort leaves that order open: for tied inputs the output is validated, not compared) *)
Definition ordinal_row (row : list oq) : list oq :=
  map (fun jo => match snd jo with Some x => Some (inject_Z (Z.of_nat (S (rank_by (fun y x => qlt x y) Qeq_bool row (fst jo) x)))) | None => None end)
      (combine (seq 0 (length row)) row).

(* profile_with_ties_to_strict_profile, tie_breaker 'first' (profile_utils.py:226-249, after the repair): every ranked
   alternative is numbered by the number of strictly better ones plus the earlier ones in its own class; NaN kept.
   For 'random' the order inside a class is the sampler's: tiebreak j = position of j inside its class *)
Definition strict_row (row : list oq) : list oq :=
  map (fun jo => match snd jo with Some x => Some (inject_Z (Z.of_nat (S (rank_by qlt Qeq_bool row (fst jo) x)))) | None => None end)
      (combine (seq 0 (length row)) row).

(* incomplete_profile_to_complete_profile (profile_utils.py:181-198): existing ranks kept, the k missing ones get
   m-k+1 .. m in index order ('first') or all m-k+1 ('accept') *)
Definition complete_row (accept : bool) (row : list oq) : list oq :=
  let m := length row in
  let k := (m - somes row)%nat in
  map (fun jo => match snd jo with
                 | Some x => Some x
                 | None => Some (inject_Z (Z.of_nat (m - k + 1 + (if accept then 0 else (fst jo - somes (firstn (fst jo) row)))))) end)
      (combine (seq 0 (length row)) row).

(* ---- generators (data_generation.py:87-108, 152-175): the draws are an oracle ---- *)
Fixpoint insq_desc (x : Q) (l : list Q) : list Q := match l with [] => [x] | y :: r => if Qle_bool y x then x :: l else y :: insq_desc x r end.
Definition sort_desc (l : list Q) : list Q := fold_right insq_desc [] l.
Definition sumq (l : list Q) : Q := fold_right (fun x a => Qred (x + a)) 0%Q l.
Definition clip0 (l : list Q) : list Q := map (fun x => if Qle_bool 0 x then x else 0%Q) l.
(* rank r (1-based, as stored in the strict profile) gets the r-th largest normalised draw *)
Definition gen_row (clip : bool) (row : list oq) (draws : list Q) : list oq :=
  let u := if clip then clip0 draws else draws in
  let s := sumq u in
  let sorted := map (fun x => Qred (x / s)) (sort_desc u) in
  map (fun o => match o with Some r => Some (nth (Z.to_nat (Qfloor r) - 1) sorted 0%Q) | None => None end) row.

(* is_consistent_valuation_profile on a NaN-free row: position-wise, the value of the item ranked p-th must be
   np.allclose to the p-th largest value: |a - b| <= 1e-8 + 1e-5 |b| with a = V[item by profile], b = V[item by value] *)
Definition allclose (a b : Q) : bool := Qle_bool (Qabs (a - b)) ((1 # 100000000) + (1 # 100000) * Qabs b).
Definition by_rank (prow : list oq) (vrow : list Q) : list Q :=
  (* values listed in the order of the profile's ranks 1..m (strict complete rows) *)
  map (fun r => match find (fun jv => match fst jv with Some x => Qeq_bool x (inject_Z (Z.of_nat r)) | None => false end) (combine prow vrow) with
                | Some jv => snd jv | None => 0%Q end) (seq 1 (length prow)).
Definition consistent_row (prow : list oq) (vrow : list Q) : bool :=
  forallb (fun ab => allclose (fst ab) (snd ab)) (combine (by_rank prow vrow) (sort_desc vrow)).

(* ---- validity checker for outputs that numpy's unstable argsort leaves open (tied values) ---- *)
Definition oq_eqb (a b : oq) : bool := match a, b with Some x, Some y => Qeq_bool x y | None, None => true | _, _ => false end.
Definition row_eqb (a b : list oq) : bool := (length a =? length b)%nat && forallb (fun p => oq_eqb (fst p) (snd p)) (combine a b).
Definition prof_eqb (A B : list (list oq)) : bool := (length A =? length B)%nat && forallb (fun p => row_eqb (fst p) (snd p)) (combine A B).
(* out is a valid ordinal row for row: same NaN pattern, ranks 1..k each once, strictly larger value => strictly smaller rank *)
Definition ordinal_ok (row out : list oq) : bool :=
  (length row =? length out)%nat &&
  forallb (fun p => match fst p, snd p with Some _, Some _ => true | None, None => true | _, _ => false end) (combine row out) &&
  forallb (fun r => (countb (fun o => match o with Some y => Qeq_bool y (inject_Z (Z.of_nat r)) | None => false end) out =? 1)%nat) (seq 1 (somes row)) &&
  forallb (fun p => forallb (fun q => match fst p, fst q, snd p, snd q with
                                      | Some v1, Some v2, Some r1, Some r2 => negb (qlt v2 v1) || qlt r1 r2
                                      | _, _, _, _ => true end) (combine row out)) (combine row out).
