(* C16 end to end for k-ARV: the hypotheses of the abstract distortion theorem follow from C14's theorems about
   the simulated profile, for every profile, consistent non-negative valuation and thresholds with the stated
   numeric facts; hence the distortion bound for any alternative maximising the simulated welfare. *)
From Coq Require Import Arith ZArith QArith List Bool Lia Lqa.
Import ListNotations.
From SCK Require Import Argsort StrictB ElicitM ElicitRules ElicitSpec ElicitSpecProof ElicitFinal Distortion.
Local Open Scope Z_scope.

Section KARVFinal.
Variables (fixer : Z) (V : key -> Q) (P : list (list Z)) (k : nat) (tau : list (list Q)) (rho : Q).
Let n := length P.
Let m := length (nth 0 P []).
Hypothesis Hm : (1 <= m)%nat.
Hypothesis Hk : (1 <= k)%nat.
Hypothesis Hrows : forall row, In row P -> length row = m /\ strict_rowb row = true.
Hypothesis Hcons : forall i j j', (i < n)%nat -> (j < m)%nat -> (j' < m)%nat ->
  nth j (nth i P []) 0 <= nth j' (nth i P []) 0 -> (Vat fixer V i j' <= Vat fixer V i j)%Q.
Hypothesis Hnonneg : forall i j, (i < n)%nat -> (j < m)%nat -> (0 <= Vat fixer V i j)%Q.
(* numeric facts about the thresholds the code computed (checked per case by the harness on the floats) *)
Definition favi (i : nat) : nat := Z.to_nat (rkat (rank_list (nth i P [])) 0).
Hypothesis Hrho : (1 <= rho)%Q.
Hypothesis Htau_pos : forall i l, (i < n)%nat -> (1 <= l)%nat -> (l <= k)%nat -> (0 <= tauof tau i l)%Q.
Hypothesis Htau_mono : forall i l, (i < n)%nat -> (1 <= l)%nat -> (l < k)%nat -> (tauof tau i (S l) <= tauof tau i l)%Q.
Hypothesis Hratio1 : forall i, (i < n)%nat -> (Vat fixer V i (favi i) <= rho * tauof tau i 1)%Q.
Hypothesis Hratio : forall i l, (i < n)%nat -> (1 <= l)%nat -> (l < k)%nat -> (tauof tau i l <= rho * tauof tau i (S l))%Q.
Hypothesis Hlast : forall i, (i < n)%nat -> (inject_Z (Z.of_nat m) * tauof tau i k <= rho * Vat fixer V i (favi i))%Q.

Definition vt (i j : nat) : Q := nth j (srow fixer V P k tau false 0%Q i) 0%Q.

Lemma favi_spec i : (i < n)%nat -> (favi i < m)%nat /\ nth (favi i) (nth i P []) 0 = 1.
Proof.
  intros Hi. destruct (Hrows (nth i P []) (nth_In P [] Hi)) as [Hl Hs].
  destruct (rank_list_spec (nth i P []) Hs 0%nat ltac:(rewrite Hl; lia)) as [a [Ea [Ha Ra]]]. cbn in Ea, Ra.
  unfold favi. rewrite Ea, Nat2Z.id. rewrite Hl in Ha. split; [exact Ha|exact Ra].
Qed.
Lemma rank_ge1 i j : (i < n)%nat -> (j < m)%nat -> 1 <= nth j (nth i P []) 0.
Proof.
  intros Hi Hj. destruct (Hrows (nth i P []) (nth_In P [] Hi)) as [Hl Hs]. destruct (row_facts _ Hs) as [Hpos _].
  apply Hpos. apply nth_In. rewrite Hl. exact Hj.
Qed.

Lemma item_facts i j : (i < n)%nat -> (j < m)%nat ->
  (0 <= vt i j /\ vt i j <= Vat fixer V i j)%Q /\ (Vat fixer V i j <= rho * vt i j + tauof tau i k)%Q.
Proof.
  intros Hi Hj. pose proof (rank_ge1 i j Hi Hj) as Hr. pose proof (Hnonneg i j Hi Hj) as Hv.
  pose proof (Htau_pos i k Hi Hk (le_n k)) as Htk.
  destruct (Z.eq_dec (nth j (nth i P []) 0) 1) as [E1|Hne].
  - (* favourite *)
    unfold vt. rewrite (C14_favourite_exact fixer V P k tau false 0%Q Hm Hrows Hcons (fun i0 l H1 H2 H3 => Htau_mono i0 l H1 H2 H3) i Hi j Hj E1).
    split; [split; lra|nra].
  - destruct (C14_sets fixer V P k tau false 0%Q Hm Hrows Hcons (fun i0 l H1 H2 H3 => Htau_mono i0 l H1 H2 H3) i Hi j Hj Hk ltac:(lia))
      as [[l [A [B [C [D [E [F [G [_ Hprev]]]]]]]]]|[A [B C]]].
    + unfold vt. rewrite (G eq_refl). pose proof (Htau_pos i l Hi A B) as Hp. split; [split; [exact Hp|exact E]|].
      destruct (Nat.eq_dec l 1) as [->|Hl1].
      * destruct (favi_spec i Hi) as [Hf1 Hf2]. pose proof (Hcons i (favi i) j Hi Hf1 Hj ltac:(rewrite Hf2; exact Hr)) as Hle.
        pose proof (Hratio1 i Hi). lra.
      * pose proof (Hprev (l - 1)%nat ltac:(lia) ltac:(lia)) as Hlt. pose proof (Hratio i (l - 1)%nat Hi ltac:(lia) ltac:(lia)) as Hrt.
        replace (S (l - 1)) with l in Hrt by lia. lra.
    + unfold vt. rewrite B. split; [split; lra|lra].
Qed.

(* the k-ARV distortion bound for the simulated profile computed by the rule's model, for every alternative x and
   every alternative y maximising the simulated welfare (the reported winners) *)
Theorem karv_end_to_end x y : (x < m)%nat -> (y < m)%nat ->
  (forall j, (j < m)%nat -> (sumQ (fun i => vt i j) (seq 0 n) <= sumQ (fun i => vt i y) (seq 0 n))%Q) ->
  (sumQ (fun i => Vat fixer V i x) (seq 0 n) <= 2 * rho * sumQ (fun i => Vat fixer V i y) (seq 0 n))%Q.
Proof.
  intros Hx Hy Hmax.
  apply (karv_distortion (seq 0 n) (seq 0 m) (Vat fixer V) vt favi (fun i => tauof tau i k) rho).
  - lra.
  - rewrite seq_length. change 0%Q with (inject_Z 0). rewrite <- Zlt_Qlt. lia.
  - intros i j Hi Hj. apply in_seq in Hi. apply in_seq in Hj. apply item_facts; lia.
  - intros i j Hi Hj. apply in_seq in Hi. apply in_seq in Hj. apply item_facts; lia.
  - intros i Hi. apply in_seq in Hi. rewrite seq_length. destruct (favi_spec i ltac:(lia)) as [Hf1 Hf2].
    unfold vt. rewrite (C14_favourite_exact fixer V P k tau false 0%Q Hm Hrows Hcons (fun i0 l H1 H2 H3 => Htau_mono i0 l H1 H2 H3) i ltac:(lia) (favi i) Hf1 Hf2).
    apply Hlast. lia.
  - intros i Hi. apply in_seq in Hi. apply in_seq. destruct (favi_spec i ltac:(lia)). lia.
  - apply in_seq. lia.
  - apply in_seq. lia.
  - intros j Hj. apply in_seq in Hj. apply Hmax. lia.
Qed.
End KARVFinal.
