(* Executable model of Irving.scf (deterministic_matching.py:206-766): man-optimal matching by the proved
   deferred-acceptance model, shortlists, level-wise rotation discovery with elimination bookkeeping, sparse
   rotation poset (rules 1 and 2), rotation weights, maximum-weight closed subset by the proved min-cut
   model (Mwcs.v), elimination in index order. No proofs here. *)
From Coq Require Import ZArith List Bool Lia.
Import ListNotations.
From SCK Require Import Argsort FlowModel Mwcs GSFinal.

(* ---------- helpers over nat ---------- *)
Definition nthn (l : list nat) (i : nat) : nat := nth i l O.
Fixpoint upd {A} (l : list A) (i : nat) (x : A) : list A :=
  match l, i with [], _ => [] | _ :: r, O => x :: r | y :: r, S j => y :: upd r j x end.
Definition peq (a b : nat * nat) : bool := (fst a =? fst b)%nat && (snd a =? snd b)%nat.
Definition memp (x : nat * nat) (l : list (nat * nat)) : bool := existsb (peq x) l.
Fixpoint index_of (x : nat) (l : list nat) : option nat :=
  match l with [] => None | y :: r => if (x =? y)%nat then Some O else option_map S (index_of x r) end.
Fixpoint pindex_of (x : nat * nat) (l : list (nat * nat)) : option nat :=
  match l with [] => None | y :: r => if peq x y then Some O else option_map S (pindex_of x r) end.
Fixpoint dropwhile {A} (f : A -> bool) (l : list A) : list A :=
  match l with [] => [] | x :: r => if f x then dropwhile f r else l end.
Fixpoint aget {V} (l : list ((nat * nat) * V)) (k : nat * nat) : option V :=
  match l with [] => None | (k', v) :: r => if peq k k' then Some v else aget r k end.
Fixpoint aset {V} (l : list ((nat * nat) * V)) (k : nat * nat) (v : V) : list ((nat * nat) * V) :=
  match l with [] => [(k, v)] | (k', v') :: r => if peq k k' then (k', v) :: r else (k', v') :: aset r k v end.

Definition rot := list (nat * nat).

(* ---------- find_initial_preference_lists ---------- *)
Section Init.
Variables (P1 P2 : list (list nat)) (M : list (nat * nat)).   (* 0-based ranks; M = [(man, woman)] *)
Let n := length P1.
Let ranked1 := map (fun row => argsort (map Some row)) P1.
Let ranked2 := map (fun row => argsort (map Some row)) P2.
Definition wife (i : nat) : nat := match find (fun p => (fst p =? i)%nat) M with Some p => snd p | None => O end.
Definition husband (j : nat) : nat := match find (fun p => (snd p =? j)%nat) M with Some p => fst p | None => O end.
Definition pl1_0 (i : nat) : list nat := skipn (nthn (nthl P1 i) (wife i)) (nthl ranked1 i).
Definition pl2_0 (j : nat) : list nat := firstn (S (nthn (nthl P2 j) (husband j))) (nthl ranked2 j).
Definition new_pl1 : list (list nat) := map (fun i => filter (fun j => memn i (pl2_0 j)) (pl1_0 i)) (seq 0 n).
Definition new_pl2 : list (list nat) := map (fun j => filter (fun i => memn j (nthl new_pl1 i)) (pl2_0 j)) (seq 0 n).
End Init.

(* ---------- find_rotations ---------- *)
Section Rot.
Variables (pl1 pl2 : list (list nat)).
Let n := length pl1.
Definition gsucc (i : nat) : option nat :=
  if (length (nthl pl1 i) <=? 1)%nat then None
  else let j := nthn (nthl pl1 i) 1 in
       let i' := last (nthl pl2 j) O in
       if (i =? i')%nat then None else Some i'.
Fixpoint walk (fuel : nat) (cur : nat) (cycle : rot) (vis : list bool) : nat * rot * list bool :=
  match fuel with O => (cur, cycle, vis) | S f =>
    if nth cur vis false then (cur, cycle, vis)
    else let vis := upd vis cur true in
         match gsucc cur with
         | None => (cur, cycle, vis)
         | Some nx => walk f nx (cycle ++ [(cur, nthn (nthl pl1 cur) 0)]) vis
         end
  end.
Definition rot_step (st : list rot * list bool) (start : nat) : list rot * list bool :=
  let '(cycles, vis) := st in
  if nth start vis false then st else
  let '(cur, cycle, vis) := walk (S n) start [] vis in
  match nthl pl1 cur with
  | [] => (cycles, vis)
  | w :: _ => match pindex_of (cur, w) cycle with
              | Some k => (cycles ++ [skipn k cycle], vis)
              | None => (cycles, vis) end
  end.
Definition find_rotations : list rot := fst (fold_left rot_step (seq 0 n) ([], repeat false n)).
End Rot.

(* ---------- find_all_rotations_and_eliminations ---------- *)
Record fstate := { f1 : list (list nat); f2 : list (list nat); dead : list (nat * nat);  (* (woman, man) *)
                   elim : list ((nat * nat) * nat); (* (man, woman) -> rotation *) nrot : nat; allrot : list rot }.
Section All.
Variable pl2_init : list (list nat).
Definition alive (dead : list (nat * nat)) (j i : nat) : bool := memn i (nthl pl2_init j) && negb (memp (j, i) dead).

(* scan a woman's list from the end *)
Fixpoint trunc (revl : list nat) (w mprev cr : nat) (dead : list (nat * nat)) (el : list ((nat * nat) * nat))
  : option (list nat) * list (nat * nat) * list ((nat * nat) * nat) :=
  match revl with
  | [] => (None, dead, el)
  | x :: r => if (x =? mprev)%nat then (Some (rev revl), dead, el)
              else trunc r w mprev cr ((w, x) :: dead) (aset el (x, w) cr)
  end.
Definition elim_one (rt : rot) (cr : nat) (st : fstate) (i : nat) : fstate :=
  let r := length rt in
  let mprev := fst (nth ((i + r - 1) mod r) rt (O, O)) in
  let w := snd (nth i rt (O, O)) in
  let '(res, dead', el') := trunc (rev (nthl (f2 st) w)) w mprev cr (dead st) (elim st) in
  let l2 := match res with Some l => upd (f2 st) w l | None => f2 st end in
  {| f1 := f1 st; f2 := l2; dead := dead'; elim := el'; nrot := nrot st; allrot := allrot st |}.
Definition elim_rot (st : fstate) (rt : rot) : fstate :=
  let cr := nrot st in
  let st' := fold_left (elim_one rt cr) (seq 0 (length rt)) st in
  {| f1 := f1 st'; f2 := f2 st'; dead := dead st'; elim := elim st'; nrot := S cr; allrot := allrot st' |}.
Definition fix_man (dead : list (nat * nat)) (i : nat) (l : list nat) : list nat :=
  match dropwhile (fun j => negb (alive dead j i)) l with
  | [] => []
  | x :: rest => x :: dropwhile (fun j => negb (alive dead j i)) rest
  end.
Fixpoint all_loop (fuel : nat) (st : fstate) : option fstate :=
  match fuel with O => None | S f =>
    let rots := find_rotations (f1 st) (f2 st) in
    match rots with
    | [] => Some st
    | _ =>
      let st := {| f1 := f1 st; f2 := f2 st; dead := dead st; elim := elim st; nrot := nrot st; allrot := allrot st ++ rots |} in
      let st := fold_left elim_rot rots st in
      let l1 := map (fun il => fix_man (dead st) (fst il) (snd il)) (combine (seq 0 (length (f1 st))) (f1 st)) in
      all_loop f {| f1 := l1; f2 := f2 st; dead := dead st; elim := elim st; nrot := nrot st; allrot := allrot st |}
    end
  end.
End All.
Definition find_all (pl1 pl2 : list (list nat)) : option (list rot * list ((nat * nat) * nat)) :=
  let n := length pl1 in
  match all_loop pl2 (n * n + 2) {| f1 := pl1; f2 := pl2; dead := []; elim := []; nrot := 0; allrot := [] |} with
  | Some st => Some (allrot st, elim st) | None => None end.

(* ---------- construct_sparse_rotation_poset_graph ---------- *)
Section Poset.
Variables (rots : list rot) (pl1 : list (list nat)) (el : list ((nat * nat) * nat)).
Definition rop : list ((nat * nat) * nat) :=
  fold_left (fun acc ir => fold_left (fun acc p => aset acc p (fst ir)) (snd ir) acc) (combine (seq 0 (length rots)) rots) [].
Definition addedge (P : list (list nat)) (pi rho : nat) : list (list nat) :=
  if memn rho (nthl P pi) then P else upd P pi (nthl P pi ++ [rho]).
(* inner loop over j' ; returns (P, final j') *)
Fixpoint inner (fuel : nat) (m w : nat) (l : list nat) (j' : nat) (P : list (list nat)) : list (list nat) * nat :=
  match fuel with O => (P, j') | S f =>
    if (length l <=? j')%nat then (P, j') else
    let w' := nthn l j' in
    match aget rop (m, w') with
    | Some rho => match aget rop (m, w) with Some pi => (addedge P pi rho, j') | None => (P, j') end
    | None =>
      match aget el (m, w') with
      | Some pi =>
        match aget rop (m, w) with
        | Some rho =>
          let rt := nth rho rots [] in
          let k := match pindex_of (m, w) rt with Some k => k | None => O end in
          let wnext := snd (nth ((k + 1) mod (length rt)) rt (O, O)) in
          let P := match index_of w' l, index_of wnext l with
                   | Some a, Some b => if (a <? b)%nat then addedge P pi rho else P
                   | _, _ => P end in
          inner f m w l (S j') P
        | None => inner f m w l (S j') P
        end
      | None => inner f m w l (S j') P
      end
    end
  end.
Fixpoint outer (fuel : nat) (m : nat) (l : list nat) (j : nat) (P : list (list nat)) : list (list nat) :=
  match fuel with O => P | S f =>
    if (length l <=? S j)%nat then P else
    let w := nthn l j in
    match aget rop (m, w) with
    | None => outer f m l (S j) P
    | Some _ => let '(P, j') := inner (S (length l)) m w l (S j) P in outer f m l j' P
    end
  end.
Definition poset : list (list nat) :=
  fold_left (fun P ml => outer (S (length (snd ml))) (fst ml) (snd ml) 0 P)
            (combine (seq 0 (length pl1)) pl1) (repeat [] (length rots)).
End Poset.

(* ---------- weights, closed subset, elimination ---------- *)
Local Open Scope Z_scope.
Definition vget (V : list (list Z)) (i j : nat) : Z := nth j (nth i V []) 0.
Definition rot_weight (V1 V2 : list (list Z)) (rt : rot) : Z :=
  let r := length rt in
  - fold_left (fun acc i =>
      let mi := fst (nth i rt (O, O)) in let wi := snd (nth i rt (O, O)) in
      let wn := snd (nth ((i + 1) mod r)%nat rt (O, O)) in
      let mp := fst (nth ((i + r - 1) mod r)%nat rt (O, O)) in
      acc + (vget V1 mi wi - vget V1 mi wn) + (vget V2 wi mi - vget V2 wi mp)) (seq 0 r) 0.

(* find_maximum_weight_closed_subset is Mwcs.mwcs; the set is then used in ascending index order *)
Definition sorted_nat (l : list nat) : list nat := map Z.to_nat (sortZ (map Z.of_nat l)).

Definition elim_apply_one (rt : rot) (cur : option (list (nat * nat))) (i : nat) : option (list (nat * nat)) :=
  match cur with None => None | Some M =>
    let pr := nth i rt (O, O) in
    match pindex_of pr M with
    | None => None
    | Some k => Some (upd M k (fst pr, snd (nth ((i + 1) mod (length rt))%nat rt (O, O))))
    end end.
Definition eliminate (M : list (nat * nat)) (rts : list rot) : option (list (nat * nat)) :=
  fold_left (fun cur rt => fold_left (elim_apply_one rt) (seq 0 (length rt)) cur) rts (Some M).

(* ---------- whole pipeline ---------- *)
Record trace := { t_M0 : list (nat * nat); t_pl1 : list (list nat); t_pl2 : list (list nat);
                  t_rots : list rot; t_elim : list ((nat * nat) * nat); t_P : list (list nat);
                  t_ws : list Z; t_S : list nat; t_out : option (list (nat * nat)) }.
Definition irving (P1 P2 : list (list nat)) (V1 V2 : list (list Z)) (ffuel : nat) : option trace :=
  let n := length P1 in
  let tok (P : list (list nat)) : list (list okey) := map (map Some) P in
  match gs_res_run (tok P1) (tok P2) (fun _ => 1%nat) (n * n + 2) with
  | None => None
  | Some M0 =>
    let l1 := new_pl1 P1 P2 M0 in
    let l2 := new_pl2 P1 P2 M0 in
    match find_all l1 l2 with
    | None => None
    | Some (rots, el) =>
      let P := poset rots l1 el in
      let ws := map (rot_weight V1 V2) rots in
      match mwcs ffuel P ws with
      | None => None
      | Some cs0 =>
        let cs := sorted_nat cs0 in
        Some {| t_M0 := M0; t_pl1 := l1; t_pl2 := l2; t_rots := rots; t_elim := el; t_P := P; t_ws := ws;
                t_S := cs; t_out := eliminate M0 (map (fun i => nth i rots []) cs) |}
      end
    end
  end.

(* ---------- comparison with the observed stages ---------- *)
Definition lnat_eqb (a b : list nat) : bool := (length a =? length b)%nat && forallb (fun p => (fst p =? snd p)%nat) (combine a b).
Definition llnat_eqb (a b : list (list nat)) : bool := (length a =? length b)%nat && forallb (fun p => lnat_eqb (fst p) (snd p)) (combine a b).
Definition lp_eqb (a b : list (nat * nat)) : bool := (length a =? length b)%nat && forallb (fun p => peq (fst p) (snd p)) (combine a b).
Definition llp_eqb (a b : list rot) : bool := (length a =? length b)%nat && forallb (fun p => lp_eqb (fst p) (snd p)) (combine a b).
Definition lz_eqb (a b : list Z) : bool := (length a =? length b)%nat && forallb (fun p => (fst p =? snd p)%Z) (combine a b).
Definition elim_sub (a b : list ((nat * nat) * nat)) : bool :=
  forallb (fun kv => match aget b (fst kv) with Some v => (v =? snd kv)%nat | None => false end) a.
Record expect := { e_M0 : list (nat * nat); e_pl1 : list (list nat); e_pl2 : list (list nat);
                   e_rots : list rot; e_elim : list ((nat * nat) * nat); e_P : list (list nat);
                   e_ws : list Z; e_S : list nat; e_out : list (nat * nat) }.
Definition icheck_t (t : trace) (e : expect) : nat :=
    if negb (lp_eqb (t_M0 t) (e_M0 e)) then 2%nat
    else if negb (llnat_eqb (t_pl1 t) (e_pl1 e) && llnat_eqb (t_pl2 t) (e_pl2 e)) then 3%nat
    else if negb (llp_eqb (t_rots t) (e_rots e)) then 4%nat
    else if negb (elim_sub (t_elim t) (e_elim e) && elim_sub (e_elim e) (t_elim t)) then 5%nat
    else if negb (llnat_eqb (t_P t) (e_P e)) then 6%nat
    else if negb (lz_eqb (t_ws t) (e_ws e)) then 7%nat
    else if negb (lnat_eqb (t_S t) (e_S e)) then 8%nat
    else match t_out t with Some o => if lp_eqb o (e_out e) then 0%nat else 9%nat | None => 10%nat end.
Definition icheck (c : list (list nat) * list (list nat) * list (list Z) * list (list Z) * nat * expect) : nat :=
  let '(P1, P2, V1, V2, ff, e) := c in
  match irving P1 P2 V1 V2 ff with
  | None => 1%nat
  | Some t => icheck_t t e
  end.
Fixpoint imism (i : nat) (cs : list _) : list (nat * nat) :=
  match cs with [] => [] | c :: r => match icheck c with O => imism (S i) r | k => (i, k) :: imism (S i) r end end.
