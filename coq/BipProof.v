From Coq Require Import ZArith List Bool Lia.
Import ListNotations.
Require Import FlowModel FlowProof FlowInit BipModel.
Local Open Scope Z_scope.

(* ---------- lookups in the unit network ---------- *)
Lemma lookup_app_l G1 G2 k : In k (keys G1) -> lookup (G1 ++ G2) k = lookup G1 k.
Proof.
  induction G1 as [|[k' a] r IH]; simpl; [tauto|]. intros H. destruct (k' =? k) eqn:E; [reflexivity|].
  apply IH. destruct H as [H|H]; [apply Z.eqb_neq in E; congruence|exact H].
Qed.
Lemma lookup_app_r G1 G2 k : ~ In k (keys G1) -> lookup (G1 ++ G2) k = lookup G2 k.
Proof.
  induction G1 as [|[k' a] r IH]; simpl; [reflexivity|]. intros H. destruct (k' =? k) eqn:E.
  - apply Z.eqb_eq in E. subst. tauto. - apply IH. tauto.
Qed.
Lemma lookup_mapf (f : Z -> adjl) L k : In k L -> lookup (map (fun x => (x, f x)) L) k = f k.
Proof.
  induction L as [|x t IH]; simpl; [tauto|]. intros H. destruct (x =? k) eqn:E; [apply Z.eqb_eq in E; subst; reflexivity|].
  apply IH. destruct H as [H|H]; [apply Z.eqb_neq in E; congruence|exact H].
Qed.
Lemma keys_mapf (f : Z -> adjl) L : keys (map (fun x => (x, f x)) L) = L.
Proof. unfold keys. rewrite map_map. simpl. apply map_id. Qed.
Lemma lookup_notin G k : ~ In k (keys G) -> lookup G k = [].
Proof. induction G as [|[k' a] r IH]; simpl; [reflexivity|]. intros H. destruct (k' =? k) eqn:E; [apply Z.eqb_eq in E; subst; tauto|apply IH; tauto]. Qed.

Lemma lookup_cons k a r u : lookup ((k, a) :: r) u = if k =? u then a else lookup r u.
Proof. reflexivity. Qed.

Lemma nodup_app {A} (a b : list A) : NoDup a -> NoDup b -> (forall x, In x a -> ~ In x b) -> NoDup (a ++ b).
Proof.
  induction 1 as [|x t Hx Hn IH]; intros Hb Hd; simpl; [exact Hb|].
  constructor; [rewrite in_app_iff; intros [H|H]; [contradiction|exact (Hd x (or_introl eq_refl) H)]|].
  apply IH; [exact Hb|intros y Hy; apply Hd; now right].
Qed.

(* ---------- first maximum ---------- *)
Lemma argmax_from_spec l : forall i best bi, let r := argmax_from l i best bi in
  (r = bi /\ forall v, In v l -> v <= best) \/
  ((i <= r < i + length l)%nat /\ best < nth (r - i) l 0 /\ forall v, In v l -> v <= nth (r - i) l 0).
Proof.
  induction l as [|x t IH]; intros i best bi; simpl; [left; split; [reflexivity|intros v []]|].
  destruct (x >? best) eqn:E.
  - apply Z.gtb_lt in E. destruct (IH (S i) x i) as [[Hr Hall]|[Hr [Hgt Hall]]].
    + right. rewrite Hr. replace (i - i)%nat with 0%nat by lia. simpl. split; [lia|]. split; [exact E|]. intros v [<-|Hv]; [lia|apply Hall; exact Hv].
    + right. set (r := argmax_from t (S i) x i) in *. split; [lia|].
      replace (r - i)%nat with (S (r - S i)) by lia. simpl. split; [lia|]. intros v [<-|Hv]; [lia|apply Hall; exact Hv].
  - assert (Hle : x <= best) by (destruct (Z.gtb_spec x best); [discriminate|lia]).
    destruct (IH (S i) best bi) as [[Hr Hall]|[Hr [Hgt Hall]]].
    + left. split; [exact Hr|]. intros v [<-|Hv]; [exact Hle|apply Hall; exact Hv].
    + right. set (r := argmax_from t (S i) best bi) in *. split; [lia|].
      replace (r - i)%nat with (S (r - S i)) by lia. simpl. split; [exact Hgt|]. intros v [<-|Hv]; [lia|apply Hall; exact Hv].
Qed.
Lemma argmax_first_spec l : l <> [] -> (argmax_first l < length l)%nat /\ forall v, In v l -> v <= nth (argmax_first l) l 0.
Proof.
  destruct l as [|x t]; [congruence|]. intros _. unfold argmax_first.
  destruct (argmax_from_spec t 1 x 0) as [[Hr Hall]|[Hr [Hgt Hall]]].
  - rewrite Hr. simpl. split; [lia|]. intros v [<-|Hv]; [lia|apply Hall; exact Hv].
  - set (r := argmax_from t 1 x 0) in *. simpl length. split; [lia|].
    replace r with (S (r - 1)) by lia. simpl nth. replace (S (r - 1) - 1)%nat with (r - 1)%nat by lia.
    intros v [<-|Hv]; [lia|apply Hall; exact Hv].
Qed.

Lemma nodup_map_transfer {A B C} (f : A -> B) (g : A -> C) (l : list A) :
  NoDup (map f l) -> (forall a b, In a l -> In b l -> g a = g b -> f a = f b) -> NoDup (map g l).
Proof.
  induction l as [|x t IH]; simpl; intros Hnd Hinj; [constructor|]. inversion Hnd; subst.
  constructor.
  - intros Hin. apply in_map_iff in Hin. destruct Hin as [y [Hy Hyt]]. apply H1.
    rewrite <- (Hinj y x (or_intror Hyt) (or_introl eq_refl) Hy). apply in_map. exact Hyt.
  - apply IH; [exact H2|]. intros a b Ha Hb. apply Hinj; now right.
Qed.
Lemma sumZ_two f l a b : NoDup l -> (forall x, In x l -> 0 <= f x) -> In a l -> In b l -> a <> b -> f a = 1 -> f b = 1 -> 2 <= sumZ f l.
Proof.
  intros Hnd Hnn Ha Hb Hne Fa Fb.
  assert (Hge : forall t, (forall x, In x t -> 0 <= f x) -> 0 <= sumZ f t).
  { induction t as [|y u IHu]; simpl; intros H; [lia|]. pose proof (H y (or_introl eq_refl)). assert (0 <= sumZ f u) by (apply IHu; intros; apply H; now right). lia. }
  assert (Hone : forall t c, (forall x, In x t -> 0 <= f x) -> In c t -> f c = 1 -> 1 <= sumZ f t).
  { induction t as [|y u IHu]; intros c H Hc Fc; [destruct Hc|]. simpl. destruct Hc as [->|Hc].
    - assert (0 <= sumZ f u) by (apply Hge; intros; apply H; now right). lia.
    - pose proof (H y (or_introl eq_refl)). assert (1 <= sumZ f u) by (apply (IHu c); [intros; apply H; now right|exact Hc|exact Fc]). lia. }
  induction Hnd as [|y t Hy Hndt IH]; [destruct Ha|]. simpl.
  destruct Ha as [->|Ha], Hb as [->|Hb]; try congruence.
  - assert (1 <= sumZ f t) by (apply (Hone t b); [intros; apply Hnn; now right|exact Hb|exact Fb]). lia.
  - assert (1 <= sumZ f t) by (apply (Hone t a); [intros; apply Hnn; now right|exact Ha|exact Fa]). lia.
  - pose proof (Hnn y (or_introl eq_refl)). assert (2 <= sumZ f t) by (apply IH; [intros; apply Hnn; now right|exact Ha|exact Hb]). lia.
Qed.

Section Bip.
Variables (G : bgraph) (X Y : list Z).
Hypothesis HX : NoDup X.
Hypothesis HY : NoDup Y.
Hypothesis Hdisj : forall x, In x X -> ~ In x Y.
Hypothesis Hs1 : ~ In (-1) X /\ ~ In (-1) Y.
Hypothesis Hs2 : ~ In (-2) X /\ ~ In (-2) Y.
Hypothesis Hadj : forall x, In x X -> NoDup (adj G x) /\ incl (adj G x) Y.
Let N := net G X Y.

Lemma keys_N : keys N = X ++ [-1; -2] ++ Y.
Proof. unfold N, net, keys. rewrite !map_app, !map_map. simpl. rewrite !map_id. reflexivity. Qed.
Lemma look_X x : In x X -> lookup N x = map (fun y => (y, 1)) (adj G x).
Proof.
  intros H. unfold N, net. rewrite lookup_app_l by (rewrite keys_mapf; exact H).
  apply (lookup_mapf (fun x => map (fun y => (y, 1)) (adj G x))). exact H.
Qed.
Lemma look_s : lookup N (-1) = map (fun x => (x, 1)) X.
Proof. unfold N, net. rewrite lookup_app_r by (rewrite keys_mapf; apply Hs1). cbn [app]. rewrite lookup_cons. rewrite Z.eqb_refl. reflexivity. Qed.
Lemma look_t : lookup N (-2) = [].
Proof. unfold N, net. rewrite lookup_app_r by (rewrite keys_mapf; apply Hs2). cbn [app]. rewrite !lookup_cons. change (-1 =? -2) with false. rewrite Z.eqb_refl. reflexivity. Qed.
Lemma look_Y y : In y Y -> lookup N y = [(-2, 1)].
Proof.
  intros H. unfold N, net. rewrite lookup_app_r by (rewrite keys_mapf; intros Hx; exact (Hdisj y Hx H)).
  cbn [app]. rewrite !lookup_cons.
  assert (E1 : (-1 =? y) = false) by (apply Z.eqb_neq; intros <-; apply Hs1; exact H).
  assert (E2 : (-2 =? y) = false) by (apply Z.eqb_neq; intros <-; apply Hs2; exact H). rewrite E1, E2.
  apply (lookup_mapf (fun _ => [(-2, 1)])). exact H.
Qed.
Lemma in_keys_N k : In k (keys N) <-> In k X \/ k = -1 \/ k = -2 \/ In k Y.
Proof. rewrite keys_N, !in_app_iff. simpl. intuition. Qed.

Lemma aget_map1 l y : aget (map (fun z => (z, 1)) l) y = if in_dec Z.eq_dec y l then 1 else 0.
Proof.
  induction l as [|z t IH]; simpl; [reflexivity|]. destruct (z =? y) eqn:E.
  - apply Z.eqb_eq in E. subst. destruct (Z.eq_dec y y); [reflexivity|congruence].
  - apply Z.eqb_neq in E. rewrite IH. destruct (Z.eq_dec z y); [congruence|]. destruct (in_dec Z.eq_dec y t); reflexivity.
Qed.

Lemma cf_X x z : In x X -> cf N x z = if in_dec Z.eq_dec z (adj G x) then 1 else 0.
Proof. intros H. unfold cf. rewrite look_X by exact H. apply aget_map1. Qed.
Lemma cf_s z : cf N (-1) z = if in_dec Z.eq_dec z X then 1 else 0.
Proof. unfold cf. rewrite look_s. apply aget_map1. Qed.
Lemma cf_t z : cf N (-2) z = 0.
Proof. unfold cf. rewrite look_t. reflexivity. Qed.
Lemma cf_Y y z : In y Y -> cf N y z = if z =? -2 then 1 else 0.
Proof. intros H. unfold cf. rewrite look_Y by exact H. simpl. rewrite Z.eqb_sym. reflexivity. Qed.


Lemma targets_cases u :
  targets N u = if in_dec Z.eq_dec u X then adj G u else if Z.eq_dec u (-1) then X else if Z.eq_dec u (-2) then []
                else if in_dec Z.eq_dec u Y then [-2] else [].
Proof.
  unfold targets. destruct (in_dec Z.eq_dec u X) as [Hx|Hx].
  - rewrite look_X by exact Hx. rewrite map_map. simpl. apply map_id.
  - destruct (Z.eq_dec u (-1)) as [->|H1]; [rewrite look_s, map_map; simpl; apply map_id|].
    destruct (Z.eq_dec u (-2)) as [->|H2]; [rewrite look_t; reflexivity|].
    destruct (in_dec Z.eq_dec u Y) as [Hy|Hy]; [rewrite look_Y by exact Hy; reflexivity|].
    rewrite lookup_notin; [reflexivity|]. rewrite in_keys_N. tauto.
Qed.

Lemma N_wf : wf_in N.
Proof.
  split; [|split; [|split]].
  - rewrite keys_N. apply nodup_app; [exact HX| |].
    + apply nodup_app; [constructor; [simpl; intros [H|[]]; discriminate|constructor; [intros []|constructor]]|exact HY|].
      intros x [<-|[<-|[]]]; [apply Hs1|apply Hs2].
    + intros x Hx. rewrite in_app_iff. simpl. intros [[<-|[<-|[]]]|Hy]; [apply (proj1 Hs1); exact Hx|apply (proj1 Hs2); exact Hx|exact (Hdisj x Hx Hy)].
  - intros u. rewrite targets_cases. destruct (in_dec Z.eq_dec u X) as [Hx|Hx]; [apply Hadj; exact Hx|].
    destruct (Z.eq_dec u (-1)); [exact HX|]. destruct (Z.eq_dec u (-2)); [constructor|].
    destruct (in_dec Z.eq_dec u Y); [constructor; [intros []|constructor]|constructor].
  - intros u v. rewrite targets_cases, in_keys_N. destruct (in_dec Z.eq_dec u X) as [Hx|Hx].
    + intros Hv. destruct (Hadj u Hx) as [_ Hinc]. pose proof (Hinc v Hv) as HvY. split; [tauto|]. intros ->. exact (Hdisj u Hx HvY).
    + destruct (Z.eq_dec u (-1)) as [->|H1]; [intros Hv; split; [tauto|intros ->; apply (proj1 Hs1); exact Hv]|].
      destruct (Z.eq_dec u (-2)) as [->|H2]; [intros []|].
      destruct (in_dec Z.eq_dec u Y) as [Hy|Hy]; [intros [<-|[]]; split; [tauto|congruence]|intros []].
  - intros u v. destruct (in_dec Z.eq_dec u X) as [Hx|Hx]; [rewrite cf_X by exact Hx; destruct (in_dec Z.eq_dec v (adj G u)); lia|].
    destruct (Z.eq_dec u (-1)) as [->|H1]; [rewrite cf_s; destruct (in_dec Z.eq_dec v X); lia|].
    destruct (Z.eq_dec u (-2)) as [->|H2]; [rewrite cf_t; lia|].
    destruct (in_dec Z.eq_dec u Y) as [Hy|Hy]; [rewrite cf_Y by exact Hy; destruct (v =? -2); lia|].
    unfold cf. rewrite lookup_notin; [simpl; lia|]. rewrite in_keys_N. tauto.
Qed.

(* ---------- sums over sublists ---------- *)
Lemma sumZ_app f a b : sumZ f (a ++ b) = sumZ f a + sumZ f b.
Proof. induction a as [|x t IH]; simpl; [lia|]. rewrite IH. lia. Qed.
Lemma sumZ_all_zero f l : (forall x, In x l -> f x = 0) -> sumZ f l = 0.
Proof. intros H. rewrite (sumZ_ext f (fun _ => 0) l H). apply sumZ_zero. Qed.
Lemma sumZ_ind2 (f : Z -> Z) a l : NoDup l -> sumZ (fun z => if z =? a then f a else 0) l = if in_dec Z.eq_dec a l then f a else 0.
Proof. intros H. apply (sumZ_ind a (f a) l H). Qed.
Lemma sumZ_subset f A B : NoDup A -> NoDup B -> incl A B -> (forall z, In z B -> ~ In z A -> f z = 0) -> sumZ f B = sumZ f A.
Proof.
  intros HA HB Hinc Hz.
  assert (E1 : sumZ f A = sumZ (fun a => sumZ (fun z => if z =? a then f a else 0) B) A).
  { apply sumZ_ext. intros a Ha. rewrite (sumZ_ind2 f a B HB). destruct (in_dec Z.eq_dec a B) as [_|Hn]; [reflexivity|exfalso; apply Hn, Hinc, Ha]. }
  rewrite E1. rewrite (sumZ_swap (fun a z => if z =? a then f a else 0) A B).
  apply sumZ_ext. intros z Hzb.
  rewrite (sumZ_ext (fun u => if z =? u then f u else 0) (fun u => if u =? z then f z else 0) A).
  - rewrite (sumZ_ind2 f z A HA). destruct (in_dec Z.eq_dec z A) as [_|Hn]; [reflexivity|apply Hz; assumption].
  - intros u _. rewrite (Z.eqb_sym z u). destruct (u =? z) eqn:E; [apply Z.eqb_eq in E; subst; reflexivity|reflexivity].
Qed.

(* ---------- any feasible flow on the unit network ---------- *)
Section FlowFacts.
Variable phi : Z -> Z -> Z.
Hypothesis Pskew : forall a b, phi a b = - phi b a.
Hypothesis Pcap : forall a b, phi a b <= cf N a b.
Hypothesis Pcons : forall a, In a (keys N) -> a <> -1 -> a <> -2 -> sumZ (phi a) (keys N) = 0.

Lemma zero_off a b : cf N a b = 0 -> cf N b a = 0 -> phi a b = 0.
Proof. intros H1 H2. pose proof (Pcap a b). pose proof (Pcap b a). rewrite (Pskew b a) in H0. lia. Qed.
Lemma notin_adj_X x z : In x X -> In z X -> ~ In z (adj G x).
Proof. intros Hx Hz Hin. destruct (Hadj x Hx) as [_ Hinc]. exact (Hdisj z Hz (Hinc z Hin)). Qed.

Lemma phi_XX x z : In x X -> In z X -> phi x z = 0.
Proof.
  intros Hx Hz. apply zero_off.
  - rewrite cf_X by exact Hx. destruct (in_dec Z.eq_dec z (adj G x)) as [H|_]; [exfalso; exact (notin_adj_X x z Hx Hz H)|reflexivity].
  - rewrite cf_X by exact Hz. destruct (in_dec Z.eq_dec x (adj G z)) as [H|_]; [exfalso; exact (notin_adj_X z x Hz Hx H)|reflexivity].
Qed.
Lemma phi_Xt x : In x X -> phi x (-2) = 0.
Proof.
  intros Hx. apply zero_off; [|apply cf_t].
  rewrite cf_X by exact Hx. destruct (in_dec Z.eq_dec (-2) (adj G x)) as [H|_]; [|reflexivity].
  exfalso. destruct (Hadj x Hx) as [_ Hinc]. apply (proj2 Hs2). exact (Hinc _ H).
Qed.
Lemma phi_XY_off x y : In x X -> In y Y -> ~ In y (adj G x) -> phi x y = 0.
Proof.
  intros Hx Hy Hn. apply zero_off.
  - rewrite cf_X by exact Hx. destruct (in_dec Z.eq_dec y (adj G x)); [contradiction|reflexivity].
  - rewrite cf_Y by exact Hy. destruct (x =? -2) eqn:E; [apply Z.eqb_eq in E; subst; exfalso; exact (proj1 Hs2 Hx)|reflexivity].
Qed.
Lemma phi_XY_bounds x y : In x X -> In y (adj G x) -> 0 <= phi x y <= 1.
Proof.
  intros Hx Hy. destruct (Hadj x Hx) as [_ Hinc]. pose proof (Hinc y Hy) as HyY. split.
  - pose proof (Pcap y x). rewrite cf_Y in H by exact HyY.
    destruct (x =? -2) eqn:E; [apply Z.eqb_eq in E; subst; exfalso; exact (proj1 Hs2 Hx)|]. rewrite (Pskew y x) in H. lia.
  - pose proof (Pcap x y). rewrite cf_X in H by exact Hx. destruct (in_dec Z.eq_dec y (adj G x)); [lia|contradiction].
Qed.
Lemma phi_sX_bounds x : In x X -> 0 <= phi (-1) x <= 1.
Proof.
  intros Hx. split.
  - pose proof (Pcap x (-1)). rewrite cf_X in H by exact Hx.
    destruct (in_dec Z.eq_dec (-1) (adj G x)) as [Hin|_].
    + exfalso. destruct (Hadj x Hx) as [_ Hinc]. exact (proj2 Hs1 (Hinc _ Hin)).
    + rewrite (Pskew x (-1)) in H. lia.
  - pose proof (Pcap (-1) x). rewrite cf_s in H. destruct (in_dec Z.eq_dec x X); [lia|contradiction].
Qed.

(* conservation at a left vertex: what leaves x towards its neighbours is what it receives from the source *)
Lemma out_of_x x : In x X -> sumZ (phi x) (adj G x) = phi (-1) x.
Proof.
  intros Hx. pose proof (Pcons x) as Hc. rewrite in_keys_N in Hc.
  assert (Hx1 : x <> -1) by (intros ->; exact (proj1 Hs1 Hx)).
  assert (Hx2 : x <> -2) by (intros ->; exact (proj1 Hs2 Hx)).
  specialize (Hc (or_introl Hx) Hx1 Hx2). rewrite keys_N, !sumZ_app in Hc. simpl sumZ in Hc.
  rewrite (sumZ_all_zero (phi x) X) in Hc by (intros z Hz; apply phi_XX; assumption).
  rewrite (phi_Xt x Hx) in Hc.
  destruct (Hadj x Hx) as [Hnd Hinc].
  rewrite (sumZ_subset (phi x) (adj G x) Y Hnd HY Hinc) in Hc by (intros z Hz Hn; apply phi_XY_off; assumption).
  rewrite (Pskew x (-1)) in Hc. lia.
Qed.

Lemma phi_Ys y : In y Y -> phi y (-1) = 0.
Proof.
  intros Hy. apply zero_off; [rewrite cf_Y by exact Hy; reflexivity|].
  rewrite cf_s. destruct (in_dec Z.eq_dec y X) as [H|_]; [exfalso; exact (Hdisj y H Hy)|reflexivity].
Qed.
Lemma phi_YY y z : In y Y -> In z Y -> phi y z = 0.
Proof.
  intros Hy Hz. apply zero_off.
  - rewrite cf_Y by exact Hy. destruct (z =? -2) eqn:E; [apply Z.eqb_eq in E; subst; exfalso; exact (proj2 Hs2 Hz)|reflexivity].
  - rewrite cf_Y by exact Hz. destruct (y =? -2) eqn:E; [apply Z.eqb_eq in E; subst; exfalso; exact (proj2 Hs2 Hy)|reflexivity].
Qed.
Lemma into_y y : In y Y -> sumZ (fun x => phi x y) X = phi y (-2).
Proof.
  intros Hy. pose proof (Pcons y) as Hc. rewrite in_keys_N in Hc.
  assert (Hy1 : y <> -1) by (intros ->; exact (proj2 Hs1 Hy)).
  assert (Hy2 : y <> -2) by (intros ->; exact (proj2 Hs2 Hy)).
  specialize (Hc (or_intror (or_intror (or_intror Hy))) Hy1 Hy2). rewrite keys_N, !sumZ_app in Hc. simpl sumZ in Hc.
  rewrite (phi_Ys y Hy) in Hc.
  rewrite (sumZ_all_zero (phi y) Y) in Hc by (intros z Hz; apply phi_YY; assumption).
  rewrite (sumZ_ext (phi y) (fun x => - phi x y) X) in Hc by (intros x _; apply Pskew).
  rewrite sumZ_opp in Hc. lia.
Qed.
Lemma phi_Yt_bound y : In y Y -> phi y (-2) <= 1.
Proof. intros Hy. pose proof (Pcap y (-2)). rewrite cf_Y in H by exact Hy. simpl in H. exact H. Qed.


(* ---------- reading the matching off the flow ---------- *)
Definition pickP (x : Z) (l : list Z) : list (Z * Z) :=
  match l with [] => [] | _ => let y := nth (argmax_first (map (phi x) l)) l 0 in if phi x y =? 1 then [(x, y)] else [] end.
Definition readP : list (Z * Z) := flat_map (fun x => pickP x (adj G x)) X.

Lemma sum01 f l : (forall y, In y l -> 0 <= f y <= 1) -> sumZ f l <= 1 -> NoDup l ->
  (sumZ f l = 1 <-> exists y, In y l /\ f y = 1) /\ (sumZ f l = 0 \/ sumZ f l = 1).
Proof.
  induction l as [|a t IH]; intros Hb Hs Hnd; simpl in *.
  - split; [split; [lia|intros [y [[] _]]]|now left].
  - inversion Hnd; subst. pose proof (Hb a (or_introl eq_refl)) as Ha.
    assert (Hbt : forall y, In y t -> 0 <= f y <= 1) by (intros; apply Hb; now right).
    assert (Ht0 : 0 <= sumZ f t).
    { clear -Hbt. induction t as [|b u IHu]; simpl; [lia|]. pose proof (Hbt b (or_introl eq_refl)). assert (0 <= sumZ f u) by (apply IHu; intros; apply Hbt; now right). lia. }
    destruct (IH Hbt ltac:(lia) H2) as [Hiff Hcases]. split.
    + split.
      * intros Hsum. destruct (Z.eq_dec (f a) 1) as [E|E]; [exists a; split; [now left|exact E]|].
        assert (sumZ f t = 1) by lia. apply Hiff in H. destruct H as [y [Hy Hfy]]. exists y. split; [now right|exact Hfy].
      * intros [y [[<-|Hy] Hfy]]; [lia|]. assert (sumZ f t = 1) by (apply Hiff; exists y; auto). lia.
    + lia.
Qed.

Lemma pickP_spec x : In x X ->
  (forall p, In p (pickP x (adj G x)) -> fst p = x /\ In (snd p) (adj G x) /\ phi x (snd p) = 1) /\
  Z.of_nat (length (pickP x (adj G x))) = sumZ (phi x) (adj G x).
Proof.
  intros Hx. destruct (Hadj x Hx) as [Hnd Hinc].
  assert (Hb : forall y, In y (adj G x) -> 0 <= phi x y <= 1) by (intros; apply phi_XY_bounds; assumption).
  assert (Hs : sumZ (phi x) (adj G x) <= 1) by (rewrite out_of_x by exact Hx; apply phi_sX_bounds; exact Hx).
  destruct (sum01 (phi x) (adj G x) Hb Hs Hnd) as [Hiff Hcases].
  unfold pickP. destruct (adj G x) as [|y0 l0] eqn:El; [split; [intros p []|reflexivity]|].
  set (l := y0 :: l0) in *.
  assert (Hne : map (phi x) l <> []) by (unfold l; simpl; discriminate).
  destruct (argmax_first_spec (map (phi x) l) Hne) as [Hidx Hmax]. rewrite map_length in Hidx.
  set (r := argmax_first (map (phi x) l)) in *.
  assert (Hy : In (nth r l 0) l) by (apply nth_In; exact Hidx).
  assert (Hval : nth r (map (phi x) l) 0 = phi x (nth r l 0)).
  { rewrite (nth_indep _ 0 (phi x 0)) by (rewrite map_length; exact Hidx). apply map_nth. }
  destruct (phi x (nth r l 0) =? 1) eqn:E1.
  - apply Z.eqb_eq in E1. split.
    + intros p [<-|[]]. simpl. auto.
    + change (1 = sumZ (phi x) l). destruct Hcases as [H0|H1]; [|lia]. exfalso.
      assert (sumZ (phi x) l = 1) by (apply Hiff; exists (nth r l 0); auto). lia.
  - apply Z.eqb_neq in E1. split; [intros p []|]. change (0 = sumZ (phi x) l).
    destruct Hcases as [H0|H1]; [lia|]. exfalso. apply Hiff in H1. destruct H1 as [y [Hyl Hfy]].
    assert (phi x y <= nth r (map (phi x) l) 0) by (apply Hmax; apply in_map; exact Hyl).
    rewrite Hval in H. pose proof (Hb _ Hy). lia.
Qed.

Lemma phi_XY_nonneg x y : In x X -> In y Y -> 0 <= phi x y.
Proof.
  intros Hx Hy. destruct (in_dec Z.eq_dec y (adj G x)) as [Hin|Hn]; [apply phi_XY_bounds; assumption|].
  rewrite (phi_XY_off x y Hx Hy Hn). lia.
Qed.

Lemma readP_in p : In p readP -> In (fst p) X /\ In (snd p) (adj G (fst p)) /\ phi (fst p) (snd p) = 1.
Proof.
  unfold readP. rewrite in_flat_map. intros [x [Hx Hp]]. destruct (pickP_spec x Hx) as [Hs _].
  destruct (Hs p Hp) as [E [Hy Hf]]. rewrite E. auto.
Qed.
Lemma pickP_len x : In x X -> (length (pickP x (adj G x)) <= 1)%nat.
Proof.
  intros Hx. unfold pickP. destruct (adj G x); [simpl; lia|]. destruct (phi x _ =? 1); simpl; lia.
Qed.
Lemma readP_fst_nodup : NoDup (map fst readP).
Proof.
  unfold readP. assert (H : forall L, NoDup L -> incl L X -> NoDup (map fst (flat_map (fun x => pickP x (adj G x)) L))).
  { induction 1 as [|x t Hx Hnd IH]; intros Hinc; simpl; [constructor|].
    assert (HxX : In x X) by (apply Hinc; now left).
    rewrite map_app. apply nodup_app.
    - pose proof (pickP_len x HxX). destruct (pickP x (adj G x)) as [|p [|q r]]; simpl in *; [constructor|constructor; [intros []|constructor]|lia].
    - apply IH. intros y Hy. apply Hinc. now right.
    - intros a Ha Hb. apply in_map_iff in Ha. destruct Ha as [p [<- Hp]].
      destruct (pickP_spec x HxX) as [Hs _]. destruct (Hs p Hp) as [E _].
      apply in_map_iff in Hb. destruct Hb as [q [Eq Hq]]. apply in_flat_map in Hq. destruct Hq as [x' [Hx' Hq]].
      assert (Hx'X : In x' X) by (apply Hinc; now right).
      destruct (pickP_spec x' Hx'X) as [Hs' _]. destruct (Hs' q Hq) as [E' _]. apply Hx. congruence. }
  apply H; [exact HX|apply incl_refl].
Qed.
Lemma readP_snd_nodup : NoDup (map snd readP).
Proof.
  apply (nodup_map_transfer fst snd readP readP_fst_nodup).
  intros p q Hp Hq Hs. destruct (Z.eq_dec (fst p) (fst q)) as [E|Hne]; [exact E|exfalso].
  destruct (readP_in p Hp) as [Hpx [Hpy Hpf]]. destruct (readP_in q Hq) as [Hqx [Hqy Hqf]].
  destruct (Hadj (fst p) Hpx) as [_ Hinc]. pose proof (Hinc _ Hpy) as HyY.
  rewrite <- Hs in Hqf.
  pose proof (sumZ_two (fun x => phi x (snd p)) X (fst p) (fst q) HX (fun x Hx => phi_XY_nonneg x (snd p) Hx HyY) Hpx Hqx Hne Hpf Hqf) as H2.
  rewrite (into_y (snd p) HyY) in H2. pose proof (phi_Yt_bound (snd p) HyY). lia.
Qed.
Lemma readP_len : Z.of_nat (length readP) = sumZ (phi (-1)) X.
Proof.
  unfold readP. assert (H : forall L, incl L X -> Z.of_nat (length (flat_map (fun x => pickP x (adj G x)) L)) = sumZ (phi (-1)) L).
  { induction L as [|x t IH]; intros Hinc; simpl; [reflexivity|]. rewrite app_length, Nat2Z.inj_add.
    assert (HxX : In x X) by (apply Hinc; now left).
    destruct (pickP_spec x HxX) as [_ Hl]. rewrite Hl, (out_of_x x HxX), IH; [reflexivity|]. intros y Hy. apply Hinc. now right. }
  apply H, incl_refl.
Qed.
Lemma value_is_sX : sumZ (phi (-1)) (keys N) = sumZ (phi (-1)) X.
Proof.
  rewrite keys_N, !sumZ_app. simpl sumZ.
  assert (E1 : phi (-1) (-1) = 0) by (pose proof (Pskew (-1) (-1)); lia).
  assert (E2 : phi (-1) (-2) = 0).
  { apply zero_off; [rewrite cf_s; destruct (in_dec Z.eq_dec (-2) X) as [H|_]; [exfalso; exact (proj1 Hs2 H)|reflexivity]|apply cf_t]. }
  assert (E3 : sumZ (phi (-1)) Y = 0).
  { apply sumZ_all_zero. intros y Hy. rewrite Pskew, (phi_Ys y Hy). lia. }
  lia.
Qed.
End FlowFacts.

(* ---------- every matching induces a feasible flow of the same value ---------- *)
Section FromMatching.
Variable M' : list (Z * Z).
Hypothesis Medges : forall p, In p M' -> In (fst p) X /\ In (snd p) (adj G (fst p)).
Hypothesis Mfst : NoDup (map fst M').
Hypothesis Msnd : NoDup (map snd M').
Let F := map fst M'.
Let S := map snd M'.
Definition memp (p : Z * Z) (l : list (Z * Z)) : bool := existsb (pair_eqb p) l.
Lemma memp_In p l : memp p l = true <-> In p l.
Proof.
  unfold memp. rewrite existsb_exists. split.
  - intros [q [Hq E]]. apply pair_eqb_eq in E. subst. exact Hq.
  - intros H. exists p. split; [exact H|apply pair_eqb_eq; reflexivity].
Qed.
Definition ind (b : bool) : Z := if b then 1 else 0.
Definition e1 (a b : Z) : Z := ind (memp (a, b) M').
Definition e2 (a b : Z) : Z := ind ((a =? -1) && memZ b F).
Definition e3 (a b : Z) : Z := ind ((b =? -2) && memZ a S).
Definition ee (a b : Z) : Z := e1 a b + e2 a b + e3 a b.
Definition gM (a b : Z) : Z := ee a b - ee b a.

Lemma F_in_X x : In x F -> In x X.
Proof. unfold F. intros H. apply in_map_iff in H. destruct H as [p [<- Hp]]. apply Medges. exact Hp. Qed.
Lemma S_in_Y y : In y S -> In y Y.
Proof. unfold S. intros H. apply in_map_iff in H. destruct H as [p [<- Hp]]. destruct (Medges p Hp) as [Hx Hy]. destruct (Hadj _ Hx) as [_ Hinc]. apply Hinc. exact Hy. Qed.
Lemma M_edge a b : In (a, b) M' -> In a X /\ In b (adj G a) /\ In b Y.
Proof. intros H. destruct (Medges _ H) as [Hx Hy]. simpl in *. destruct (Hadj a Hx) as [_ Hinc]. auto. Qed.

Lemma ind_01 b : 0 <= ind b <= 1. Proof. destruct b; simpl; lia. Qed.

Lemma ee_le_cf a b : 0 <= ee a b <= cf N a b.
Proof.
  pose proof (proj1 (proj2 (proj2 N_wf)) ) as _. pose proof (proj2 (proj2 (proj2 N_wf)) a b) as Hnn.
  unfold ee, e1, e2, e3.
  destruct (memp (a, b) M') eqn:E1.
  - apply memp_In in E1. destruct (M_edge a b E1) as [Hx [Hy HyY]].
    assert (Ea : (a =? -1) = false) by (apply Z.eqb_neq; intros ->; exact (proj1 Hs1 Hx)).
    assert (Eb : (b =? -2) = false) by (apply Z.eqb_neq; intros ->; exact (proj2 Hs2 HyY)).
    rewrite Ea, Eb. simpl. rewrite cf_X by exact Hx. destruct (in_dec Z.eq_dec b (adj G a)); [lia|contradiction].
  - destruct ((a =? -1) && memZ b F) eqn:E2.
    + apply andb_true_iff in E2. destruct E2 as [Ea Hb]. apply Z.eqb_eq in Ea. subst a. apply memZ_In in Hb. pose proof (F_in_X b Hb) as HbX.
      assert (Eb : (b =? -2) = false) by (apply Z.eqb_neq; intros ->; exact (proj1 Hs2 HbX)). rewrite Eb. simpl.
      rewrite cf_s. destruct (in_dec Z.eq_dec b X); [lia|contradiction].
    + destruct ((b =? -2) && memZ a S) eqn:E3; simpl; [|lia].
      apply andb_true_iff in E3. destruct E3 as [Eb Ha]. apply Z.eqb_eq in Eb. subst b. apply memZ_In in Ha. pose proof (S_in_Y a Ha) as HaY.
      rewrite cf_Y by exact HaY. simpl. lia.
Qed.

Let K := keys N.
Lemma K_nodup : NoDup K. Proof. apply N_wf. Qed.
Lemma fst_unique a b b' : In (a, b) M' -> In (a, b') M' -> b = b'.
Proof.
  intros H1 H2. clear -H1 H2 Mfst. induction M' as [|p t IH]; [destruct H1|]. simpl in Mfst. inversion Mfst; subst.
  destruct H1 as [->|H1], H2 as [E|H2].
  - injection E as <-. reflexivity.
  - exfalso. apply H3. apply (in_map fst) in H2. exact H2.
  - subst p. exfalso. apply H3. apply (in_map fst) in H1. exact H1.
  - apply IH; assumption.
Qed.
Lemma snd_unique a a' b : In (a, b) M' -> In (a', b) M' -> a = a'.
Proof.
  intros H1 H2. clear -H1 H2 Msnd. induction M' as [|p t IH]; [destruct H1|]. simpl in Msnd. inversion Msnd; subst.
  destruct H1 as [->|H1], H2 as [E|H2].
  - injection E as <-. reflexivity.
  - exfalso. apply H3. apply (in_map snd) in H2. exact H2.
  - subst p. exfalso. apply H3. apply (in_map snd) in H1. exact H1.
  - apply IH; assumption.
Qed.
Lemma sum_point y c : In y K -> sumZ (fun b => if b =? y then c else 0) K = c.
Proof. intros H. rewrite (sumZ_ind y c K K_nodup). destruct (in_dec Z.eq_dec y K); [reflexivity|contradiction]. Qed.
Lemma memZ_false x l : memZ x l = false <-> ~ In x l.
Proof. rewrite <- memZ_In. destruct (memZ x l); split; congruence. Qed.

Lemma sumA k : sumZ (e1 k) K = ind (memZ k F).
Proof.
  destruct (memZ k F) eqn:E.
  - apply memZ_In in E. unfold F in E. apply in_map_iff in E. destruct E as [[a y] [Ea Hp]]. simpl in Ea. subst a.
    destruct (M_edge k y Hp) as [_ [_ HyY]].
    rewrite (sumZ_ext _ (fun b => if b =? y then 1 else 0) K); [apply sum_point; unfold K; rewrite in_keys_N; tauto|].
    intros b _. unfold e1. destruct (b =? y) eqn:Eb.
    + apply Z.eqb_eq in Eb. subst b. assert (memp (k, y) M' = true) by (apply memp_In; exact Hp). rewrite H. reflexivity.
    + destruct (memp (k, b) M') eqn:Em; [|reflexivity]. apply memp_In in Em. pose proof (fst_unique k b y Em Hp). apply Z.eqb_neq in Eb. congruence.
  - apply memZ_false in E. apply sumZ_all_zero. intros b _. unfold e1. destruct (memp (k, b) M') eqn:Em; [|reflexivity].
    apply memp_In in Em. exfalso. apply E. unfold F. apply (in_map fst) in Em. exact Em.
Qed.
Lemma sumB k : sumZ (fun b => e1 b k) K = ind (memZ k S).
Proof.
  destruct (memZ k S) eqn:E.
  - apply memZ_In in E. unfold S in E. apply in_map_iff in E. destruct E as [[x a] [Ea Hp]]. simpl in Ea. subst a.
    destruct (M_edge x k Hp) as [HxX _].
    rewrite (sumZ_ext _ (fun b => if b =? x then 1 else 0) K); [apply sum_point; unfold K; rewrite in_keys_N; tauto|].
    intros b _. unfold e1. destruct (b =? x) eqn:Eb.
    + apply Z.eqb_eq in Eb. subst b. assert (memp (x, k) M' = true) by (apply memp_In; exact Hp). rewrite H. reflexivity.
    + destruct (memp (b, k) M') eqn:Em; [|reflexivity]. apply memp_In in Em. pose proof (snd_unique b x k Em Hp). apply Z.eqb_neq in Eb. congruence.
  - apply memZ_false in E. apply sumZ_all_zero. intros b _. unfold e1. destruct (memp (b, k) M') eqn:Em; [|reflexivity].
    apply memp_In in Em. exfalso. apply E. unfold S. apply (in_map snd) in Em. exact Em.
Qed.
Lemma s_in_K : In (-1) K. Proof. unfold K. rewrite in_keys_N. tauto. Qed.
Lemma t_in_K : In (-2) K. Proof. unfold K. rewrite in_keys_N. tauto. Qed.
Lemma sumD k : sumZ (fun b => e2 b k) K = ind (memZ k F).
Proof.
  rewrite (sumZ_ext _ (fun b => if b =? -1 then ind (memZ k F) else 0) K); [apply sum_point, s_in_K|].
  intros b _. unfold e2. destruct (b =? -1); [reflexivity|reflexivity].
Qed.
Lemma sumE k : sumZ (e3 k) K = ind (memZ k S).
Proof.
  rewrite (sumZ_ext _ (fun b => if b =? -2 then ind (memZ k S) else 0) K); [apply sum_point, t_in_K|].
  intros b _. unfold e3. destruct (b =? -2); [reflexivity|reflexivity].
Qed.
Lemma sumC_other k : k <> -1 -> sumZ (e2 k) K = 0.
Proof. intros H. apply sumZ_all_zero. intros b _. unfold e2. apply Z.eqb_neq in H. rewrite H. reflexivity. Qed.
Lemma sumF_other k : k <> -2 -> sumZ (fun b => e3 b k) K = 0.
Proof. intros H. apply sumZ_all_zero. intros b _. unfold e3. apply Z.eqb_neq in H. rewrite H. reflexivity. Qed.

Lemma sumZ_sub f g l : sumZ (fun x => f x - g x) l = sumZ f l - sumZ g l.
Proof. induction l as [|a t IH]; simpl; [lia|]. rewrite IH. lia. Qed.

Lemma sumZ_lin6 a1 a2 a3 b1 b2 b3 l :
  sumZ (fun b => (a1 b + a2 b + a3 b) - (b1 b + b2 b + b3 b)) l = sumZ a1 l + sumZ a2 l + sumZ a3 l - sumZ b1 l - sumZ b2 l - sumZ b3 l.
Proof. induction l as [|x t IH]; simpl; [lia|]. rewrite IH. lia. Qed.
Lemma gM_sum k : sumZ (gM k) K =
  sumZ (e1 k) K + sumZ (e2 k) K + sumZ (e3 k) K - sumZ (fun b => e1 b k) K - sumZ (fun b => e2 b k) K - sumZ (fun b => e3 b k) K.
Proof. apply (sumZ_lin6 (e1 k) (e2 k) (e3 k) (fun b => e1 b k) (fun b => e2 b k) (fun b => e3 b k) K). Qed.

Lemma gM_feasible : feasible N (-1) (-2) gM.
Proof.
  split; [intros a b; unfold gM; lia|]. split; [intros a b; unfold gM; pose proof (ee_le_cf a b); pose proof (ee_le_cf b a); lia|].
  intros k _ H1 H2. fold K. rewrite gM_sum.
  rewrite (sumA k), (sumC_other k H1), (sumE k), (sumB k), (sumD k), (sumF_other k H2). lia.
Qed.

Lemma sumZ_count l : NoDup l -> incl l K -> sumZ (fun b => ind (memZ b l)) K = Z.of_nat (length l).
Proof.
  intros Hnd Hinc. rewrite (sumZ_subset (fun b => ind (memZ b l)) l K Hnd K_nodup Hinc).
  - clear Hinc. assert (H : forall t, (forall x, In x t -> In x l) -> sumZ (fun b => ind (memZ b l)) t = Z.of_nat (length t)).
    { induction t as [|a u IH]; intros Hs; simpl; [reflexivity|].
      assert (Ea : memZ a l = true) by (apply memZ_In, Hs; now left). rewrite Ea. simpl ind. rewrite IH by (intros; apply Hs; now right). lia. }
    apply H. auto.
  - intros z _ Hn. apply memZ_false in Hn. rewrite Hn. reflexivity.
Qed.
Lemma gM_value : sumZ (gM (-1)) K = Z.of_nat (length M').
Proof.
  rewrite gM_sum.
  rewrite (sumA (-1)), (sumE (-1)), (sumB (-1)), (sumD (-1)), (sumF_other (-1) ltac:(lia)).
  assert (E1 : memZ (-1) F = false) by (apply memZ_false; intros H; exact (proj1 Hs1 (F_in_X _ H))).
  assert (E2 : memZ (-1) S = false) by (apply memZ_false; intros H; exact (proj2 Hs1 (S_in_Y _ H))).
  rewrite E1, E2. simpl ind.
  rewrite (sumZ_ext (e2 (-1)) (fun b => ind (memZ b F)) K) by (intros b _; unfold e2; reflexivity).
  rewrite (sumZ_count F Mfst) by (intros x Hx; unfold K; rewrite in_keys_N; left; apply F_in_X; exact Hx).
  unfold F. rewrite map_length. lia.
Qed.
End FromMatching.
End Bip.
Print Assumptions gM_feasible.
Print Assumptions gM_value.
