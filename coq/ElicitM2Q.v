(* C14 for Match-TwoQueries: pure evaluation of the query program, agent by agent, and what each row contains. *)
From Coq Require Import Arith ZArith QArith List Bool Lia Lqa.
Import ListNotations.
From SCK Require Import Argsort StrictB ElicitM ElicitRun ElicitEval ElicitRules ElicitSpec ElicitSpecProof ElicitFinal.
Local Open Scope Z_scope.

(* ---------- a fold that rewrites row i from row i only is a map ---------- *)
Lemma fold_rows {A} (g : nat -> A -> A) (d : A) n : forall len s (L : list A), length L = n -> (s + len <= n)%nat ->
  fold_left (fun vt i => updz vt i (g i (nth i vt d))) (seq s len) L =
  map (fun i => if ((s <=? i) && (i <? s + len))%nat then g i (nth i L d) else nth i L d) (seq 0 n).
Proof.
  induction len as [|len IH]; intros s L HL Hb; cbn [seq fold_left].
  - rewrite <- (map_seq_nth L d) at 1. rewrite HL. apply map_ext. intros i. destruct ((s <=? i)%nat && (i <? s + 0)%nat) eqn:E; [|reflexivity].
    apply andb_true_iff in E as [E1 E2]. apply Nat.leb_le in E1. apply Nat.ltb_lt in E2. lia.
  - rewrite IH by (rewrite ?updz_length; lia). apply map_ext_in. intros i Hi. apply in_seq in Hi.
    destruct (Nat.eq_dec i s) as [->|Hne].
    + assert (E1 : ((S s <=? s) && (s <? S s + len))%nat = false) by (apply andb_false_iff; left; apply Nat.leb_gt; lia).
      assert (E2 : ((s <=? s) && (s <? s + S len))%nat = true) by (apply andb_true_iff; split; [apply Nat.leb_le|apply Nat.ltb_lt]; lia).
      rewrite E1, E2. apply updz_nth_same. lia.
    + rewrite !(updz_nth_other L s i) by lia.
      assert (E : ((S s <=? i) && (i <? S s + len))%nat = ((s <=? i) && (i <? s + S len))%nat).
      { destruct (Nat.leb_spec (S s) i), (Nat.leb_spec s i), (Nat.ltb_spec i (S s + len)), (Nat.ltb_spec i (s + S len)); try reflexivity; lia. }
      rewrite E. reflexivity.
Qed.

Section M2Q.
Variables (fixer : Z) (V : key -> Q) (P : list (list Z)) (eps : Q).
Let n := length P.
Let m := length (nth 0 P []).
Definition Vz (i : nat) (j : Z) : Q := V (Z.of_nat i + fixer, j + fixer).
Definition m2q_row (i : nat) : list Q :=
  let rk := rank_list (nth i P []) in
  let j := nth i (rootn_sd P) 0 in
  let v := Vz i j in
  let r := nth (Z.to_nat j) (nth i P []) 0 in
  let base := updz (repeat eps m) (Z.to_nat (rkat rk 0)) (Vz i (rkat rk 0)) in
  fold_left (fun rw p => updz rw (Z.to_nat (rkat rk (Z.of_nat p))) v) (seq 1 (Z.to_nat r - 2)) (updz base (Z.to_nat j) v).

Theorem m2q_pure : eval fixer V (m2qP P eps) = map m2q_row (seq 0 n).
Proof.
  unfold m2qP. fold n m. rewrite eval_bind, eval_mapP. rewrite eval_foldP.
  set (vfav := map (fun x => eval fixer V (askfav (map rank_list P) x)) (seq 0 n)).
  set (vt0 := map (fun i => updz (repeat eps m) (Z.to_nat (rkat (nth i (map rank_list P) []) 0)) (nth i vfav 0%Q)) (seq 0 n)).
  set (g := fun (i : nat) (row : list Q) =>
     let j := nth i (rootn_sd P) 0 in let v := Vz i j in let r := nth (Z.to_nat j) (nth i P []) 0 in
     fold_left (fun rw p => updz rw (Z.to_nat (rkat (nth i (map rank_list P) []) (Z.of_nat p))) v) (seq 1 (Z.to_nat r - 2)) (updz row (Z.to_nat j) v)).
  rewrite (fold_left_ext' _ (fun vt i => updz vt i (g i (nth i vt [])))) by (intros vt i; cbn [eval]; reflexivity).
  rewrite (fold_rows g [] n n 0 vt0) by (try lia; unfold vt0; rewrite map_length, seq_length; reflexivity).
  apply map_ext_in. intros i Hi. apply in_seq in Hi.
  assert (E : ((0 <=? i) && (i <? 0 + n))%nat = true) by (apply andb_true_iff; split; [apply Nat.leb_le|apply Nat.ltb_lt]; lia).
  rewrite E. unfold g, m2q_row, vt0. rewrite nth_map_seq by lia. unfold vfav. rewrite nth_map_seq by lia.
  assert (Hr : nth i (map rank_list P) [] = rank_list (nth i P [])) by (apply (map_nth rank_list P [] i)).
  rewrite !Hr. unfold askfav, Vz. cbn [eval]. rewrite !Hr. reflexivity.
Qed.

(* ---------- contents of a row ---------- *)
Hypothesis Hm : (1 <= m)%nat.
Hypothesis Hrows : forall row, In row P -> length row = m /\ strict_rowb row = true.
Variable i : nat.
Hypothesis Hi : (i < n)%nat.
Let row := nth i P [].
Let rk := rank_list row.
Let A := nth i (rootn_sd P) 0.
Hypothesis HA : 0 <= A < Z.of_nat m.        (* the representative item (root_n_serial_dictatorship's pick) is an item *)
Let r := nth (Z.to_nat A) row 0.

Lemma row_ok' : length row = m /\ strict_rowb row = true.
Proof. apply Hrows. apply nth_In. exact Hi. Qed.
Lemma rk_len : length rk = m. Proof. unfold rk. rewrite rank_list_length. apply row_ok'. Qed.
Lemma rk_nodup : NoDup rk. Proof. apply rank_list_nodup. Qed.
Lemma rk_range e : In e rk -> 0 <= e < Z.of_nat m.
Proof. intros H. apply rank_list_range in H. destruct row_ok' as [L _]. rewrite L in H. exact H. Qed.
Lemma r_range : 1 <= r <= Z.of_nat m.
Proof.
  destruct row_ok' as [L S]. destruct (row_facts row S) as [Hpos [Hlt _]]. unfold r. split; [apply Hpos; apply nth_In; lia|].
  assert (E : nth_error (keys_of row) (Z.to_nat A) = Some (Some (Z.to_nat (nth (Z.to_nat A) row 0 - 1)))) by (unfold keys_of; rewrite nth_error_map, (nth_error_nth' row 0) by lia; reflexivity).
  specialize (Hlt _ _ E). rewrite L in Hlt. assert (1 <= nth (Z.to_nat A) row 0) by (apply Hpos; apply nth_In; lia). lia.
Qed.
(* the representative sits at position r-1 of the ranking *)
Lemma rk_at_r : rkat rk (r - 1) = A.
Proof.
  destruct row_ok' as [L S]. pose proof r_range as Hr.
  destruct (rank_list_spec row S (Z.to_nat (r - 1)) ltac:(rewrite L; lia)) as [a [Ea [Ha Ra]]]. rewrite Z2Nat.id in Ea, Ra by lia.
  assert (a = Z.to_nat A).
  { destruct (row_facts row S) as [_ [_ [_ Huniq]]]. apply (Huniq a (Z.to_nat A) (Z.to_nat (r - 1))); unfold keys_of; rewrite nth_error_map.
    - rewrite (nth_error_nth' row 0) by exact Ha. cbn. rewrite Ra. f_equal. f_equal. lia.
    - rewrite (nth_error_nth' row 0) by lia. cbn. reflexivity. }
  fold rk in Ea. rewrite Ea, H. lia.
Qed.

Definition ix (q : Z) : nat := Z.to_nat (rkat rk q).
Lemma ix_lt q : 0 <= q < Z.of_nat m -> (ix q < m)%nat.
Proof. intros Hq. unfold ix, rkat. assert (In (nth (Z.to_nat q) rk 0) rk) by (apply nth_In; rewrite rk_len; lia). pose proof (rk_range _ H). lia. Qed.
Lemma ix_inj p q : 0 <= p < Z.of_nat m -> 0 <= q < Z.of_nat m -> ix p = ix q -> p = q.
Proof.
  intros Hp Hq E. unfold ix, rkat in E.
  assert (Hp' : In (nth (Z.to_nat p) rk 0) rk) by (apply nth_In; rewrite rk_len; lia).
  assert (Hq' : In (nth (Z.to_nat q) rk 0) rk) by (apply nth_In; rewrite rk_len; lia).
  pose proof (rk_range _ Hp'). pose proof (rk_range _ Hq'). assert (E2 : nth (Z.to_nat p) rk 0 = nth (Z.to_nat q) rk 0) by lia.
  apply (proj1 (NoDup_nth rk 0) rk_nodup) in E2; rewrite ?rk_len; lia.
Qed.

(* position q of agent i's ranking in the simulated row *)
Theorem m2q_row_spec q : 0 <= q < Z.of_nat m ->
  nth (ix q) (m2q_row i) 0%Q =
  if (q =? 0) then Vz i (rkat rk 0)                      (* the favourite: its true value *)
  else if (q <=? r - 1) then Vz i A                        (* the representative and everything strictly between: the representative's true value *)
  else eps.                                                (* below the representative: the floor *)
Proof.
  intros Hq. unfold m2q_row. fold row rk A r. pose proof r_range as Hr.
  rewrite (fold_updz_spec (fun p => Z.to_nat (rkat rk (Z.of_nat p))) (Vz i A)).
  2:{ intros p Hp. apply in_seq in Hp. rewrite !updz_length, repeat_length. apply (ix_lt (Z.of_nat p)). lia. }
  assert (EA : Z.to_nat A = ix (r - 1)) by (unfold ix; rewrite rk_at_r; reflexivity).
  destruct (existsb (fun p => Nat.eqb (Z.to_nat (rkat rk (Z.of_nat p))) (ix q)) (seq 1 (Z.to_nat r - 2))) eqn:Ex.
  - apply existsb_exists in Ex as [p [Hp Ep]]. apply in_seq in Hp. apply Nat.eqb_eq in Ep. assert (Z.of_nat p = q) by (apply ix_inj; [lia|lia|exact Ep]).
    destruct (Z.eqb_spec q 0); [lia|]. destruct (Z.leb_spec q (r - 1)); [reflexivity|lia].
  - assert (Hnot : ~ (1 <= q <= r - 2)).
    { intros Hb. assert (existsb (fun p => Nat.eqb (Z.to_nat (rkat rk (Z.of_nat p))) (ix q)) (seq 1 (Z.to_nat r - 2)) = true); [|congruence].
      apply existsb_exists. exists (Z.to_nat q). split; [apply in_seq; lia|]. apply Nat.eqb_eq. rewrite Z2Nat.id by lia. reflexivity. }
    destruct (Z.eq_dec q (r - 1)) as [->|Hne1].
    + rewrite EA, updz_nth_same by (rewrite updz_length, repeat_length; apply ix_lt; lia).
      destruct (Z.eqb_spec (r - 1) 0) as [E0|E0]; [rewrite <- rk_at_r, E0; reflexivity|]. destruct (Z.leb_spec (r - 1) (r - 1)); [reflexivity|lia].
    + rewrite updz_nth_other by (rewrite EA; intros E; apply Hne1; symmetry; apply ix_inj; [lia|lia|exact E]).
      destruct (Z.eqb_spec q 0) as [->|Hq0].
      * apply updz_nth_same. rewrite repeat_length. apply (ix_lt 0). lia.
      * rewrite updz_nth_other by (intros E; apply Hq0; symmetry; apply (ix_inj 0 q); [lia|lia|exact E]).
        destruct (Z.leb_spec q (r - 1)); [lia|]. rewrite (nth_indep _ 0%Q eps) by (rewrite repeat_length; apply ix_lt; lia). apply nth_repeat.
Qed.

(* with a valuation consistent with the profile the copied value never exceeds the true value of the item it is
   copied to: items at positions 1..r-1 are ranked at least as well as the representative *)
Hypothesis Hcons : forall j j', (j < m)%nat -> (j' < m)%nat -> nth j row 0 <= nth j' row 0 ->
  (Vz i (Z.of_nat j') <= Vz i (Z.of_nat j))%Q.
Theorem m2q_copy_is_lower_bound q : 0 <= q <= r - 1 -> (Vz i A <= Vz i (rkat rk q))%Q.
Proof.
  intros Hq. destruct row_ok' as [L S]. pose proof r_range as Hr.
  destruct (rank_list_spec row S (Z.to_nat q) ltac:(rewrite L; lia)) as [a [Ea [Ha Ra]]]. rewrite Z2Nat.id in Ea, Ra by lia. fold rk in Ea.
  rewrite Ea. replace A with (Z.of_nat (Z.to_nat A)) at 1 by lia.
  apply Hcons; [lia|lia|]. fold r. lia.
Qed.
End M2Q.
