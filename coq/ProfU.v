From Coq Require Import ZArith QArith List Bool Lia.
Import ListNotations.
Local Open Scope Z_scope.

(* stable argsort on option Q keys, None (NaN) last *)
Definition oqle (a b : option Q) : bool :=
  match a, b with Some x, Some y => Qle_bool x y | Some _, None => true | None, Some _ => false | None, None => true end.
Fixpoint insq (k : option Q) (i : nat) (l : list (option Q * nat)) :=
  match l with [] => [(k, i)] | (k', i') :: r => if oqle k' k then (k', i') :: insq k i r else (k, i) :: l end.
Definition argsortq (row : list (option Q)) : list nat :=
  map snd (fold_left (fun acc ki => insq (fst ki) (snd ki) acc) (combine row (seq 0 (length row))) []).
Fixpoint upd {A} (l : list A) (i : nat) (x : A) : list A :=
  match l, i with [], _ => [] | _ :: r, O => x :: r | y :: r, S j => y :: upd r j x end.
Definition oqeqb (a b : option Q) : bool := match a, b with Some x, Some y => Qeq_bool x y | _, _ => false end. (* NaN <> NaN *)
Fixpoint insn (x : nat) (l : list nat) := match l with [] => [x] | y :: r => if (x <=? y)%nat then x :: l else y :: insn x r end.
Definition sortn l := fold_right insn [] l.

(* profile_with_ties_to_strict_profile, tie_breaker = "first" *)
Fixpoint group_len (row : list (option Q)) (ranked : list nat) (r k fuel : nat) : nat :=
  match fuel with O => k | S f =>
    if (k <? length row - r)%nat && oqeqb (nth (nth (r + k) ranked O) row None) (nth (nth r ranked O) row None)
    then group_len row ranked r (S k) f else k end.
Fixpoint strictify_loop (fuel : nat) (row : list (option Q)) (ranked : list nat) (r : nat) (out : list (option Q)) : list (option Q) :=
  match fuel with O => out | S f =>
    if (length row <=? r)%nat then out else
    let k := group_len row ranked r 1 (length row) in
    let out' := if (1 <? k)%nat then
                  let tied := sortn (map (fun j => nth (r + j) ranked O) (seq 0 k)) in
                  fold_left (fun o ji => upd o (snd ji) (Some (inject_Z (Z.of_nat (r + 1 + fst ji))))) (combine (seq 0 k) tied) out
                else out in
    strictify_loop f row ranked (r + k) out' end.
Definition strictify_row (row : list (option Q)) : list (option Q) := strictify_loop (S (length row)) row (argsortq row) 0 row.

(* incomplete_profile_to_complete_profile *)
Definition complete_row (accept : bool) (row : list (option Q)) : list (option Q) :=
  let m := length row in
  let nans := filter (fun j => match nth j row None with None => true | Some _ => false end) (seq 0 m) in
  let base := (m - length nans + 1)%nat in
  fold_left (fun o ij => upd o (snd ij) (Some (inject_Z (Z.of_nat (if accept then base else (base + fst ij)%nat))))) (combine (seq 0 (length nans)) nans) row.

(* compute_ordinal_profile: ranks by descending value, NaN kept *)
Definition ordinal_row (row : list (option Q)) : list (option Q) :=
  let ranked := argsortq (map (option_map Qopp) row) in
  fold_left (fun o rj => match nth (snd rj) row None with Some _ => upd o (snd rj) (Some (inject_Z (Z.of_nat (S (fst rj))))) | None => o end)
            (combine (seq 0 (length row)) ranked) row.

Definition oq_eqb (a b : option Q) : bool := match a, b with Some x, Some y => Qeq_bool x y | None, None => true | _, _ => false end.
Definition row_eqb (a b : list (option Q)) : bool := (length a =? length b)%nat && forallb (fun p => oq_eqb (fst p) (snd p)) (combine a b).
Definition prof_eqb (A B : list (list (option Q))) : bool := (length A =? length B)%nat && forallb (fun p => row_eqb (fst p) (snd p)) (combine A B).
