(* C19: what the conversion model computes, row by row. *)
From Coq Require Import Arith ZArith List Bool Lia Permutation Sorted.
Import ListNotations.
From SCK Require Import Preflib.
Local Open Scope Z_scope.

(* ---------- rows are repeated by multiplicity ---------- *)
Theorem convert_length k pol m votes : length (convert k pol m votes) = fold_right (fun v acc => (snd v + acc)%nat) 0%nat votes.
Proof.
  unfold convert. induction votes as [|v t IH]; simpl; [reflexivity|]. rewrite app_length, repeat_length, IH. reflexivity.
Qed.
Theorem convert_rows k pol m votes row : In row (convert k pol m votes) <->
  exists order mult, In (order, mult) votes /\ (0 < mult)%nat /\ row = row_of k pol m order.
Proof.
  unfold convert. rewrite in_flat_map. split.
  - intros [[order mult] [Hin Hr]]. cbn in Hr. apply repeat_spec in Hr as E. exists order, mult. split; [exact Hin|]. split; [destruct mult; [destruct Hr|lia]|exact E].
  - intros [order [mult [Hin [Hm ->]]]]. exists (order, mult). split; [exact Hin|]. cbn. destruct mult; [lia|]. now left.
Qed.
(* consecutive block structure: the converted profile is the concatenation, in the order of the votes, of mult copies of each row *)
Theorem convert_blocks k pol m votes : convert k pol m votes = concat (map (fun v => repeat (row_of k pol m (fst v)) (snd v)) votes).
Proof. unfold convert. apply flat_map_concat_map. Qed.

(* ---------- list update facts ---------- *)
Lemma upd_length {A} (l : list A) i x : length (upd l i x) = length l.
Proof. revert i; induction l as [|y t IH]; intros i; destruct i; simpl; auto. Qed.
Lemma upd_same {A} (l : list A) i x d : (i < length l)%nat -> nth i (upd l i x) d = x.
Proof. revert i; induction l as [|y t IH]; intros i H; destruct i; simpl in *; try lia; [reflexivity|apply IH; lia]. Qed.
Lemma upd_other {A} (l : list A) i j x d : i <> j -> nth j (upd l i x) d = nth j l d.
Proof. revert i j; induction l as [|y t IH]; intros i j H; destruct i, j; simpl; try reflexivity; try lia. apply IH. lia. Qed.

(* ---------- sorting a class by alternative number ---------- *)
Lemma insZ_perm x l : Permutation (insZ x l) (x :: l).
Proof. induction l as [|y r IH]; simpl; [reflexivity|]. destruct (x <=? y); [reflexivity|]. rewrite IH. apply perm_swap. Qed.
Lemma sortZ_perm l : Permutation (sortZ l) l.
Proof. induction l as [|x t IH]; simpl; [constructor|]. rewrite insZ_perm. constructor. exact IH. Qed.
Lemma insZ_sorted x l : StronglySorted Z.le l -> StronglySorted Z.le (insZ x l).
Proof.
  induction l as [|y r IH]; intros H; simpl; [constructor; constructor|]. inversion H as [|? ? Hs Hf]; subst.
  destruct (Z.leb_spec x y).
  - constructor; [exact H|]. constructor; [exact H0|]. rewrite Forall_forall in *. intros z Hz. specialize (Hf z Hz). lia.
  - constructor; [apply IH; exact Hs|]. rewrite Forall_forall in *. intros z Hz. apply (Permutation_in _ (insZ_perm x r)) in Hz.
    destruct Hz as [<-|Hz]; [lia|apply Hf; exact Hz].
Qed.
Lemma sortZ_sorted l : StronglySorted Z.le (sortZ l).
Proof. induction l as [|x t IH]; simpl; [constructor|]. apply insZ_sorted. exact IH. Qed.

(* ---------- placing one indifference class ---------- *)
Definition col (a : Z) : nat := Z.to_nat (a - 1).
Fixpoint zindex (a : Z) (l : list Z) : nat := match l with [] => O | x :: r => if x =? a then O else S (zindex a r) end.

Lemma place_accept row cur cls j d : (forall a, In a cls -> (col a < length row)%nat) ->
  nth j (place_class Accept row cur cls) d = if existsb (fun a => Nat.eqb (col a) j) cls then Some cur else nth j row d.
Proof.
  unfold place_class. revert row. induction cls as [|a t IH]; intros row Hb; cbn [fold_left existsb]; [reflexivity|].
  rewrite IH by (intros b Hin; rewrite upd_length; apply Hb; now right).
  destruct (existsb (fun a0 => Nat.eqb (col a0) j) t) eqn:E; [rewrite orb_true_r; reflexivity|]. rewrite orb_false_r.
  fold (col a). destruct (Nat.eqb (col a) j) eqn:E2.
  - apply Nat.eqb_eq in E2. subst j. apply upd_same. apply Hb. now left.
  - apply Nat.eqb_neq in E2. apply upd_other. exact E2.
Qed.

Lemma place_first_gen l : forall row cur j d, (forall a, In a l -> (col a < length row)%nat) -> NoDup (map col l) ->
  nth j (fst (fold_left (fun st a => let '(r, k) := st in (upd r (col a) (Some k), k + 1)) l (row, cur))) d =
  match find (fun a => Nat.eqb (col a) j) l with
  | Some a => Some (cur + Z.of_nat (zindex a l))
  | None => nth j row d end.
Proof.
  induction l as [|a t IH]; intros row cur j d Hb Hnd; cbn [fold_left find fst]; [reflexivity|].
  inversion Hnd as [|? ? Ha Ht]; subst.
  rewrite IH by (try exact Ht; intros b Hin; rewrite upd_length; apply Hb; now right).
  destruct (Nat.eqb (col a) j) eqn:E.
  - apply Nat.eqb_eq in E. subst j.
    assert (Hf : find (fun a0 => Nat.eqb (col a0) (col a)) t = None).
    { destruct (find _ t) eqn:Ef; [|reflexivity]. apply find_some in Ef as [Hin Hq]. apply Nat.eqb_eq in Hq. exfalso. apply Ha. rewrite <- Hq. apply in_map. exact Hin. }
    rewrite Hf. cbn [zindex]. rewrite Z.eqb_refl. rewrite upd_same by (apply Hb; now left). f_equal. lia.
  - destruct (find (fun a0 => Nat.eqb (col a0) j) t) as [b|] eqn:Ef.
    + apply find_some in Ef as Hfs. destruct Hfs as [Hin Hq]. cbn [zindex].
      assert (a <> b). { intros ->. congruence. } assert (Eb : (a =? b) = false) by (apply Z.eqb_neq; exact H). rewrite Eb. f_equal. lia.
    + apply Nat.eqb_neq in E. apply upd_other. exact E.
Qed.

Lemma place_first row cur cls j d : (forall a, In a cls -> (col a < length row)%nat) -> NoDup (map col cls) ->
  nth j (place_class First row cur cls) d =
  match find (fun a => Nat.eqb (col a) j) (sortZ cls) with
  | Some a => Some (cur + Z.of_nat (zindex a (sortZ cls)))
  | None => nth j row d end.
Proof.
  intros Hb Hnd. unfold place_class. apply place_first_gen.
  - intros a Ha. apply Hb. apply (Permutation_in _ (sortZ_perm cls)). exact Ha.
  - apply (Permutation_NoDup (Permutation_sym (Permutation_map col (sortZ_perm cls)))). exact Hnd.
Qed.

(* ---------- a whole weak order (ToC, ToI, categorical) ---------- *)
Definition step_class (pol : tiepol) (st : list (option Z) * Z) (cls : list Z) : list (option Z) * Z :=
  let '(r, cur) := st in match cls with [] => st | _ => (place_class pol r cur cls, cur + Z.of_nat (length cls)) end.
Definition before (order : list (list Z)) (c : nat) : Z := Z.of_nat (length (concat (firstn c order))).
Definition offset (pol : tiepol) (cls : list Z) (a : Z) : Z := match pol with Accept => 0 | First => Z.of_nat (zindex a (sortZ cls)) end.

Lemma place_in pol row cur cls a d : (forall b, In b cls -> (col b < length row)%nat) -> NoDup (map col cls) -> In a cls ->
  nth (col a) (place_class pol row cur cls) d = Some (cur + offset pol cls a).
Proof.
  intros Hb Hnd Hin. destruct pol; unfold offset.
  - rewrite place_accept by exact Hb.
    assert (E : existsb (fun b => Nat.eqb (col b) (col a)) cls = true) by (apply existsb_exists; exists a; split; [exact Hin|apply Nat.eqb_refl]).
    rewrite E. f_equal. lia.
  - rewrite place_first by assumption.
    assert (Hs : In a (sortZ cls)) by (apply (Permutation_in _ (Permutation_sym (sortZ_perm cls))); exact Hin).
    assert (Hnd' : NoDup (map col (sortZ cls))) by (apply (Permutation_NoDup (Permutation_sym (Permutation_map col (sortZ_perm cls)))); exact Hnd).
    destruct (find (fun b => Nat.eqb (col b) (col a)) (sortZ cls)) as [b|] eqn:Ef.
    + apply find_some in Ef as [Hbin Hq]. apply Nat.eqb_eq in Hq.
      assert (b = a).
      { clear -Hnd' Hbin Hs Hq. induction (sortZ cls) as [|x t IH]; [destruct Hs|]. inversion Hnd' as [|? ? Hx Ht]; subst. simpl in *.
        destruct Hbin as [->|Hb], Hs as [->|Ha]; try reflexivity.
        - exfalso. apply Hx. rewrite Hq. apply in_map. exact Ha.
        - exfalso. apply Hx. rewrite <- Hq. apply in_map. exact Hb.
        - apply IH; assumption. }
      subst b. reflexivity.
    + exfalso. apply (find_none _ _ Ef a) in Hs. rewrite Nat.eqb_refl in Hs. discriminate.
Qed.
Lemma place_out pol row cur cls j d : (forall b, In b cls -> (col b < length row)%nat) -> NoDup (map col cls) ->
  (forall b, In b cls -> col b <> j) -> nth j (place_class pol row cur cls) d = nth j row d.
Proof.
  intros Hb Hnd Hout. destruct pol.
  - rewrite place_accept by exact Hb. destruct (existsb (fun b => Nat.eqb (col b) j) cls) eqn:E; [|reflexivity].
    apply existsb_exists in E as [b [Hin Hq]]. apply Nat.eqb_eq in Hq. exfalso. exact (Hout b Hin Hq).
  - rewrite place_first by assumption. destruct (find (fun b => Nat.eqb (col b) j) (sortZ cls)) as [b|] eqn:Ef; [|reflexivity].
    apply find_some in Ef as [Hin Hq]. apply Nat.eqb_eq in Hq. exfalso. apply (Hout b); [apply (Permutation_in _ (sortZ_perm cls)); exact Hin|exact Hq].
Qed.
Lemma place_length pol row cur cls : length (place_class pol row cur cls) = length row.
Proof.
  destruct pol; unfold place_class.
  - revert row. induction cls as [|a t IH]; intros row; cbn [fold_left]; [reflexivity|]. rewrite IH. apply upd_length.
  - generalize (sortZ cls) as l. intros l. revert row cur. induction l as [|a t IH]; intros row cur; cbn [fold_left fst]; [reflexivity|]. rewrite IH. apply upd_length.
Qed.

Lemma nodup_app_inv {A} (a b : list A) : NoDup (a ++ b) -> NoDup a /\ NoDup b /\ forall x, In x a -> ~ In x b.
Proof.
  induction a as [|x t IH]; simpl; intros H; [split; [constructor|split; [exact H|intros x []]]|].
  inversion H as [|? ? Hx Ht]; subst. destruct (IH Ht) as [N1 [N2 N3]]. split; [constructor; [intros Hin; apply Hx; apply in_or_app; now left|exact N1]|].
  split; [exact N2|]. intros y [<-|Hy]; [intros Hin; apply Hx; apply in_or_app; now right|apply N3; exact Hy].
Qed.

Lemma fold_classes_spec pol order : forall row cur,
  (forall cls a, In cls order -> In a cls -> (col a < length row)%nat) ->
  NoDup (map col (concat order)) ->
  let res := fst (fold_left (step_class pol) order (row, cur)) in
  (forall c cls a d, nth_error order c = Some cls -> In a cls -> nth (col a) res d = Some (cur + before order c + offset pol cls a)) /\
  (forall j d, (forall cls a, In cls order -> In a cls -> col a <> j) -> nth j res d = nth j row d).
Proof.
  induction order as [|cls0 t IH]; intros row cur Hb Hnd res.
  - split; [intros c cls a d H; destruct c; discriminate|intros; reflexivity].
  - cbn [concat] in Hnd. rewrite map_app in Hnd. destruct (nodup_app_inv _ _ Hnd) as [Hnd0 [Hnd_t Hdj]].
    assert (Hdisj : forall a b, In a cls0 -> In b (concat t) -> col a <> col b).
    { intros a b Ha Hbb E. apply (Hdj (col a)); [apply in_map; exact Ha|rewrite E; apply in_map; exact Hbb]. }
    unfold res. cbn [fold_left].
    destruct cls0 as [|a0 r0] eqn:Ec.
    + (* empty class: skipped *)
      change (step_class pol (row, cur) []) with (row, cur).
      destruct (IH row cur (fun cls a Hc Ha => Hb cls a (or_intror Hc) Ha) Hnd_t) as [A B]. split.
      * intros c cls a d Hn Hin. destruct c; [cbn in Hn; injection Hn as <-; destruct Hin|]. cbn in Hn.
        rewrite (A c cls a d Hn Hin). unfold before. cbn [firstn concat app]. reflexivity.
      * intros j d Hout. apply B. intros cls a Hc Ha. apply (Hout cls a); [now right|exact Ha].
    + change (step_class pol (row, cur) (a0 :: r0)) with (place_class pol row cur (a0 :: r0), cur + Z.of_nat (length (a0 :: r0))).
      rewrite <- Ec in *. set (row1 := place_class pol row cur cls0). set (cur1 := cur + Z.of_nat (length cls0)).
      assert (Hb1 : forall cls a, In cls t -> In a cls -> (col a < length row1)%nat) by (intros cls a Hc Ha; unfold row1; rewrite place_length; apply (Hb cls a); [now right|exact Ha]).
      destruct (IH row1 cur1 Hb1 Hnd_t) as [A B]. split.
      * intros c cls a d Hn Hin. destruct c.
        -- cbn in Hn. injection Hn as <-. rewrite B.
           ++ unfold row1. rewrite place_in; [|intros b Hbb; apply (Hb cls0 b); [now left|exact Hbb]|exact Hnd0|exact Hin]. unfold before. cbn [firstn concat length]. f_equal. lia.
           ++ intros cls' b Hc' Hb' E. apply (Hdisj a b Hin); [apply in_concat; exists cls'; split; assumption|symmetry; exact E].
        -- cbn in Hn. rewrite (A c cls a d Hn Hin). unfold cur1, before. cbn [firstn concat]. rewrite app_length. f_equal. lia.
      * intros j d Hout. rewrite B by (intros cls a Hc Ha; apply (Hout cls a); [now right|exact Ha]).
        unfold row1. apply place_out; [intros b Hbb; apply (Hb cls0 b); [now left|exact Hbb]|exact Hnd0|intros b Hbb; apply (Hout cls0 b); [now left|exact Hbb]].
Qed.

(* ---------- C19: the entry of an alternative is its position in the voter's order ---------- *)
Definition weak_kind (k : kind) : bool := match k with TOC | TOI | CAT => true | _ => false end.
Definition wf_order (m : nat) (order : list (list Z)) : Prop :=
  (forall cls a, In cls order -> In a cls -> 1 <= a <= Z.of_nat m) /\ NoDup (map col (concat order)).

Lemma row_of_weak k pol m order : weak_kind k = true ->
  row_of k pol m order = fst (fold_left (step_class pol) order (init_row k m, 1)).
Proof. destruct k; intros H; try discriminate; reflexivity. Qed.
Lemma init_row_length k m : length (init_row k m) = m.
Proof. destruct k; apply repeat_length. Qed.

(* an alternative listed in the c-th class gets the first position of that class ('accept') or that position plus its
   index inside the class sorted by alternative number ('first'); the first position of a class is 1 + the number of
   alternatives in earlier classes *)
Theorem row_listed k pol m order c cls a : weak_kind k = true -> wf_order m order ->
  nth_error order c = Some cls -> In a cls ->
  nth (col a) (row_of k pol m order) None = Some (1 + before order c + offset pol cls a).
Proof.
  intros Hk [Hr Hnd] Hn Hin. rewrite row_of_weak by exact Hk.
  destruct (fold_classes_spec pol order (init_row k m) 1) as [A _]; [|exact Hnd|apply (A c cls a None Hn Hin)].
  intros cls' b Hc Hb. rewrite init_row_length. specialize (Hr cls' b Hc Hb). unfold col. lia.
Qed.
(* an alternative the voter did not list keeps the initial entry: NaN for incomplete kinds *)
Theorem row_unlisted k pol m order a : weak_kind k = true -> wf_order m order -> 1 <= a <= Z.of_nat m ->
  (forall cls, In cls order -> ~ In a cls) ->
  nth (col a) (row_of k pol m order) None = match k with TOC => Some 0 | _ => None end.
Proof.
  intros Hk [Hr Hnd] Ha Hout. rewrite row_of_weak by exact Hk.
  destruct (fold_classes_spec pol order (init_row k m) 1) as [_ B]; [|exact Hnd|].
  { intros cls' b Hc Hb. rewrite init_row_length. specialize (Hr cls' b Hc Hb). unfold col. lia. }
  rewrite B.
  - assert (Hc : (col a < m)%nat) by (unfold col; lia). destruct k; try discriminate; unfold init_row.
    + rewrite (nth_indep _ None (Some 0)) by (rewrite repeat_length; exact Hc). apply nth_repeat.
    + apply nth_repeat.
    + apply nth_repeat.
  - intros cls b Hc Hb E. specialize (Hr cls b Hc Hb). assert (b = a) by (unfold col in E; lia). subst. exact (Hout cls Hc Hb).
Qed.

Lemma in_firstn_sub {A} (l : list A) c x : In x (firstn c l) -> In x l.
Proof. revert c; induction l as [|y t IH]; intros c H; destruct c; simpl in *; try tauto. destruct H as [H|H]; [now left|right; eapply IH; exact H]. Qed.

(* strict orders (SoC, SoI): every class is a single alternative and the converters use the flattened order *)
Lemma row_of_strict_as_weak k m order : (forall cls, In cls order -> exists a, cls = [a]) ->
  row_of (match k with SOC => SOC | _ => SOI end) Accept m order = row_of (match k with SOC => TOC | _ => TOI end) Accept m order.
Proof.
  intros Hs.
  assert (G : forall (row : list (option Z)) (p : Z),
    fst (fold_left (fun st cls => let '(r, p) := st in match cls with a :: _ => (upd r (Z.to_nat (a - 1)) (Some p), p + 1) | [] => st end) order (row, p)) =
    fst (fold_left (step_class Accept) order (row, p))).
  { induction order as [|cls t IH]; intros row p; [reflexivity|]. cbn [fold_left].
    destruct (Hs cls (or_introl eq_refl)) as [a ->]. cbn [step_class place_class fold_left length]. rewrite IH by (intros c Hc; apply Hs; now right). reflexivity. }
  destruct k; cbn; apply G.
Qed.
Theorem row_strict_position k m order c a : (k = SOC \/ k = SOI) -> (forall cls, In cls order -> exists b, cls = [b]) -> wf_order m order ->
  nth_error order c = Some [a] -> nth (col a) (row_of k Accept m order) None = Some (1 + Z.of_nat c).
Proof.
  intros Hk Hs Hwf Hn.
  assert (E : row_of k Accept m order = row_of (match k with SOC => TOC | _ => TOI end) Accept m order).
  { destruct Hk as [-> | ->]; [apply (row_of_strict_as_weak SOC m order Hs)|apply (row_of_strict_as_weak SOI m order Hs)]. }
  rewrite E. rewrite (row_listed _ Accept m order c [a] a); [| destruct Hk as [-> | ->]; reflexivity|exact Hwf|exact Hn|now left].
  f_equal. unfold before, offset.
  assert (L : forall l : list (list Z), (forall cls, In cls l -> exists b, cls = [b]) -> length (concat l) = length l).
  { induction l as [|x t IH]; intros H; [reflexivity|]. destruct (H x (or_introl eq_refl)) as [b ->]. cbn. f_equal. apply IH. intros cls Hc. apply H. now right. }
  rewrite L.
  - rewrite firstn_length_le; [lia|]. apply Nat.lt_le_incl. apply nth_error_Some. congruence.
  - intros cls Hc. apply Hs. eapply in_firstn_sub. exact Hc.
Qed.


(* an instance of another data type is rejected *)
Theorem wrong_type_rejected : forall want actual pol m votes,
  kind_eqb want actual = false -> convert_checked want actual pol m votes = None.
Proof. intros want actual pol m votes H. unfold convert_checked. rewrite H. reflexivity. Qed.
