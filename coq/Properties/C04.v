(* C04 — maximum-weight allocation is a welfare-maximal perfect assignment. Statements only.
   scipy's assignment solver is NOT modelled: it is an oracle, and every explored output is certified by the
   checkers below, evaluated by the kernel with certificates computed by the harness in exact rationals. *)
From Coq Require Import Arith QArith List Bool Lia Permutation.
Import ListNotations.
From SCK Require Import MWMCert Hall MWMCheck.

(* W i j = Some x: agent i values item j at x (zero included); None: NaN, unacceptable.
   If the boolean certificate check passes for the returned assignment sg with potentials (u, v), then sg is a
   one-to-one assignment using only acceptable pairs and no acceptable one-to-one assignment has larger welfare. *)
Theorem C04_optimality_certificate_sound : forall W sg u v, cert_okb W sg u v = true ->
  let n := length W in
  MWMCert.assignment n sg /\ MWMCert.acceptable n (wof W) sg /\
  forall tau, MWMCert.assignment n tau -> MWMCert.acceptable n (wof W) tau ->
              (MWMCert.welfare n (wof W) tau <= MWMCert.welfare n (wof W) sg)%Q.
Proof. exact cert_okb_sound. Qed.
Print Assumptions C04_optimality_certificate_sound.

(* If the Hall-violator check passes, no one-to-one assignment of acceptable pairs exists (so raising is right). *)
Theorem C04_infeasibility_certificate_sound : forall W A B, hall_okb W A B = true ->
  forall tau, Hall.assignment (length W) tau -> ~ Hall.acceptable (length W) (accb W) tau.
Proof. exact hall_okb_sound. Qed.
Print Assumptions C04_infeasibility_certificate_sound.

(* The vm_compute proof below is a closed computation (a witness), not a statement about all inputs. *)
(* Regression about the PINNED glue (NaN -> 0, sparse matrix drops zeros, i.e. usable pair <=> value <> 0):
   on [[1,0],[1,0]] an acceptable assignment exists but none survives the pinned glue. *)
Definition pinned_glue (W : wmat) : wmat :=
  map (map (fun o => match o with Some x => if Qeq_bool x 0 then None else Some x | None => None end)) W.
Theorem C04_pinned_glue_refuted :
  let W := [[Some 1%Q; Some 0%Q]; [Some 1%Q; Some 0%Q]] in
  cert_okb W [0; 1]%nat [1%Q; 1%Q] [0%Q; (-1)%Q] = true /\ hall_okb (pinned_glue W) [0; 1]%nat [0]%nat = true.
Proof. vm_compute. split; reflexivity. Qed.
Print Assumptions C04_pinned_glue_refuted.
