(* C07 — random allocation rules return valid, explainable allocations. Statements only. *)
From Coq Require Import ZArith QArith List Bool Lia.
Import ListNotations.
From SCK Require Import Argsort RSD RSDProof FlowModel BipModel BvN2 Eat3 EatFinal Lottery.

(* np.nanargmin on the blanked row = an acceptable, not yet taken item of minimal rank; no pick exactly
   when no acceptable item is left — so the model of RSD is literally "the agents pick their best
   remaining acceptable item one after another in the drawn order" *)
Theorem C07_pick_is_best_remaining : forall row taken,
  match best_remaining row taken with
  | Some j => exists rk, nth_error row j = Some (Some rk) /\ ~ In j taken /\
              forall j' rk', nth_error row j' = Some (Some rk') -> ~ In j' taken -> (rk <= rk')%Z /\ (rk = rk' -> (j <= j')%nat)
  | None => forall j rk, nth_error row j = Some (Some rk) -> In j taken
  end.
Proof. exact best_remaining_spec. Qed.
Print Assumptions C07_pick_is_best_remaining.

(* for every picking order without repetition (every shuffle): one entry per agent, every received
   item is acceptable to its receiver, no two agents receive the same item *)
Theorem C07_rsd_valid : forall P fixer order, NoDup order -> (forall a, In a order -> (a < length P)%nat) ->
  let alloc := rsd P order fixer in
  length alloc = length P /\
  (forall a x, nth a alloc None = Some x -> exists item rk, x = (Z.of_nat item + fixer)%Z /\ nth_error (nth a P []) item = Some (Some rk)) /\
  (forall a b x, a <> b -> nth a alloc None = Some x -> nth b alloc None = Some x -> False).
Proof. exact rsd_valid. Qed.
Print Assumptions C07_rsd_valid.

(* eating lottery, for every index the sampler may return: no agent and no item twice, and agent i
   gets item j only where the exact eating process gives i a positive amount of j *)
Theorem C07_lottery_support : forall ffuel P speeds idx M,
  lottery ffuel P speeds idx = Some M ->
  exists X0, eating_run P speeds = Some X0 /\
    NoDup (map fst M) /\ NoDup (map snd M) /\
    forall p, In p M -> exists i j, (i < length X0)%nat /\ (j < length X0)%nat /\
                                  p = (Z.of_nat i, Z.of_nat (j + length X0)) /\ (0 < mget X0 i j)%Q.
Proof. exact lottery_support. Qed.
Print Assumptions C07_lottery_support.

Example C07_nonvacuous :
  rsd [[Some 1; Some 2]; [Some 1; None]; [None; None]]%Z [1; 0; 2]%nat 1%Z = [Some 2; Some 1; None]%Z /\
  lottery 6 [[Some 0; Some 1]; [Some 0; Some 1]]%nat [1; 1]%Q 1 = Some [(0, 2); (1, 3)]%Z.
Proof. vm_compute. split; reflexivity. Qed.
