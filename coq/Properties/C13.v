(* C13 — tie-breaking, indexing and randomized selection follow the documented contract. Statements only. *)
From Coq Require Import ZArith QArith List Bool Lia.
Import ListNotations.
From SCK Require Import Voting VoteExt VoteExtProof.
Local Open Scope Z_scope.

(* break_tie: 'accept' returns the list itself, 'first' its head, 'random' a member (for every sampler answer);
   'accept' where excluded is an error *)
Theorem C13_break_tie_contract : forall alts t inc o,
  match t with
  | TAccept => break_tie alts t inc o = if inc then OList alts else OErr
  | TFirst => break_tie alts t inc o = match alts with a :: _ => OOne a | [] => OErr end
  | TRandom => (forall a, break_tie alts t inc o = OOne a -> In a alts) /\
               ((o < length alts)%nat -> exists a, break_tie alts t inc o = OOne a)
  end.
Proof. exact break_tie_spec. Qed.
Print Assumptions C13_break_tie_contract.

(* switching the index convention shifts every reported winner by exactly one *)
Theorem C13_index_shift : forall s, winners s 1 = map (fun z => z + 1) (winners s 0).
Proof. exact winners_index_shift. Qed.
Print Assumptions C13_index_shift.

(* randomized scoring: the vector handed to the sampler is score / sum(score) ... *)
Theorem C13_probabilities_proportional : forall s j x, nth_error s j = Some x ->
  exists p, nth_error (rand_probs s) j = Some p /\ (p == x / sumQl s)%Q.
Proof. exact rand_probs_spec. Qed.
Print Assumptions C13_probabilities_proportional.
(* ... it sums to one ... *)
Theorem C13_probabilities_sum_to_one : forall s, (0 < sumQl s)%Q -> (sumQl (rand_probs s) == 1)%Q.
Proof. exact rand_probs_sum_one. Qed.
Print Assumptions C13_probabilities_sum_to_one.
(* ... and an alternative has positive probability iff its score is positive *)
Theorem C13_support_is_positive_scores : forall s j x p, (forall y, In y s -> 0 <= y)%Q -> (0 < sumQl s)%Q ->
  nth_error s j = Some x -> nth_error (rand_probs s) j = Some p -> ((0 < p)%Q <-> (0 < x)%Q).
Proof. exact rand_support. Qed.
Print Assumptions C13_support_is_positive_scores.
