(* C01 — Gale-Shapley returns a feasible matching with no blocking pair. Statements only.

   Vocabulary (DA.v): with proposers p, receivers r, preference lists pl p (acceptable receivers, best
   first), partial ranks rk r p (None = unacceptable), quotas qP / qR and receiver universe Rs, a
   matching mu (mu r = proposers held by r) is
     feasibleM : every mu r is duplicate-free, has at most qR r members, each member p is acceptable to
                 r and has r on its list; every p is held by at most qP p receivers;
     blockingM mu p r : r is on p's list, p is acceptable to r, p not in mu r, p has a free seat or
                 holds some r' that comes after r on its list, and r has a free seat or holds some p'
                 it ranks strictly worse than p;
     stableM = feasibleM and no blocking pair.
   Resident-oriented: proposers = residents (quota 1), receivers = hospitals (quota = capacity).
   Hospital-oriented: proposers = hospitals (quota = capacity), receivers = residents (quota 1).
   i_pl R p / j_pl H h = the argsort-prefix of acceptable partners; i_rkH H h p = H[h][p], j_rkR R r h = R[r][h]. *)
From Coq Require Import Arith List Bool Lia.
Import ListNotations.
From SCK Require Import Argsort StrictB DA GS2 GS3 GSInst HInst GSFinal.

Theorem C01_resident_oriented_stable : forall R H cap fuel out,
  strictb R (length H) = true -> strictb H (length R) = true ->
  gs_res_run R H cap fuel = Some out ->
  stableM (i_pl R) (i_rkH H) (fun _ => 1) cap (seq 0 (length H)) (mu_of_hospital out).
Proof. exact C01_res_output. Qed.
Print Assumptions C01_resident_oriented_stable.

Theorem C01_hospital_oriented_stable : forall R H cap fuel out,
  strictb R (length H) = true -> strictb H (length R) = true ->
  gs_hosp_run R H cap fuel = Some out ->
  stableM (j_pl H) (j_rkR R) cap (fun _ => 1) (seq 0 (length R)) (mu_of_resident out).
Proof. exact C01_hosp_output. Qed.
Print Assumptions C01_hospital_oriented_stable.

(* both loops exit within n*m+2 rounds, so the out-of-fuel branch excluded above is unreachable *)
Theorem C01_resident_oriented_terminates : forall R H cap fuel,
  strictb R (length H) = true -> length R * length H + 2 <= fuel -> gs_res_run R H cap fuel <> None.
Proof. exact C01_res_terminates. Qed.
Print Assumptions C01_resident_oriented_terminates.

Theorem C01_hospital_oriented_terminates : forall R H cap fuel,
  strictb H (length R) = true -> length H * length R + 2 <= fuel -> gs_hosp_run R H cap fuel <> None.
Proof. exact C01_hosp_terminates. Qed.
Print Assumptions C01_hospital_oriented_terminates.

(* the boolean strictness test evaluated on every explored case implies the density facts used by the proofs *)
Theorem C01_domain_check_sound : forall P cols, strictb P cols = true ->
  (forall i, dense (nth i P []) (kcount (nth i P []))) /\ (forall i, i < length P -> length (nth i P []) = cols).
Proof. exact strictb_sound. Qed.
Print Assumptions C01_domain_check_sound.

(* Non-vacuity: 3 residents, 2 hospitals (capacities 1, 2), one-sided unacceptability. *)
Example C01_nonvacuous :
  let R := [[Some 0; Some 1]; [Some 0; None]; [Some 1; Some 0]] in
  let H := [[Some 1; Some 0; None]; [Some 0; None; Some 1]] in
  strictb R 2 = true /\ strictb H 3 = true /\
  gs_res_run R H (fun h => nth h [1; 2] 0) 8 = Some [(1, 0); (0, 1); (2, 1)] /\
  gs_hosp_run R H (fun h => nth h [1; 2] 0) 8 = Some [(0, 1); (1, 0); (2, 1)].
Proof. vm_compute. repeat split; reflexivity. Qed.
