(* C17 — two-sided lambda-TSF returns a stable matching optimal for the simulated values. Statements only.
   Same PARTIAL status as C03: the composition is the Irving model applied to the simulated valuations of C14. *)
From Coq Require Import Arith ZArith QArith List Bool Lia.
Import ListNotations.
From SCK Require Import ElicitM ElicitRules ElicitMatch Irving IrvProof StrictB StableCheck DA GSInst GSFinal Mwcs MwcsProof MwcsOpt FlowModel.

Theorem C17_composition : forall fixer Va Vb P1 P2 k1 k2 tau1 tau2 ff,
  double_tsf fixer Va Vb P1 P2 k1 k2 tau1 tau2 ff =
  irving P1 P2 (sim_side fixer Va P1 k1 tau1) (sim_side fixer Vb P2 k2 tau2) ff.
Proof. exact double_tsf_is_irving_on_sim. Qed.
Print Assumptions C17_composition.

(* the man-optimal start and the closed-subset stage, for the simulated valuations *)
Theorem C17_partial_start_is_man_optimal : forall fixer Va Vb P1 P2 k1 k2 tau1 tau2 ff t,
  strictb (tok P1) (length P1) = true -> strictb (tok P2) (length P1) = true -> length P2 = length P1 ->
  double_tsf fixer Va Vb P1 P2 k1 k2 tau1 tau2 ff = Some t ->
  stableM (i_pl (tok P1)) (i_rkH (tok P2)) (fun _ => 1%nat) (fun _ => 1%nat) (seq 0 (length P2)) (mu_of_hospital (t_M0 t)).
Proof. exact C17_start. Qed.
Print Assumptions C17_partial_start_is_man_optimal.

Theorem C17_partial_closed_subset_optimal : forall fixer Va Vb P1 P2 k1 k2 tau1 tau2 ff t,
  double_tsf fixer Va Vb P1 P2 k1 k2 tau1 tau2 ff = Some t ->
  poset_okb (t_P t) = true -> (sumN (negp (t_ws t)) (seq 0 (length (t_P t))) < maxsize)%Z ->
  let c1 := fun pi => Mwcs.memn pi (t_S t) in
  pred_closed (t_P t) c1 /\ forall c, pred_closed (t_P t) c -> (W (t_P t) (t_ws t) c <= W (t_P t) (t_ws t) c1)%Z.
Proof. exact C17_closed. Qed.
Print Assumptions C17_partial_closed_subset_optimal.

(* the per-case checker (perfect, stable w.r.t. the ordinal profiles, maximal total SIMULATED value) is sound *)
Theorem C17_partial_optimality_checker_sound : forall P1 P2 V1 V2 n sigma, optimal_b P1 P2 V1 V2 n sigma = true ->
  stable P1 P2 n sigma /\ forall tau, stable P1 P2 n tau -> (value V1 V2 n tau <= value V1 V2 n sigma)%Z.
Proof. exact optimal_b_sound. Qed.
Print Assumptions C17_partial_optimality_checker_sound.

(* the elimination stage keeps a perfect matching and adds exactly the chosen rotations' weights, in SIMULATED value
   (hypotheses perfectb / exposed_allb are evaluated by the kernel on every explored case) *)
Theorem C17_partial_final_value : forall fixer Va Vb P1 P2 k1 k2 tau1 tau2 ff t,
  double_tsf fixer Va Vb P1 P2 k1 k2 tau1 tau2 ff = Some t ->
  IrvRot.perfectb (t_M0 t) = true -> IrvRot.exposed_allb (t_M0 t) (map (fun i => nth i (t_rots t) []) (t_S t)) = true ->
  exists M', t_out t = Some M' /\ map fst M' = map fst (t_M0 t) /\ Permutation.Permutation (map snd M') (map snd (t_M0 t)) /\
    IrvRot.pvalue (sim_side fixer Va P1 k1 tau1) (sim_side fixer Vb P2 k2 tau2) M' =
    (IrvRot.pvalue (sim_side fixer Va P1 k1 tau1) (sim_side fixer Vb P2 k2 tau2) (t_M0 t) + IrvRot.zsum (fun i => nth i (t_ws t) 0%Z) (t_S t))%Z.
Proof. exact C17_final_value. Qed.
Print Assumptions C17_partial_final_value.

(* the returned matching is stable w.r.t. the true ordinal profiles, for every run whose hypotheses (IrvStable: stable
   start, strict rows, exposed rotations) were evaluated by the kernel - any n *)
Theorem C17_partial_final_matching_stable : forall fixer Va Vb P1 P2 k1 k2 tau1 tau2 ff t, let n := length P1 in
  double_tsf fixer Va Vb P1 P2 k1 k2 tau1 tau2 ff = Some t ->
  perfect_b n (map fst (t_M0 t)) = true -> perfect_b n (map snd (t_M0 t)) = true ->
  IrvStable.pstableb P1 P2 (t_M0 t) = true -> IrvStable.strict_onb P1 (t_M0 t) = true ->
  IrvStable.exposed_full_allb P1 P2 (t_M0 t) (map (fun i => nth i (t_rots t) []) (t_S t)) = true ->
  exists M', t_out t = Some M' /\ stable P1 P2 n (wives n M').
Proof. exact C17_final_stable. Qed.
Print Assumptions C17_partial_final_matching_stable.
