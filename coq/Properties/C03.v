(* C03 — Irving returns a welfare-maximal stable matching. Statements only.  PARTIAL: the end-to-end
   correctness of the Irving-Leather-Gusfield construction (stable matchings <-> closed sets of the rotation
   poset, the sparse poset has the right transitive closure, level-wise discovery finds every rotation) is NOT
   proved. Proved: the stages that do not need that theory, and the soundness of the checker that decides
   every explored output. *)
From Coq Require Import Arith ZArith List Bool Lia Permutation.
Import ListNotations.
From SCK Require Import Argsort StrictB DA FlowModel Mwcs MwcsProof MwcsOpt GS2 GSInst GSFinal Irving IrvProof IrvRot IrvStable IrvBridge StableCheck.

(* (a) the first stage is a stable matching of the instance and it is man-optimal *)
Theorem C03_partial_start_is_man_optimal : forall P1 P2 V1 V2 ff t,
  strictb (tok P1) (length P1) = true -> strictb (tok P2) (length P1) = true -> length P2 = length P1 ->
  irving P1 P2 V1 V2 ff = Some t ->
  stableM (i_pl (tok P1)) (i_rkH (tok P2)) (fun _ => 1) (fun _ => 1) (seq 0 (length P2)) (mu_of_hospital (t_M0 t)) /\
  (forall mu, stableM (i_pl (tok P1)) (i_rkH (tok P2)) (fun _ => 1) (fun _ => 1) (seq 0 (length P2)) mu ->
     forall p h, In p (mu h) -> exists h', In p (mu_of_hospital (t_M0 t) h') /\ (h' = h \/ before (i_pl (tok P1) p) h' h)).
Proof. exact irving_start_stable. Qed.
Print Assumptions C03_partial_start_is_man_optimal.

(* (e) the set of rotations chosen by the min-cut stage is closed under predecessors in the computed poset and
   has maximum total weight among all predecessor-closed sets (built on the max-flow/min-cut proof of C08);
   the side conditions are decidable and evaluated per case: adjacency lists duplicate-free without
   self-loops, and the negative weights sum to less than sys.maxsize *)
Theorem C03_partial_closed_subset_optimal : forall P1 P2 V1 V2 ff t,
  irving P1 P2 V1 V2 ff = Some t ->
  poset_okb (t_P t) = true -> (sumN (negp (t_ws t)) (seq 0 (length (t_P t))) < maxsize)%Z ->
  let c1 := fun pi => Mwcs.memn pi (t_S t) in
  pred_closed (t_P t) c1 /\ forall c, pred_closed (t_P t) c -> (W (t_P t) (t_ws t) c <= W (t_P t) (t_ws t) c1)%Z.
Proof. exact irving_closed_subset_optimal. Qed.
Print Assumptions C03_partial_closed_subset_optimal.

(* (b),(c) eliminating rotations, as coded (pairs replaced one by one in the list), is the simultaneous shift of every
   man of the rotation to the next woman; for ANY sequence of rotations each exposed in the matching it is
   eliminated from, the result has the same men, the same women each exactly once (a perfect matching again) and its
   total value is the old value plus the sum of the rotation weights computed by rot_weight *)
Theorem C03_partial_elimination_adds_rotation_weights : forall V1 V2 rts M,
  NoDup (map fst M) -> NoDup (map snd M) -> exposed_all M rts ->
  exists M', eliminate M rts = Some M' /\ map fst M' = map fst M /\ Permutation (map snd M') (map snd M) /\
             pvalue V1 V2 M' = (pvalue V1 V2 M + zsum (rot_weight V1 V2) rts)%Z.
Proof. exact eliminate_spec. Qed.
Print Assumptions C03_partial_elimination_adds_rotation_weights.
(* ... and for a run of the pipeline whose per-case hypothesis check passed (perfectb, exposed_allb: evaluated by
   the kernel on every explored case), the final matching is perfect and its value is the man-optimal value plus
   the weight of the chosen closed set, which (e) shows to be the maximum over all closed sets *)
Theorem C03_partial_final_value : forall P1 P2 V1 V2 ff t,
  irving P1 P2 V1 V2 ff = Some t ->
  perfectb (t_M0 t) = true -> exposed_allb (t_M0 t) (map (fun i => nth i (t_rots t) []) (t_S t)) = true ->
  exists M', t_out t = Some M' /\ map fst M' = map fst (t_M0 t) /\ Permutation (map snd M') (map snd (t_M0 t)) /\
             pvalue V1 V2 M' = (pvalue V1 V2 (t_M0 t) + zsum (fun i => nth i (t_ws t) 0%Z) (t_S t))%Z.
Proof. exact irving_elimination_sound. Qed.
Print Assumptions C03_partial_final_value.

(* (c') eliminating a rotation that is exposed in a stable matching - each man's next woman is the first one after his wife
   who prefers him to her own husband - yields a stable matching again; for every strict instance and every sequence of
   rotations each exposed in the matching it is eliminated from (no bound on n) *)
Theorem C03_partial_elimination_keeps_stability : forall P1 P2 rts M,
  pstable P1 P2 M -> strict_on P1 M -> exposed_full_all P1 P2 M rts ->
  exists M', eliminate M rts = Some M' /\ pstable P1 P2 M'.
Proof. exact eliminate_all_keeps_stable. Qed.
Print Assumptions C03_partial_elimination_keeps_stability.
(* ... hence the matching returned by a run whose hypotheses were evaluated by the kernel (stab_hyp in RunIrv.v, on every
   explored case of any size) is stable in the sense of the property's statement *)
Theorem C03_partial_final_matching_stable : forall P1 P2 V1 V2 ff t, let n := length P1 in
  irving P1 P2 V1 V2 ff = Some t ->
  perfect_b n (map fst (t_M0 t)) = true -> perfect_b n (map snd (t_M0 t)) = true ->
  pstableb P1 P2 (t_M0 t) = true -> strict_onb P1 (t_M0 t) = true ->
  exposed_full_allb P1 P2 (t_M0 t) (map (fun i => nth i (t_rots t) []) (t_S t)) = true ->
  exists M', t_out t = Some M' /\ stable P1 P2 n (wives n M').
Proof. exact irving_final_stable_wives. Qed.
Print Assumptions C03_partial_final_matching_stable.

(* (f) the checker evaluated on explored outputs decides exactly the property's statement: sigma (the list of
   wives) is a perfect matching, has no blocking pair w.r.t. the ordinal profiles, and no stable matching of
   the instance has a larger total value *)
Theorem C03_partial_stability_checker_exact : forall P1 P2 n sigma, stable_b P1 P2 n sigma = true <-> stable P1 P2 n sigma.
Proof. exact stable_b_iff. Qed.
Print Assumptions C03_partial_stability_checker_exact.
Theorem C03_partial_optimality_checker_sound : forall P1 P2 V1 V2 n sigma, optimal_b P1 P2 V1 V2 n sigma = true ->
  stable P1 P2 n sigma /\ forall tau, stable P1 P2 n tau -> (value V1 V2 n tau <= value V1 V2 n sigma)%Z.
Proof. exact optimal_b_sound. Qed.
Print Assumptions C03_partial_optimality_checker_sound.

(* FULL STATEMENT (not proved): for strict complete profiles the model never fails and its output is optimal. *)
Definition C03_full_statement : Prop :=
  forall P1 P2 V1 V2, strictb (tok P1) (length P1) = true -> strictb (tok P2) (length P1) = true -> length P2 = length P1 ->
  exists ff t M, irving P1 P2 V1 V2 ff = Some t /\ t_out t = Some M /\
                 optimal_b P1 P2 V1 V2 (length P1) (wives (length P1) M) = true.

Example C03_nonvacuous :
  let P1 := [[0; 1; 2]; [2; 0; 1]; [1; 2; 0]] in let P2 := [[2; 0; 1]; [1; 2; 0]; [0; 1; 2]] in
  let V1 := [[0; 0; 0]; [0; 0; 0]; [0; 0; 0]]%Z in let V2 := [[0; 2; 1]; [1; 0; 2]; [2; 1; 0]]%Z in
  match irving P1 P2 V1 V2 9 with
  | Some t => length (t_rots t) = 2 /\ t_S t = [0; 1] /\ t_out t = Some [(0, 2); (1, 0); (2, 1)] /\
              chk_opt (P1, P2, V1, V2, [(0, 2); (1, 0); (2, 1)]) = true /\
              perfectb (t_M0 t) = true /\ exposed_allb (t_M0 t) (map (fun i => nth i (t_rots t) []) (t_S t)) = true
  | None => False end.
Proof. vm_compute. repeat split; reflexivity. Qed.
