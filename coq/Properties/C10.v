(* C10 — scoring rules compute their textbook scores and pick the maximisers. Statements only. *)
From Coq Require Import ZArith QArith List Bool Lia Permutation Sorted.
Import ListNotations.
From SCK Require Import Voting ScoreProof VoteExt VoteExtProof VoteMore.
Local Open Scope Z_scope.

(* The positional weights of the model are literally the textbook ones:
   Plurality 1[r=1], Borda m-r, Veto 1[r<m], k-approval 1[r<=k], Harmonic 1/r. *)
Theorem C10_weights_textbook : forall m k r, 1 <= r ->
  weight Plurality m k r = (if r =? 1 then 1 else 0)%Q /\
  weight Borda m k r = inject_Z (m - r) /\
  weight Veto m k r = (if r <? m then 1 else 0)%Q /\
  weight KApproval m k r = (if r <=? k then 1 else 0)%Q /\
  (weight Harmonic m k r == 1 / inject_Z r)%Q.
Proof. exact weights_textbook. Qed.
Print Assumptions C10_weights_textbook.

(* the j-th score is the sum over voters of the weight of that voter's rank of j *)
Theorem C10_score_is_sum : forall r k (P : list (list Z)) (m : nat),
  (forall row, In row P -> length row = m) -> length (nth 0 P []) = m ->
  forall j, (j < m)%nat ->
  (nth j (score r k P) 0 == sumL (map (fun row => weight r (Z.of_nat m) k (nth j row 0%Z)) P))%Q.
Proof. exact score_is_sum. Qed.
Print Assumptions C10_score_is_sum.

(* utilitarian score = column sum of the non-NaN utilities divided by the total *)
Theorem C10_utilitarian_share : forall V j, (j < length (nth 0 V []))%nat ->
  (nth j (util_score V) 0 == colsum V j / sumQl (map (colsum V) (seq 0 (length (nth 0 V [])))))%Q.
Proof. exact util_score_spec. Qed.
Print Assumptions C10_utilitarian_share.
Theorem C10_column_sum : forall V j, (colsum V j == sumQl (map (fun row => nz (nth j row None)) V))%Q.
Proof. exact colsum_spec. Qed.
Print Assumptions C10_column_sum.

(* winners = exactly the positions of maximal score (shifted by the index convention), ascending *)
Theorem C10_winners_are_maximisers : forall s fixer z, In z (winners s fixer) <->
  exists j v, nth_error s j = Some v /\ z = (Z.of_nat j + fixer)%Z /\ forall v', In v' s -> (v' <= v)%Q.
Proof. exact winners_spec. Qed.
Print Assumptions C10_winners_are_maximisers.
Theorem C10_winners_ascending : forall s fixer, StronglySorted Z.lt (winners s fixer).
Proof. exact winners_ascending. Qed.
Print Assumptions C10_winners_ascending.

(* the ranking checker applied to every swf output is sound: the alternatives row is a permutation of
   all alternatives, every alternative carries its own score, scores are non-increasing *)
Theorem C10_ranking_checker_sound : forall s fixer alts scs, ranking_ok s fixer alts scs = true ->
  let a0 := map (fun a => Z.to_nat (a - fixer)) alts in
  Permutation (seq 0 (length s)) a0 /\
  (forall a, In a alts -> fixer <= a) /\
  (forall i j v, nth_error a0 i = Some j -> nth_error scs i = Some v -> exists w, nth_error s j = Some w /\ (w == v)%Q) /\
  (forall i x y, nth_error scs i = Some x -> nth_error scs (S i) = Some y -> (y <= x)%Q).
Proof. exact ranking_ok_sound. Qed.
Print Assumptions C10_ranking_checker_sound.

Example C10_nonvacuous :
  score Borda 1 [[1; 2; 3]; [2; 1; 3]; [1; 3; 2]] = [5#1; 3#1; 1#1]%Q /\
  winners (score Plurality 1 [[1; 2; 3]; [2; 1; 3]; [2; 1; 3]; [1; 3; 2]]) 1 = [1; 2].
Proof. vm_compute. split; reflexivity. Qed.
