(* C16 — elicitation rules meet their distortion guarantee. Statements only.
   The two summation arguments are proved over abstract data; their hypotheses are exactly what C14 provides
   about the simulated values (H1, H2) and what the harness checks numerically on the float thresholds the
   code used (H3: m * tau_k <= rho * v_fav with rho = m^(1/(k+1)) (1+1e-12)). *)
From Coq Require Import QArith List Lia.
Import ListNotations.
From SCK Require Import ElicitM ElicitRules ElicitFinal Distortion KarvFinal TsfFinal.
Local Open Scope Q_scope.

(* k-ARV: I agents, J alternatives, v true and vt simulated values, fav i agent i's favourite, tk i its last
   threshold; y maximises the simulated welfare. Then the true welfare of any x is at most 2 rho times y's. *)
Theorem C16_karv_distortion : forall (I J : list nat) (v vt : nat -> nat -> Q) (fav : nat -> nat) (tk : nat -> Q) (rho : Q),
  let m := inject_Z (Z.of_nat (length J)) in
  0 <= rho -> 0 < m ->
  (forall i j, In i I -> In j J -> 0 <= vt i j /\ vt i j <= v i j) ->
  (forall i j, In i I -> In j J -> v i j <= rho * vt i j + tk i) ->
  (forall i, In i I -> m * tk i <= rho * vt i (fav i)) ->
  (forall i, In i I -> In (fav i) J) ->
  forall x y, In x J -> In y J -> (forall j, In j J -> sumQ (fun i => vt i j) I <= sumQ (fun i => vt i y) I) ->
  sumQ (fun i => v i x) I <= 2 * rho * sumQ (fun i => v i y) I.
Proof. exact karv_distortion. Qed.
Print Assumptions C16_karv_distortion.

(* the same bound when y maximises the simulated welfare only up to a factor (1 + delta): what a winner selected by
   floating-point column sums satisfies. The per-case checker uses delta = 1e-12 (a thorough run found a profile on
   which three simulated values 1/3 sum to 1 - 2^-54 exactly but to 1.0 in binary64, so the reported co-winner is not
   an exact maximiser: the exact hypothesis was demanding more than the implementation can deliver and the property needs). *)
Theorem C16_karv_distortion_with_rounding_slack : forall (I J : list nat) (v vt : nat -> nat -> Q) (fav : nat -> nat) (tk : nat -> Q) (rho delta : Q),
  let m := inject_Z (Z.of_nat (length J)) in
  0 <= rho -> 0 <= delta -> 0 < m ->
  (forall i j, In i I -> In j J -> 0 <= vt i j /\ vt i j <= v i j) ->
  (forall i j, In i I -> In j J -> v i j <= rho * vt i j + tk i) ->
  (forall i, In i I -> m * tk i <= rho * vt i (fav i)) ->
  (forall i, In i I -> In (fav i) J) ->
  forall x y, In x J -> In y J -> (forall j, In j J -> sumQ (fun i => vt i j) I <= (1 + delta) * sumQ (fun i => vt i y) I) ->
  sumQ (fun i => v i x) I <= 2 * rho * (1 + delta) * sumQ (fun i => v i y) I.
Proof. exact karv_distortion_slack. Qed.
Print Assumptions C16_karv_distortion_with_rounding_slack.

(* lambda-TSF: Y maximises the simulated welfare over the admissible assignments Asg (what C04's certificate
   establishes per case), every agent's favourite item is part of some admissible assignment. *)
Theorem C16_tsf_distortion : forall (I : list nat) (v vt : nat -> nat -> Q) (fav : nat -> nat) (tk : nat -> Q) (rho eps : Q)
  (Asg : (nat -> nat) -> Prop),
  let n := inject_Z (Z.of_nat (length I)) in
  0 <= rho -> 0 < n ->
  (forall i j, In i I -> 0 <= vt i j /\ vt i j <= v i j + eps) ->
  (forall i j, In i I -> v i j <= rho * vt i j + tk i) ->
  (forall i, In i I -> n * tk i <= rho * vt i (fav i)) ->
  (forall i, In i I -> exists sg, Asg sg /\ sg i = fav i) ->
  forall X Y, Asg X -> (forall sg, Asg sg -> sumQ (fun i => vt i (sg i)) I <= sumQ (fun i => vt i (Y i)) I) ->
  sumQ (fun i => v i (X i)) I <= 2 * rho * (sumQ (fun i => v i (Y i)) I + n * eps).
Proof. exact tsf_distortion. Qed.
Print Assumptions C16_tsf_distortion.

(* END TO END for k-ARV: P a strict complete profile, V a consistent non-negative valuation behind a truthful
   memoising elicitor, tau the thresholds the code computed with the stated numeric facts (rho >= 1, non-negative,
   non-increasing, consecutive ratio <= rho, m tau_k <= rho v_fav: evaluated per explored case on the actual floats by
   DistCheck.chk_karv_num). vt = the simulated profile RETURNED BY RUNNING the rule's query program. Then for every
   alternative x and every alternative y maximising the simulated welfare (what KARV.scf reports):
   SW(x) <= 2 rho SW(y). *)
Theorem C16_karv_end_to_end : forall fixer V P k tau rho,
  let n := length P in let m := length (nth 0 P []) in
  (1 <= m)%nat -> (1 <= k)%nat ->
  (forall row, In row P -> length row = m /\ strict_rowb row = true) ->
  (forall i j j', (i < n)%nat -> (j < m)%nat -> (j' < m)%nat -> (nth j (nth i P []) 0 <= nth j' (nth i P []) 0)%Z -> Vat fixer V i j' <= Vat fixer V i j) ->
  (forall i j, (i < n)%nat -> (j < m)%nat -> 0 <= Vat fixer V i j) ->
  1 <= rho ->
  (forall i l, (i < n)%nat -> (1 <= l)%nat -> (l <= k)%nat -> 0 <= tauof tau i l) ->
  (forall i l, (i < n)%nat -> (1 <= l)%nat -> (l < k)%nat -> tauof tau i (S l) <= tauof tau i l) ->
  (forall i, (i < n)%nat -> Vat fixer V i (favi P i) <= rho * tauof tau i 1) ->
  (forall i l, (i < n)%nat -> (1 <= l)%nat -> (l < k)%nat -> tauof tau i l <= rho * tauof tau i (S l)) ->
  (forall i, (i < n)%nat -> inject_Z (Z.of_nat m) * tauof tau i k <= rho * Vat fixer V i (favi P i)) ->
  forall x y, (x < m)%nat -> (y < m)%nat ->
  (forall j, (j < m)%nat -> sumQ (fun i => vt fixer V P k tau i j) (seq 0 n) <= sumQ (fun i => vt fixer V P k tau i y) (seq 0 n)) ->
  sumQ (fun i => Vat fixer V i x) (seq 0 n) <= 2 * rho * sumQ (fun i => Vat fixer V i y) (seq 0 n).
Proof. exact karv_end_to_end. Qed.
Print Assumptions C16_karv_end_to_end.

(* END TO END for lambda-TSF (square profiles, initial simulated value eps): same hypotheses on the thresholds with
   n tau_k <= rho v_fav (evaluated per explored case on the actual floats by DistCheck.chk_tsf_hyp). vt = the simulated
   profile returned by running the rule's query program. Then for every one-to-one assignment X and every one-to-one
   assignment Y maximising the simulated welfare (what the maximum-weight matching step returns; its maximality is
   certified per case by C04's checker): SW(X) <= 2 rho (SW(Y) + n eps). *)
Theorem C16_tsf_end_to_end : forall fixer V P k tau rho eps,
  let n := length P in let m := length (nth 0 P []) in
  m = n -> (1 <= m)%nat -> (1 <= k)%nat ->
  (forall row, In row P -> length row = m /\ strict_rowb row = true) ->
  (forall i j j', (i < n)%nat -> (j < m)%nat -> (j' < m)%nat -> (nth j (nth i P []) 0 <= nth j' (nth i P []) 0)%Z -> Vat fixer V i j' <= Vat fixer V i j) ->
  (forall i j, (i < n)%nat -> (j < m)%nat -> 0 <= Vat fixer V i j) ->
  0 <= eps -> 1 <= rho ->
  (forall i l, (i < n)%nat -> (1 <= l)%nat -> (l <= k)%nat -> 0 <= tauof tau i l) ->
  (forall i l, (i < n)%nat -> (1 <= l)%nat -> (l < k)%nat -> tauof tau i (S l) <= tauof tau i l) ->
  (forall i, (i < n)%nat -> Vat fixer V i (TsfFinal.tfav P i) <= rho * tauof tau i 1) ->
  (forall i l, (i < n)%nat -> (1 <= l)%nat -> (l < k)%nat -> tauof tau i l <= rho * tauof tau i (S l)) ->
  (forall i, (i < n)%nat -> inject_Z (Z.of_nat n) * tauof tau i k <= rho * Vat fixer V i (TsfFinal.tfav P i)) ->
  forall X Y, TsfFinal.Asg P X -> TsfFinal.Asg P Y ->
  (forall sg, TsfFinal.Asg P sg -> sumQ (fun i => TsfFinal.tvt fixer V P k tau eps i (sg i)) (seq 0 n) <= sumQ (fun i => TsfFinal.tvt fixer V P k tau eps i (Y i)) (seq 0 n)) ->
  sumQ (fun i => Vat fixer V i (X i)) (seq 0 n) <= 2 * rho * (sumQ (fun i => Vat fixer V i (Y i)) (seq 0 n) + inject_Z (Z.of_nat n) * eps).
Proof. exact TsfFinal.tsf_end_to_end. Qed.
Print Assumptions C16_tsf_end_to_end.
