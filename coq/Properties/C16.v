(* C16 — elicitation rules meet their distortion guarantee. Statements only.
   The two summation arguments are proved over abstract data; their hypotheses are exactly what C14 provides
   about the simulated values (H1, H2) and what the harness checks numerically on the float thresholds the
   code used (H3: m * tau_k <= rho * v_fav with rho = m^(1/(k+1)) (1+1e-12)). *)
From Coq Require Import QArith List Lia.
Import ListNotations.
From SCK Require Import Distortion.
Local Open Scope Q_scope.

(* k-ARV: I agents, J alternatives, v true and vt simulated values, fav i agent i's favourite, tk i its last
   threshold; y maximises the simulated welfare. Then the true welfare of any x is at most 2 rho times y's. *)
Theorem C16_karv_distortion : forall (I J : list nat) (v vt : nat -> nat -> Q) (fav : nat -> nat) (tk : nat -> Q) (rho : Q),
  let m := inject_Z (Z.of_nat (length J)) in
  0 <= rho -> 0 < m ->
  (forall i j, In i I -> In j J -> 0 <= vt i j /\ vt i j <= v i j) ->
  (forall i j, In i I -> In j J -> v i j <= rho * vt i j + tk i) ->
  (forall i, In i I -> m * tk i <= rho * vt i (fav i)) ->
  (forall i, In i I -> In (fav i) J) ->
  forall x y, In x J -> In y J -> (forall j, In j J -> sumQ (fun i => vt i j) I <= sumQ (fun i => vt i y) I) ->
  sumQ (fun i => v i x) I <= 2 * rho * sumQ (fun i => v i y) I.
Proof. exact karv_distortion. Qed.
Print Assumptions C16_karv_distortion.

(* lambda-TSF: Y maximises the simulated welfare over the admissible assignments Asg (what C04's certificate
   establishes per case), every agent's favourite item is part of some admissible assignment. *)
Theorem C16_tsf_distortion : forall (I : list nat) (v vt : nat -> nat -> Q) (fav : nat -> nat) (tk : nat -> Q) (rho eps : Q)
  (Asg : (nat -> nat) -> Prop),
  let n := inject_Z (Z.of_nat (length I)) in
  0 <= rho -> 0 < n ->
  (forall i j, In i I -> 0 <= vt i j /\ vt i j <= v i j + eps) ->
  (forall i j, In i I -> v i j <= rho * vt i j + tk i) ->
  (forall i, In i I -> n * tk i <= rho * vt i (fav i)) ->
  (forall i, In i I -> exists sg, Asg sg /\ sg i = fav i) ->
  forall X Y, Asg X -> (forall sg, Asg sg -> sumQ (fun i => vt i (sg i)) I <= sumQ (fun i => vt i (Y i)) I) ->
  sumQ (fun i => v i (X i)) I <= 2 * rho * (sumQ (fun i => v i (Y i)) I + n * eps).
Proof. exact tsf_distortion. Qed.
Print Assumptions C16_tsf_distortion.
