(* C11 — voting rules treat voters and alternatives symmetrically. Statements only. *)
From Coq Require Import ZArith QArith List Bool Lia Permutation.
Import ListNotations.
From SCK Require Import Voting ScoreProof VoteMore.
Local Open Scope Z_scope.

(* anonymity: any reordering of the voters leaves every score unchanged (all five positional rules) *)
Theorem C11_score_anonymous : forall r k P P' m, Permutation P P' ->
  (forall row, In row P -> length row = m) -> length (nth 0 P []) = m -> length (nth 0 P' []) = m ->
  forall j, (j < m)%nat -> (nth j (score r k P) 0 == nth j (score r k P') 0)%Q.
Proof. exact score_anonymous. Qed.
Print Assumptions C11_score_anonymous.

(* neutrality: renaming the alternatives by sigma permutes the scores by sigma *)
Theorem C11_score_neutral : forall r k P m sigma,
  (forall row, In row P -> length row = m) -> length (nth 0 P []) = m ->
  forall j, (j < m)%nat -> (sigma j < m)%nat ->
  (nth j (score r k (rename sigma m P)) 0 == nth (sigma j) (score r k P) 0)%Q.
Proof. exact score_neutral. Qed.
Print Assumptions C11_score_neutral.

(* two alternatives holding the same multiset of ranks tie *)
Theorem C11_equal_rank_multisets_tie : forall r k P m j j',
  (forall row, In row P -> length row = m) -> length (nth 0 P []) = m ->
  (j < m)%nat -> (j' < m)%nat ->
  Permutation (map (fun row => nth j row 0%Z) P) (map (fun row => nth j' row 0%Z) P) ->
  (nth j (score r k P) 0 == nth j' (score r k P) 0)%Q.
Proof. exact equal_columns_tie. Qed.
Print Assumptions C11_equal_rank_multisets_tie.
