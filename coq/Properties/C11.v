(* C11 — voting rules treat voters and alternatives symmetrically. Statements only. *)
From Coq Require Import ZArith QArith List Bool Lia Permutation.
Import ListNotations.
From SCK Require Import Voting ScoreProof VoteMore CopelandSym.
Local Open Scope Z_scope.

(* anonymity: any reordering of the voters leaves every score unchanged (all five positional rules) *)
Theorem C11_score_anonymous : forall r k P P' m, Permutation P P' ->
  (forall row, In row P -> length row = m) -> length (nth 0 P []) = m -> length (nth 0 P' []) = m ->
  forall j, (j < m)%nat -> (nth j (score r k P) 0 == nth j (score r k P') 0)%Q.
Proof. exact score_anonymous. Qed.
Print Assumptions C11_score_anonymous.

(* neutrality: renaming the alternatives by sigma permutes the scores by sigma *)
Theorem C11_score_neutral : forall r k P m sigma,
  (forall row, In row P -> length row = m) -> length (nth 0 P []) = m ->
  forall j, (j < m)%nat -> (sigma j < m)%nat ->
  (nth j (score r k (rename sigma m P)) 0 == nth (sigma j) (score r k P) 0)%Q.
Proof. exact score_neutral. Qed.
Print Assumptions C11_score_neutral.

(* two alternatives holding the same multiset of ranks tie *)
Theorem C11_equal_rank_multisets_tie : forall r k P m j j',
  (forall row, In row P -> length row = m) -> length (nth 0 P []) = m ->
  (j < m)%nat -> (j' < m)%nat ->
  Permutation (map (fun row => nth j row 0%Z) P) (map (fun row => nth j' row 0%Z) P) ->
  (nth j (score r k P) 0 == nth j' (score r k P) 0)%Q.
Proof. exact equal_columns_tie. Qed.
Print Assumptions C11_equal_rank_multisets_tie.

(* Copeland: anonymity, and neutrality under every permutation sigma of the alternatives *)
Theorem C11_copeland_anonymous : forall P P', Permutation P P' -> length (nth 0 P []) = length (nth 0 P' []) -> copeland P = copeland P'.
Proof. exact copeland_anonymous. Qed.
Print Assumptions C11_copeland_anonymous.
Theorem C11_copeland_neutral : forall P m sigma, (forall row, In row P -> length row = m) -> length (nth 0 P []) = m ->
  Permutation (map sigma (seq 0 m)) (seq 0 m) ->
  forall i, (i < m)%nat -> nth i (copeland (rename sigma m P)) 0 = nth (sigma i) (copeland P) 0.
Proof. exact copeland_neutral. Qed.
Print Assumptions C11_copeland_neutral.
(* STV: the winner does not depend on the order of the voters, for every sequence of tie-break answers *)
Theorem C11_stv_anonymous : forall fuel P P' alts oracle, Permutation P P' -> stv_loop fuel P alts oracle = stv_loop fuel P' alts oracle.
Proof. exact stv_anonymous. Qed.
Print Assumptions C11_stv_anonymous.
(* NOT proved (metamorphic oracle on the implementation only): STV neutrality without elimination ties; symmetry of the
   utilitarian, k-ARV and lambda-PRV scores (sums of real values; exact in the rational models by the same argument). *)
