(* C18 — profile conversions and valuation generators preserve preference information. Statements only.
   Models: ProfModel.v (specification-level: ranks by counting; tied to the code by exact comparison wherever the
   code's result is determined, by validity checkers where numpy's unstable sort / RNG leave it open).
   None = NaN. *)
From Coq Require Import Arith ZArith QArith Qround Qabs List Bool Lia.
Import ListNotations.
From SCK Require Import ProfModel ProfProof ProfGen.
Local Open Scope nat_scope.

(* --- deriving an ordinal profile from valuations --- *)
Theorem C18_ordinal_keeps_nan : forall row j, nth_error (ordinal_row row) j = Some None <-> nth_error row j = Some None.
Proof. exact ordinal_nan_pattern. Qed.
Print Assumptions C18_ordinal_keeps_nan.
Theorem C18_ordinal_higher_value_better_rank : forall row a b x y,
  nth_error row a = Some (Some x) -> nth_error row b = Some (Some y) -> (y < x)%Q ->
  exists ra rb, nth_error (ordinal_row row) a = Some (Some (inject_Z (Z.of_nat ra))) /\
                nth_error (ordinal_row row) b = Some (Some (inject_Z (Z.of_nat rb))) /\ ra < rb.
Proof. exact ordinal_order. Qed.
Print Assumptions C18_ordinal_higher_value_better_rank.
(* the k non-NaN entries get pairwise different ranks inside 1..k, i.e. exactly the ranks 1..k *)
Theorem C18_ordinal_ranks_1_to_k : forall row a x, nth_error row a = Some (Some x) ->
  exists r, nth_error (ordinal_row row) a = Some (Some (inject_Z (Z.of_nat r))) /\ 1 <= r <= somes row /\
  forall b y, nth_error row b = Some (Some y) -> a <> b -> nth_error (ordinal_row row) b <> Some (Some (inject_Z (Z.of_nat r))).
Proof. exact ordinal_ranks. Qed.
Print Assumptions C18_ordinal_ranks_1_to_k.

(* --- breaking ties ('first'; after repair 51f73fb) --- *)
Theorem C18_strictify_keeps_nan : forall row j, nth_error (strict_row row) j = Some None <-> nth_error row j = Some None.
Proof. exact strict_nan_pattern. Qed.
Print Assumptions C18_strictify_keeps_nan.
Theorem C18_strictify_preserves_strict_comparisons : forall row a b x y,
  nth_error row a = Some (Some x) -> nth_error row b = Some (Some y) -> ((x < y)%Q \/ ((x == y)%Q /\ a < b)) ->
  exists ra rb, nth_error (strict_row row) a = Some (Some (inject_Z (Z.of_nat ra))) /\
                nth_error (strict_row row) b = Some (Some (inject_Z (Z.of_nat rb))) /\ ra < rb.
Proof. exact strict_preserves. Qed.
Print Assumptions C18_strictify_preserves_strict_comparisons.
Theorem C18_strictify_result_is_strict : forall row a x, nth_error row a = Some (Some x) ->
  exists r, nth_error (strict_row row) a = Some (Some (inject_Z (Z.of_nat r))) /\ 1 <= r <= somes row /\
  forall b y, nth_error row b = Some (Some y) -> a <> b -> nth_error (strict_row row) b <> Some (Some (inject_Z (Z.of_nat r))).
Proof. exact strict_is_strict. Qed.
Print Assumptions C18_strictify_result_is_strict.

(* --- completing an incomplete profile --- *)
Theorem C18_completion_keeps_existing_ranks : forall accept row j x,
  nth_error row j = Some (Some x) -> nth_error (complete_row accept row) j = Some (Some x).
Proof. exact complete_keeps. Qed.
Print Assumptions C18_completion_keeps_existing_ranks.
Theorem C18_completion_ranks_missing_after : forall accept row j, nth_error row j = Some None ->
  let m := length row in let k := m - somes row in
  exists r, nth_error (complete_row accept row) j = Some (Some (inject_Z (Z.of_nat r))) /\ m - k + 1 <= r /\
  (accept = true -> r = m - k + 1) /\
  (accept = false -> r = m - k + 1 + (j - somes (firstn j row)) /\ r <= m).
Proof. exact complete_fills. Qed.
Print Assumptions C18_completion_ranks_missing_after.

(* --- generators (the draws are an oracle: any list of rationals) --- *)
Theorem C18_generator_keeps_nan : forall clip row draws j, nth_error (gen_row clip row draws) j = Some None <-> nth_error row j = Some None.
Proof. exact gen_nan_pattern. Qed.
Print Assumptions C18_generator_keeps_nan.
Theorem C18_generator_rank_r_gets_rth_largest : forall clip row draws j r, nth_error row j = Some (Some r) ->
  nth_error (gen_row clip row draws) j = Some (Some (nth (Z.to_nat (Qfloor r) - 1) (gen_vals clip draws) 0%Q)).
Proof. exact gen_row_entry. Qed.
Print Assumptions C18_generator_rank_r_gets_rth_largest.
Theorem C18_generator_weakly_decreasing_along_ranking : forall (clip : bool) draws p q,
  (0 < sumq (if clip then clip0 draws else draws))%Q -> p <= q -> q < length draws ->
  (nth q (gen_vals clip draws) 0 <= nth p (gen_vals clip draws) 0)%Q.
Proof. exact gen_monotone. Qed.
Print Assumptions C18_generator_weakly_decreasing_along_ranking.
Theorem C18_generator_nonnegative : forall (clip : bool) draws p,
  (forall x, In x (if clip then clip0 draws else draws) -> (0 <= x)%Q) -> (0 < sumq (if clip then clip0 draws else draws))%Q ->
  (0 <= nth p (gen_vals clip draws) 0)%Q.
Proof. exact gen_nonneg. Qed.
Print Assumptions C18_generator_nonnegative.

(* --- the consistency predicate rejects clear inversions --- *)
Theorem C18_predicate_rejects_clear_inversions : forall prow vrow p q, consistent_row prow vrow = true ->
  length (by_rank prow vrow) = length vrow -> p <= q -> q < length vrow ->
  let x := by_rank prow vrow in let s := sort_desc vrow in
  (nth q x 0 - nth p x 0 <= band (nth p s 0) + band (nth q s 0))%Q.
Proof. exact consistent_rejects_inversions. Qed.
Print Assumptions C18_predicate_rejects_clear_inversions.

(* NOT proved (decided per case by the oracle): the normalised generated values sum to 1 over the row, the
   predicate accepts every generated profile, seed reproducibility (a property of numpy's RNG). *)

(* a generated row sums to one and is accepted by the consistency predicate: for every strict complete row of ranks
   (sigma = the ranks 1..m in some order) and every draw vector whose (clipped) sum is positive *)
Theorem C18_generator_sums_to_one : forall (clip : bool) sigma draws, let u := if clip then clip0 draws else draws in
  (0 < sumq u)%Q -> Permutation.Permutation sigma (seq 1 (length draws)) ->
  (qsum (map valof (gen_row clip (rank_row sigma) draws)) == 1)%Q.
Proof. exact gen_sums_to_one. Qed.
Print Assumptions C18_generator_sums_to_one.
Theorem C18_predicate_accepts_generated : forall (clip : bool) sigma draws, let u := if clip then clip0 draws else draws in
  (0 < sumq u)%Q -> Permutation.Permutation sigma (seq 1 (length draws)) ->
  consistent_row (rank_row sigma) (map valof (gen_row clip (rank_row sigma) draws)) = true.
Proof. exact generated_is_accepted. Qed.
Print Assumptions C18_predicate_accepts_generated.
