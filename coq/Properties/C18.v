(* C18 placeholder: theorems are added in ProfProof.v *)
From SCK Require Import ProfModel.
Theorem C18_placeholder : True. Proof. exact I. Qed.
Print Assumptions C18_placeholder.
