(* C09 — the bipartite matching routine returns a maximum matching. Statements only. *)
From Coq Require Import ZArith List Bool Lia.
Import ListNotations.
From SCK Require Import FlowModel BipModel BipProof BipFinal BipWf.
Local Open Scope Z_scope.

(* For every bipartite graph (left/right vertex lists duplicate-free and disjoint, adjacency lists of
   left vertices duplicate-free and inside the right side; isolated vertices on either side allowed;
   adjacency lists of right vertices — the undirected encoding — are ignored exactly as the code
   ignores them) the pairs read off the maximum flow of the unit network are edges of the graph, no
   vertex occurs twice, and no matching of the graph is larger. *)
Theorem C09_maximum_matching : forall G X Y fuel M,
  wfb G X Y -> max_matching fuel G X Y = Some M ->
  ((forall p, In p M -> In (fst p) X /\ In (snd p) (adj G (fst p))) /\ NoDup (map fst M) /\ NoDup (map snd M)) /\
  forall M', ((forall p, In p M' -> In (fst p) X /\ In (snd p) (adj G (fst p))) /\ NoDup (map fst M') /\ NoDup (map snd M')) ->
             (length M' <= length M)%nat.
Proof. exact C09_max_matching. Qed.
Print Assumptions C09_maximum_matching.

(* the boolean domain predicate evaluated on every explored case implies the theorem's hypothesis *)
Theorem C09_domain_check_sound : forall G X Y, wfbb G X Y = true -> wfb G X Y.
Proof. exact wfbb_sound. Qed.
Print Assumptions C09_domain_check_sound.

(* Non-vacuity: a graph with an isolated left vertex (2) and an isolated right vertex (13). *)
Example C09_nonvacuous :
  let G := [(0, [10; 11]); (1, [10]); (2, []); (10, []); (11, []); (13, [])] in
  wfbb G [0; 1; 2] [10; 11; 13] = true /\ max_matching 4 G [0; 1; 2] [10; 11; 13] = Some [(0, 11); (1, 10)].
Proof. vm_compute. split; reflexivity. Qed.
