(* C02 — Gale-Shapley is optimal for the proposing side. Statements only (vocabulary: see C01.v). *)
From Coq Require Import Arith List Bool Lia.
Import ListNotations.
From SCK Require Import Argsort StrictB DA GS2 GS3 GSInst HInst GSFinal.

(* Resident-oriented: whenever some stable matching mu gives resident p the hospital h, the result
   gives p a hospital h' that is h or comes before h on p's list. In particular p is matched in the
   result whenever it is matched in some stable matching, i.e. unmatched only if unmatched in all. *)
Theorem C02_resident_optimal : forall R H cap fuel out,
  strictb R (length H) = true -> strictb H (length R) = true ->
  gs_res_run R H cap fuel = Some out ->
  forall mu, stableM (i_pl R) (i_rkH H) (fun _ => 1) cap (seq 0 (length H)) mu ->
  forall p h, In p (mu h) ->
  exists h', In p (mu_of_hospital out h') /\ (h' = h \/ before (i_pl R p) h' h).
Proof. exact C02_res_optimal. Qed.
Print Assumptions C02_resident_optimal.

(* Hospital-oriented: whenever the result gives resident r the hospital h, every stable matching mu
   gives r a hospital h' that is h or strictly better for r (so r is matched in every stable matching
   and nowhere worse off than in the result). *)
Theorem C02_resident_pessimal : forall R H cap fuel out,
  strictb R (length H) = true -> strictb H (length R) = true ->
  gs_hosp_run R H cap fuel = Some out ->
  forall mu, stableM (j_pl H) (j_rkR R) cap (fun _ => 1) (seq 0 (length R)) mu ->
  forall r h, In h (mu_of_resident out r) ->
  exists h', In h' (mu r) /\ (h' = h \/ better (j_rkR R) r h' h).
Proof. exact C02_hosp_pessimal. Qed.
Print Assumptions C02_resident_pessimal.

(* Uniqueness: ANY stable matching that is resident-optimal in the above sense coincides with the result. The output is
   therefore a function of the instance alone: renumbering the participants, or processing the free residents in another
   order, can only produce the correspondingly renumbered matching (the equivariance the property states). *)
Theorem C02_resident_optimal_matching_is_unique : forall R H cap fuel out,
  strictb R (length H) = true -> strictb H (length R) = true ->
  gs_res_run R H cap fuel = Some out ->
  forall mu, stableM (i_pl R) (i_rkH H) (fun _ => 1) cap (seq 0 (length H)) mu ->
  (forall nu, stableM (i_pl R) (i_rkH H) (fun _ => 1) cap (seq 0 (length H)) nu ->
     forall p h, In p (nu h) -> exists h', In p (mu h') /\ (h' = h \/ before (i_pl R p) h' h)) ->
  forall p h, In p (mu h) <-> In p (mu_of_hospital out h).
Proof. exact C02_res_unique. Qed.
Print Assumptions C02_resident_optimal_matching_is_unique.
