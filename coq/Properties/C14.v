(* C14 — simulated valuations are sound lower bounds of the true valuations. Statements only. *)
From Coq Require Import ZArith QArith List Bool Lia.
Import ListNotations.
From SCK Require Import ElicitM ElicitRun ElicitEval ElicitBS.
Local Open Scope Z_scope.

(* The binary search used by k-ARV, lambda-TSF and the two-sided rule (positions a..b of agent i's ranking rk,
   threshold tau, values read through a truthful memoising elicitor): the returned position p satisfies
   "p = 0 or value(p) >= tau" and "p+1 = m or value(p+1) < tau" — with values weakly decreasing along the
   ranking this is exactly: positions <= p are >= tau, positions beyond are < tau. *)
Theorem C14_binary_search_postcondition : forall fixer V rk i m tau fuel a b st p st',
  memo_inv V st ->
  run true fixer V (bsearchP fuel rk i a b tau) st = (p, st') ->
  0 <= a -> a < b -> b <= m -> b - a <= Z.of_nat fuel ->
  (a = 0 \/ (tau <= val fixer V rk i a)%Q) -> (b = m \/ (val fixer V rk i b < tau)%Q) ->
  memo_inv V st' /\ a <= p /\ p < b /\ (p = 0 \/ (tau <= val fixer V rk i p)%Q) /\ (p + 1 = m \/ (val fixer V rk i (p + 1) < tau)%Q).
Proof. exact bsearch_spec. Qed.
Print Assumptions C14_binary_search_postcondition.

(* With a truthful memoising elicitor the value computed by ANY query program (hence by every rule) is
   its pure evaluation, a function of the valuation alone — the level-major order in which the code asks
   its questions cannot influence the simulated profile. *)
Theorem C14_run_is_pure_evaluation : forall (A : Type) fixer V (p : prog A) st, memo_inv V st ->
  fst (run true fixer V p st) = eval fixer V p /\ memo_inv V (snd (run true fixer V p st)).
Proof. intros A. exact (@run_eval A). Qed.
Print Assumptions C14_run_is_pure_evaluation.
