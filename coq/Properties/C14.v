(* C14 — simulated valuations are sound lower bounds of the true valuations. Statements only. *)
From Coq Require Import Arith ZArith QArith List Bool Lia.
Import ListNotations.
From SCK Require Import Argsort ElicitM ElicitRun ElicitEval ElicitBS ElicitRules ElicitSpec ElicitSpecProof ElicitFinal ElicitM2Q RootnProof.
Local Open Scope Z_scope.

(* Setting for the three threshold rules (k-ARV: byq = false, init = 0; lambda-TSF: byq = false, init = 1e-5;
   two-sided lambda-TSF, one side: byq = true, init = 0). P is the strict complete profile of 1-based ranks,
   V the valuation behind a truthful memoising elicitor (index shift fixer), tau i l the threshold
   v_i / m^(l/(k+1)) the code computed (an input: the floats are carried as exact rationals).
   Hypotheses: every row of P is a strict complete ranking (strict_rowb, decidable, evaluated per case), V is
   consistent with P (a better rank never has a smaller value), thresholds are non-increasing in the level.
   sim = the simulated profile returned by RUNNING the rule's query program against the elicitor. *)

(* every agent's favourite alternative gets exactly its true value *)
Theorem C14_favourite_exact : forall fixer V P k tau byq init,
  let n := length P in let m := length (nth 0 P []) in
  (1 <= m)%nat ->
  (forall row, In row P -> length row = m /\ strict_rowb row = true) ->
  (forall i j j', (i < n)%nat -> (j < m)%nat -> (j' < m)%nat -> nth j (nth i P []) 0 <= nth j' (nth i P []) 0 -> (Vat fixer V i j' <= Vat fixer V i j)%Q) ->
  (forall i l, (i < n)%nat -> (1 <= l)%nat -> (l < k)%nat -> (tauof tau i (S l) <= tauof tau i l)%Q) ->
  forall i, (i < n)%nat -> forall j, (j < m)%nat -> nth j (nth i P []) 0 = 1 ->
  nth j (srow fixer V P k tau byq init i) 0%Q = Vat fixer V i j.
Proof. exact ElicitFinal.C14_favourite_exact. Qed.
Print Assumptions C14_favourite_exact.

(* every other alternative j of agent i, at position q = rank - 1 >= 1 of its ranking (pst l = the position found
   by the l-th binary search): EITHER j lies in the l-th acceptable set (q <= pst l, q > pst l' for l' < l): then
   its true value is >= tau_l, its simulated value never exceeds its true value, equals tau_l exactly (k-ARV,
   lambda-TSF) resp. the true value at the last position of the set, which is the smallest true value in the
   set (two-sided rule); OR j lies outside all sets: it keeps the initial value (0 resp. the 1e-5 floor) and
   its true value is below the last threshold tau_k. *)
Theorem C14_threshold_sets : forall fixer V P k tau byq init,
  let n := length P in let m := length (nth 0 P []) in
  (1 <= m)%nat ->
  (forall row, In row P -> length row = m /\ strict_rowb row = true) ->
  (forall i j j', (i < n)%nat -> (j < m)%nat -> (j' < m)%nat -> nth j (nth i P []) 0 <= nth j' (nth i P []) 0 -> (Vat fixer V i j' <= Vat fixer V i j)%Q) ->
  (forall i l, (i < n)%nat -> (1 <= l)%nat -> (l < k)%nat -> (tauof tau i (S l) <= tauof tau i l)%Q) ->
  forall i, (i < n)%nat -> forall j, (j < m)%nat -> (1 <= k)%nat ->
  let rk := rank_list (nth i P []) in
  let q := nth j (nth i P []) 0 - 1 in 1 <= q ->
  let pst := ps fixer V rk i (Z.of_nat m) (tauof tau i) in
  (exists l, (1 <= l)%nat /\ (l <= k)%nat /\ q <= pst l /\ (forall l', (1 <= l')%nat -> (l' < l)%nat -> pst l' < q) /\
             (tauof tau i l <= Vat fixer V i j)%Q /\ (nth j (srow fixer V P k tau byq init i) 0%Q <= Vat fixer V i j)%Q /\
             (byq = false -> nth j (srow fixer V P k tau byq init i) 0%Q = tauof tau i l) /\
             (byq = true -> nth j (srow fixer V P k tau byq init i) 0%Q = valp fixer V rk i (pst l) /\
                            forall q', 1 <= q' -> q' <= pst l -> (valp fixer V rk i (pst l) <= valp fixer V rk i q')%Q) /\
             (forall l', (1 <= l')%nat -> (l' < l)%nat -> (Vat fixer V i j < tauof tau i l')%Q)) \/
  (pst k < q /\ nth j (srow fixer V P k tau byq init i) 0%Q = init /\ (Vat fixer V i j < tauof tau i k)%Q).
Proof. exact ElicitFinal.C14_sets. Qed.
Print Assumptions C14_threshold_sets.

(* ingredients *)
Theorem C14_binary_search_postcondition : forall fixer V rk i m tau fuel a b st p st',
  memo_inv V st ->
  run true fixer V (bsearchP fuel rk i a b tau) st = (p, st') ->
  0 <= a -> a < b -> b <= m -> b - a <= Z.of_nat fuel ->
  (a = 0 \/ (tau <= val fixer V rk i a)%Q) -> (b = m \/ (val fixer V rk i b < tau)%Q) ->
  memo_inv V st' /\ a <= p /\ p < b /\ (p = 0 \/ (tau <= val fixer V rk i p)%Q) /\ (p + 1 = m \/ (val fixer V rk i (p + 1) < tau)%Q).
Proof. exact bsearch_spec. Qed.
Print Assumptions C14_binary_search_postcondition.

Theorem C14_run_is_pure_evaluation : forall (A : Type) fixer V (p : prog A) st, memo_inv V st ->
  fst (run true fixer V p st) = eval fixer V p /\ memo_inv V (snd (run true fixer V p st)).
Proof. intros A. exact (@run_eval A). Qed.
Print Assumptions C14_run_is_pure_evaluation.

(* the level-major program of the code computes, agent by agent, the per-agent function the theorems are about *)
Theorem C14_level_major_equals_agent_major : forall fixer V ranked tau byq n m k init,
  eval fixer V (thrP ranked tau byq n m k init) =
  map (fun i => agent_final fixer V (nth i ranked []) i m (tauof tau i) byq init k) (seq 0 n).
Proof. exact thr_rule_pure. Qed.
Print Assumptions C14_level_major_equals_agent_major.

(* Match-TwoQueries: the pure evaluation of its query program is, agent by agent, m2q_row ... *)
Theorem C14_m2q_pure_evaluation : forall fixer V P eps, eval fixer V (m2qP P eps) = map (m2q_row fixer V P eps) (seq 0 (length P)).
Proof. exact m2q_pure. Qed.
Print Assumptions C14_m2q_pure_evaluation.
(* ... and at position q of agent i's ranking (A = the item root_n_serial_dictatorship gives agent i, r = its rank) the
   row holds: the favourite's true value (q = 0), the representative's true value for the representative and for every
   item strictly between (1 <= q <= r-1), and the 1e-5 floor below *)
Theorem C14_m2q_row_contents : forall fixer V P eps,
  let n := length P in let m := length (nth 0 P []) in
  (1 <= m)%nat -> (forall row, In row P -> length row = m /\ strict_rowb row = true) ->
  forall i, (i < n)%nat -> let rk := rank_list (nth i P []) in let A := nth i (rootn_sd P) 0 in
  0 <= A < Z.of_nat m -> let r := nth (Z.to_nat A) (nth i P []) 0 in
  forall q, 0 <= q < Z.of_nat m ->
  nth (Z.to_nat (rkat rk q)) (m2q_row fixer V P eps i) 0%Q =
  if (q =? 0) then Vz fixer V i (rkat rk 0) else if (q <=? r - 1) then Vz fixer V i A else eps.
Proof. exact m2q_row_spec. Qed.
Print Assumptions C14_m2q_row_contents.
(* with a consistent valuation the copied value is a lower bound of the true value of every item it is copied to *)
Theorem C14_m2q_copy_is_lower_bound : forall fixer V P,
  let n := length P in let m := length (nth 0 P []) in
  (1 <= m)%nat -> (forall row, In row P -> length row = m /\ strict_rowb row = true) ->
  forall i, (i < n)%nat -> let rk := rank_list (nth i P []) in let A := nth i (rootn_sd P) 0 in
  0 <= A < Z.of_nat m -> let r := nth (Z.to_nat A) (nth i P []) 0 in
  (forall j j', (j < m)%nat -> (j' < m)%nat -> nth j (nth i P []) 0 <= nth j' (nth i P []) 0 ->
     (Vz fixer V i (Z.of_nat j') <= Vz fixer V i (Z.of_nat j))%Q) ->
  forall q, 0 <= q <= r - 1 -> (Vz fixer V i A <= Vz fixer V i (rkat rk q))%Q.
Proof. exact m2q_copy_is_lower_bound. Qed.
Print Assumptions C14_m2q_copy_is_lower_bound.

(* root_n_serial_dictatorship (the subroutine that picks each agent's representative item) on a square profile: every agent is
   handed an item — the hypothesis 0 <= A < m of the two theorems above always holds there — and no item is handed out more
   than ceil(sqrt n) times: an item given c >= 1 times satisfied (c-1)^2 < n when it was last given *)
Theorem C14_rootn_assigns_everyone : forall P : list (list Z),
  let n := length P in let m := length (nth 0 P []) in
  m = n -> (1 <= n)%nat -> (forall row, In row P -> length row = m) ->
  forall i, (i < n)%nat -> 0 <= nth i (rootn_sd P) 0 < Z.of_nat m.
Proof. exact rootn_sd_item. Qed.
Print Assumptions C14_rootn_assigns_everyone.
Theorem C14_rootn_load_bounded : forall P : list (list Z),
  let n := length P in let m := length (nth 0 P []) in
  m = n -> (1 <= n)%nat -> (forall row, In row P -> length row = m) ->
  forall j, (j < m)%nat -> let c := occ (rootn_sd P) j in c = O \/ (pred c * pred c < n)%nat.
Proof. exact rootn_sd_load. Qed.
Print Assumptions C14_rootn_load_bounded.
(* hence, for square profiles, the contents of the Match-TwoQueries row and the lower-bound property hold outright *)
Theorem C14_m2q_row_contents_square : forall fixer V (P : list (list Z)) eps,
  let n := length P in let m := length (nth 0 P []) in
  m = n -> (1 <= n)%nat -> (forall row, In row P -> length row = m /\ strict_rowb row = true) ->
  forall i, (i < n)%nat -> let rk := rank_list (nth i P []) in let A := nth i (rootn_sd P) 0 in
  let r := nth (Z.to_nat A) (nth i P []) 0 in
  forall q, 0 <= q < Z.of_nat m ->
  nth (Z.to_nat (rkat rk q)) (m2q_row fixer V P eps i) 0%Q =
  if (q =? 0) then Vz fixer V i (rkat rk 0) else if (q <=? r - 1) then Vz fixer V i A else eps.
Proof. exact m2q_row_spec_square. Qed.
Print Assumptions C14_m2q_row_contents_square.
Theorem C14_m2q_copy_is_lower_bound_square : forall fixer V (P : list (list Z)),
  let n := length P in let m := length (nth 0 P []) in
  m = n -> (1 <= n)%nat -> (forall row, In row P -> length row = m /\ strict_rowb row = true) ->
  forall i, (i < n)%nat -> let rk := rank_list (nth i P []) in let A := nth i (rootn_sd P) 0 in
  let r := nth (Z.to_nat A) (nth i P []) 0 in
  (forall j j', (j < m)%nat -> (j' < m)%nat -> nth j (nth i P []) 0 <= nth j' (nth i P []) 0 ->
     (Vz fixer V i (Z.of_nat j') <= Vz fixer V i (Z.of_nat j))%Q) ->
  forall q, 0 <= q <= r - 1 -> (Vz fixer V i A <= Vz fixer V i (rkat rk q))%Q.
Proof. exact m2q_copy_is_lower_bound_square. Qed.
Print Assumptions C14_m2q_copy_is_lower_bound_square.
