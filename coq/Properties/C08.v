(* C08 — Ford-Fulkerson returns a maximum flow and a matching minimum cut.
   This file contains only statements; proofs live in FlowProof/FlowInit/FlowCut/FlowFinal/FlowTerm. *)
From Coq Require Import ZArith List Bool Lia.
Import ListNotations.
From SCK Require Import FlowModel FlowProof FlowInit FlowCut FlowFinal FlowTerm FlowWf.
Local Open Scope Z_scope.

(* Partial correctness of the model of flow.py:7-150 (all-candidates DFS with un-marking, on-demand
   reverse edges, list-rewrite residual updates, reachability closure) for every well-formed network
   and every fuel for which the model returns. *)
Theorem C08_max_flow_min_cut : forall G s t fuel out cut,
  wf_in G -> In s (keys G) -> s <> t ->
  ford_fulkerson fuel G s t = Some (out, cut) ->
  exists fl,
    (* the reported dict lists exactly the edges of G, in dict order, with their net flow *)
    out = flat_map (fun ka => map (fun e => ((fst ka, fst e), fget fl (fst ka, fst e))) (snd ka)) G /\
    (* opposite edges carry opposite net values *)
    (forall x y, fget fl (x, y) = - fget fl (y, x)) /\
    (* capacity *)
    (forall x y, fget fl (x, y) <= cf G x y) /\
    (* conservation off source and sink *)
    (forall x, In x (keys G) -> x <> s -> x <> t -> sumZ (fun y => fget fl (x, y)) (keys G) = 0) /\
    (* the cut *)
    In s cut /\ ~ In t cut /\
    sumZ (fun y => fget fl (s, y)) (keys G) = cutcap (cf G) (keys G) (fun x => memZ x cut) /\
    (* maximality against every feasible net flow *)
    forall g, feasible G s t g -> sumZ (g s) (keys G) <= sumZ (fun y => fget fl (s, y)) (keys G).
Proof. exact C08_ff_correct. Qed.
Print Assumptions C08_max_flow_min_cut.

(* Termination: fuel above the capacity leaving the source never runs out (and the DFS never
   exhausts its own fuel |V|+2), so the out-of-fuel branch excluded above is unreachable. *)
Theorem C08_terminates : forall G s t, wf_in G -> s <> t ->
  forall fuel, sumZ (cf G s) (keys G) < Z.of_nat fuel -> ford_fulkerson fuel G s t <> None.
Proof. exact C08_ff_terminates. Qed.
Print Assumptions C08_terminates.

(* Non-vacuity: a concrete well-formed network (with an opposite edge pair and an edge into s) on
   which the model returns a flow of value 4. *)
Definition ex_G : graph := [(0, [(1, 2); (2, 2)]); (1, [(2, 1); (3, 1); (0, 1)]); (2, [(1, 1); (3, 3)]); (3, [])].
Example C08_nonvacuous :
  ford_fulkerson 6 ex_G 0 3 = Some ([((0,1),2); ((0,2),2); ((1,2),1); ((1,3),1); ((1,0),-2); ((2,1),-1); ((2,3),3)], [0])
  /\ wf_inb ex_G = true.
Proof. vm_compute. split; reflexivity. Qed.
