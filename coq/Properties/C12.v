(* C12 — Copeland and STV follow their definitions. Statements only. *)
From Coq Require Import ZArith List Bool Lia Permutation.
Import ListNotations.
From SCK Require Import Voting VotingProof STVProof VoteMore STVRefine.
Local Open Scope Z_scope.

(* Copeland's score = (number of alternatives beaten) - (number beating) under strict pairwise majority;
   beats P a b := strictly more voters rank a above b than b above a *)
Theorem C12_copeland_definition : forall P i, let m := length (nth 0 P []) in (i < m)%nat ->
  nth i (copeland P) 0 = countb (beats P i) (seq 0 m) - countb (fun j => beats P j i) (seq 0 m).
Proof. exact copeland_spec. Qed.
Print Assumptions C12_copeland_definition.

(* a Condorcet winner has the maximal possible score m-1 and every other alternative scores strictly less *)
Theorem C12_condorcet_unique_copeland_winner : forall P i, let m := length (nth 0 P []) in (i < m)%nat ->
  (forall j, (j < m)%nat -> j <> i -> beats P i j = true) ->
  nth i (copeland P) 0 = Z.of_nat m - 1 /\
  forall j, (j < m)%nat -> j <> i -> nth j (copeland P) 0 < Z.of_nat m - 1.
Proof. exact condorcet_copeland. Qed.
Print Assumptions C12_condorcet_unique_copeland_winner.

(* STV as coded (plurality on the current profile, deletion of the chosen minimal column, in-place
   decrement of the ranks above it), for EVERY sequence of tie-break answers: if the ballots are
   duplicate-free with ranks >= 1 and alternative a (at position q) is ranked first by a strict
   majority, the loop can only return a. *)
Theorem C12_stv_majority_winner : forall fuel P alts oracle q a w,
  SInv P alts q a -> stv_loop fuel P alts oracle = Some w -> w = a.
Proof. exact stv_majority. Qed.
Print Assumptions C12_stv_majority_winner.

(* The coded loop is STV by definition: on complete strict ballots (every row a permutation of 1..m), for EVERY
   sequence of tie-break answers, it returns what stv_spec returns — the loop that works on the ORIGINAL ballots and a
   list rem of remaining alternatives, where the count of the alternative at position a is first_count = the number of
   voters who rank it strictly above every other remaining alternative, one alternative of minimal count is eliminated
   per round (index o into the minimal candidates in increasing position: 0 = 'first'), and the last one wins. *)
Theorem C12_stv_is_restricted_ballot_stv : forall fuel P0 m alts oracle,
  (forall row0, In row0 P0 -> Permutation row0 (map Z.of_nat (seq 1 m))) -> length alts = m ->
  stv_loop fuel P0 alts oracle = stv_spec fuel P0 (seq 0 m) alts oracle.
Proof. exact stv_is_restricted_stv. Qed.
Print Assumptions C12_stv_is_restricted_ballot_stv.

Example C12_nonvacuous :
  SInv [[1; 2; 3]; [1; 3; 2]; [2; 1; 3]] [1; 2; 3] 0 1 /\
  stv_loop 4 [[1; 2; 3]; [1; 3; 2]; [2; 1; 3]] [1; 2; 3] [0%nat; 0%nat; 0%nat] = Some 1.
Proof.
  split; [|vm_compute; reflexivity]. unfold SInv. cbv zeta. split; [|split; [simpl; lia|split; [reflexivity|vm_compute; reflexivity]]].
  intros row [<-|[<-|[<-|[]]]]; (split; [repeat constructor; simpl; intuition lia|split; [reflexivity|simpl; intuition lia]]).
Qed.
