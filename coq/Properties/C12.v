(* C12 — Copeland and STV follow their definitions. Statements only. *)
From Coq Require Import ZArith List Bool Lia.
Import ListNotations.
From SCK Require Import Voting VotingProof STVProof VoteMore.
Local Open Scope Z_scope.

(* Copeland's score = (number of alternatives beaten) - (number beating) under strict pairwise majority;
   beats P a b := strictly more voters rank a above b than b above a *)
Theorem C12_copeland_definition : forall P i, let m := length (nth 0 P []) in (i < m)%nat ->
  nth i (copeland P) 0 = countb (beats P i) (seq 0 m) - countb (fun j => beats P j i) (seq 0 m).
Proof. exact copeland_spec. Qed.
Print Assumptions C12_copeland_definition.

(* a Condorcet winner has the maximal possible score m-1 and every other alternative scores strictly less *)
Theorem C12_condorcet_unique_copeland_winner : forall P i, let m := length (nth 0 P []) in (i < m)%nat ->
  (forall j, (j < m)%nat -> j <> i -> beats P i j = true) ->
  nth i (copeland P) 0 = Z.of_nat m - 1 /\
  forall j, (j < m)%nat -> j <> i -> nth j (copeland P) 0 < Z.of_nat m - 1.
Proof. exact condorcet_copeland. Qed.
Print Assumptions C12_condorcet_unique_copeland_winner.

(* STV as coded (plurality on the current profile, deletion of the chosen minimal column, in-place
   decrement of the ranks above it), for EVERY sequence of tie-break answers: if the ballots are
   duplicate-free with ranks >= 1 and alternative a (at position q) is ranked first by a strict
   majority, the loop can only return a. *)
Theorem C12_stv_majority_winner : forall fuel P alts oracle q a w,
  SInv P alts q a -> stv_loop fuel P alts oracle = Some w -> w = a.
Proof. exact stv_majority. Qed.
Print Assumptions C12_stv_majority_winner.

Example C12_nonvacuous :
  SInv [[1; 2; 3]; [1; 3; 2]; [2; 1; 3]] [1; 2; 3] 0 1 /\
  stv_loop 4 [[1; 2; 3]; [1; 3; 2]; [2; 1; 3]] [1; 2; 3] [0%nat; 0%nat; 0%nat] = Some 1.
Proof.
  split; [|vm_compute; reflexivity]. unfold SInv. cbv zeta. split; [|split; [simpl; lia|split; [reflexivity|vm_compute; reflexivity]]].
  intros row [<-|[<-|[<-|[]]]]; (split; [repeat constructor; simpl; intuition lia|split; [reflexivity|simpl; intuition lia]]).
Qed.
