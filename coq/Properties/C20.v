(* C20 — rules do not modify their inputs and do not depend on the rank dtype. Statements only.
   The theorem content of this property is SMALL and said so: in a functional model "the argument is
   unchanged" holds by construction. What is stated here is the store-passing view of the one routine that
   updated its argument in place; everything else is decided by the runtime monitor of the check
   (argument snapshots around every public call, three rank encodings per call). *)
From Coq Require Import ZArith QArith Qround List Bool Lia.
Import ListNotations.
From SCK Require Import FlowModel BipModel BvN2 Frame.

Theorem C20_bvn_same_decomposition_whatever_aliasing : forall alias ffuel X,
  option_map fst (bvn_store alias ffuel X) = bvn ffuel X.
Proof. exact bvn_store_result. Qed.
Print Assumptions C20_bvn_same_decomposition_whatever_aliasing.

Theorem C20_bvn_frame_with_fresh_copy : forall ffuel X res X', bvn_store false ffuel X = Some (res, X') -> X' = X.
Proof. exact bvn_frame_fresh. Qed.
Print Assumptions C20_bvn_frame_with_fresh_copy.

(* the pinned routine (working matrix aliases the caller's array) is refuted by a 2x2 witness *)
Theorem C20_bvn_aliasing_refuted : exists X res X', bvn_store true 6 X = Some (res, X') /\ X' <> X.
Proof.
  exists [[1#2; 1#2]; [1#2; 1#2]]%Q. eexists. eexists. split; [vm_compute; reflexivity|]. discriminate.
Qed.
Print Assumptions C20_bvn_aliasing_refuted.

Theorem C20_rank_encoding_roundtrip : forall r : Z, Qfloor (inject_Z r) = r.
Proof. exact rank_roundtrip. Qed.
Print Assumptions C20_rank_encoding_roundtrip.
