(* C05 — simultaneous eating returns the outcome of the eating process. Statements only. *)
From Coq Require Import Arith ZArith QArith List Bool Lia.
Import ListNotations.
From SCK Require Import Argsort Eat3 Eat3Proof Eat3Term Eat3Envy EatFinal.
Local Open Scope Q_scope.

(* The model (Eat3.v) IS the eating process in exact rational arithmetic: at every event each agent
   that is not full eats the item at its current position of its argsorted ranking at its speed; the
   step lasts until the first agent is full or the first item being eaten is exhausted; positions
   advance past exhausted items. Proved for every n, every square profile and all positive speeds:
   whenever the process stops, every column and every row of its matrix sums to exactly 1. *)
Theorem C05_bistochastic : forall P speeds Xm, let n := length P in
  (1 <= n)%nat -> (forall row, In row P -> length row = n) -> (forall s, In s speeds -> 0 < s) ->
  eating_run P speeds = Some Xm ->
  (forall j, (j < n)%nat -> sumQ (fun i => nth j (nth i Xm []) 0) (seq 0 n) == 1) /\
  (forall i, (i < n)%nat -> sumQ (fun j => nth j (nth i Xm []) 0) (seq 0 n) == 1).
Proof. exact C05_run_bistochastic. Qed.
Print Assumptions C05_bistochastic.

(* the process stops: on every square profile with positive speeds the model returns a matrix (each event exhausts an
   item or fills an agent, so at most 2n events happen; a state that is not finished always has an agent that is not full) *)
Theorem C05_terminates : forall P speeds, let n := length P in
  (1 <= n)%nat -> (forall row, In row P -> length row = n) -> (forall s, In s speeds -> 0 < s) ->
  exists Xm, eating_run P speeds = Some Xm.
Proof. exact C05_run_terminates. Qed.
Print Assumptions C05_terminates.

(* eating in order: in every state the process passes through, an agent that is not yet full is at a position p of its
   ranking whose item is not exhausted while all items it prefers are, and the next event adds t * speed to exactly
   that entry of its row (and nothing to the others) *)
Theorem C05_eats_most_preferred_available : forall P speeds st i e, let n := length P in
  (1 <= n)%nat -> (forall row, In row P -> length row = n) -> (forall s, In s speeds -> 0 < s) ->
  Eat3Term.reach n (eat_item P) (eat_speed speeds) st -> finished n st = false -> (i < n)%nat -> nth i (eaten st) None = Some e ->
  exists p, nth i (pos st) None = Some p /\ (p < n)%nat /\ nth (eat_item P i p) (rem st) None <> None /\
            (forall q, (q < p)%nat -> nth (eat_item P i q) (rem st) None = None) /\
            forall t j, (j < n)%nat -> step_time n (eat_item P) (eat_speed speeds) st = Some t ->
              E (nextst n (eat_item P) (eat_speed speeds) st t) i j == E st i j + (if (eat_item P i p =? j)%nat then t * eat_speed speeds i else 0).
Proof. exact C05_run_eats_in_order. Qed.
Print Assumptions C05_eats_most_preferred_available.

(* equal speeds (probabilistic serial): for every agent i, every agent k and every q, agent i's row holds at least as
   much of i's q most preferred items as k's row does - no row stochastically dominates i's row w.r.t. i's ranking
   unless all prefix sums are equal *)
Theorem C05_equal_speeds_sd_envy_free : forall P speeds s Xm, let n := length P in
  (1 <= n)%nat -> (forall row, In row P -> length row = n) -> (forall x, In x speeds -> 0 < x) ->
  (forall i, (i < n)%nat -> eat_speed speeds i = s) ->
  eating_run P speeds = Some Xm ->
  forall i k q, (i < n)%nat -> (k < n)%nat -> (q <= n)%nat ->
    sumQ (fun p => nth (eat_item P i p) (nth k Xm []) 0) (seq 0 q) <= sumQ (fun p => nth (eat_item P i p) (nth i Xm []) 0) (seq 0 q).
Proof. exact C05_run_sd_envy_free. Qed.
Print Assumptions C05_equal_speeds_sd_envy_free.

(* NOT PROVED: the binary64 result (with its 1e-9 snapping) stays within 1e-7 of this exact outcome for all inputs -
   decided per explored case by the correspondence (entrywise comparison evaluated in Q inside Coq). *)

Example C05_nonvacuous :
  eating_run [[Some 0; Some 1]; [Some 0; Some 1]]%nat [1; 1] = Some [[1#2; 1#2]; [1#2; 1#2]].
Proof. vm_compute. reflexivity. Qed.
