(* C05 — simultaneous eating returns the outcome of the eating process. Statements only. *)
From Coq Require Import Arith ZArith QArith List Bool Lia.
Import ListNotations.
From SCK Require Import Argsort Eat3 Eat3Proof EatFinal.
Local Open Scope Q_scope.

(* The model (Eat3.v) IS the eating process in exact rational arithmetic: at every event each agent
   that is not full eats the item at its current position of its argsorted ranking at its speed; the
   step lasts until the first agent is full or the first item being eaten is exhausted; positions
   advance past exhausted items. Proved for every n, every square profile and all positive speeds:
   whenever the process stops, every column and every row of its matrix sums to exactly 1. *)
Theorem C05_bistochastic_partial : forall P speeds Xm, let n := length P in
  (1 <= n)%nat -> (forall row, In row P -> length row = n) -> (forall s, In s speeds -> 0 < s) ->
  eating_run P speeds = Some Xm ->
  (forall j, (j < n)%nat -> sumQ (fun i => nth j (nth i Xm []) 0) (seq 0 n) == 1) /\
  (forall i, (i < n)%nat -> sumQ (fun j => nth j (nth i Xm []) 0) (seq 0 n) == 1).
Proof. exact C05_run_bistochastic. Qed.
Print Assumptions C05_bistochastic_partial.

(* NOT YET PROVED (decided per explored case by the correspondence with tolerance 1e-7 and by the
   independent exact-rational oracle): the process stops within 2n events (eating_run never returns
   None on strict complete profiles); with equal speeds no agent's row is stochastically dominated
   by another agent's row; the binary64 result stays within 1e-7 of the exact outcome for all inputs. *)
Definition C05_termination_statement : Prop :=
  forall P speeds, let n := length P in
  (1 <= n)%nat -> (forall row, In row P -> length row = n) -> (forall s, In s speeds -> 0 < s) ->
  eating_run P speeds <> None.

Example C05_nonvacuous :
  eating_run [[Some 0; Some 1]; [Some 0; Some 1]]%nat [1; 1] = Some [[1#2; 1#2]; [1#2; 1#2]].
Proof. vm_compute. reflexivity. Qed.
