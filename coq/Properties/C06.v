(* C06 — the Birkhoff-von Neumann decomposition reconstructs its input. Statements only. *)
From Coq Require Import ZArith QArith List Bool Lia.
Import ListNotations.
From SCK Require Import FlowModel BipModel BvN2 BvN2Proof.
Local Open Scope Q_scope.

(* Exact-rational model of bistochastic.py:24-66 on top of the proved matching model. For every
   non-negative square input and every fuel for which the model returns:
   - X0(i,j) = sum over the returned terms (z, M) of z * [M matches row i with column j]   (contrib)
   - every coefficient is strictly positive,
   - every M matches no row and no column twice and only uses positions where X0 is positive. *)
Theorem C06_reconstructs_partial : forall ffuel X0 res, let n := length X0 in
  (forall i j, (i < n)%nat -> (j < n)%nat -> 0 <= mget X0 i j) ->
  bvn ffuel X0 = Some res ->
  (forall i j, (i < n)%nat -> (j < n)%nat -> mget X0 i j == contrib n res i j) /\
  (forall x, In x res ->
     0 < fst x /\ NoDup (map fst (snd x)) /\ NoDup (map snd (snd x)) /\
     forall p, In p (snd x) -> exists i j, (i < n)%nat /\ (j < n)%nat /\ p = (Z.of_nat i, Z.of_nat (j + n)) /\ 0 < mget X0 i j).
Proof. exact C06_bvn_correct. Qed.
Print Assumptions C06_reconstructs_partial.

(* FULL STATEMENT (what the property asks in addition; decided per explored case by the direct oracle,
   not yet by a theorem): for a matrix whose rows and columns all have the same sum s > 0 every M has
   exactly n pairs (a permutation matrix), there are at most n*n terms, and the coefficients add up to s.
   Missing proof ingredients: Hall's condition for the positivity graph (via the proved max-flow =
   min-cut), and the counting argument that each round zeroes an entry for good. *)
Definition C06_full_statement : Prop :=
  forall ffuel X0 res s, let n := length X0 in
  (forall i j, (i < n)%nat -> (j < n)%nat -> 0 <= mget X0 i j) -> 0 < s ->
  (forall i, (i < n)%nat -> fold_right Qplus 0 (map (mget X0 i) (seq 0 n)) == s) ->
  (forall j, (j < n)%nat -> fold_right Qplus 0 (map (fun i => mget X0 i j) (seq 0 n)) == s) ->
  bvn ffuel X0 = Some res ->
  (length res <= n * n)%nat /\ (forall x, In x res -> length (snd x) = n) /\ fold_right Qplus 0 (map fst res) == s.

Example C06_nonvacuous :
  bvn 6 [[1#2; 1#2]; [1#2; 1#2]] = Some [(1#2, [(0, 3); (1, 2)]%Z); (1#2, [(0, 2); (1, 3)]%Z)].
Proof. vm_compute. reflexivity. Qed.
