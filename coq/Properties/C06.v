(* C06 — the Birkhoff-von Neumann decomposition reconstructs its input. Statements only.
   Exact-rational model of bistochastic.py:24-66 (BvN2.v) on top of the proved matching model (C09 on C08). *)
From Coq Require Import Arith ZArith QArith List Bool Lia.
Import ListNotations.
From SCK Require Import FlowModel BipModel BvN2 BvN2Proof Distortion BvNPerfect BvNFull.
Local Open Scope Q_scope.

(* For every non-negative square input and every fuel for which the model returns:
   X0(i,j) = sum over the returned terms (z, M) of z * [M matches row i with column j]; every coefficient is
   strictly positive; every M matches no row and no column twice and only uses positions where X0 is positive. *)
Theorem C06_reconstructs : forall ffuel X0 res, let n := length X0 in
  (forall i j, (i < n)%nat -> (j < n)%nat -> 0 <= mget X0 i j) ->
  bvn ffuel X0 = Some res ->
  (forall i j, (i < n)%nat -> (j < n)%nat -> mget X0 i j == contrib n res i j) /\
  (forall x, In x res ->
     0 < fst x /\ NoDup (map fst (snd x)) /\ NoDup (map snd (snd x)) /\
     forall p, In p (snd x) -> exists i j, (i < n)%nat /\ (j < n)%nat /\ p = (Z.of_nat i, Z.of_nat (j + n)) /\ 0 < mget X0 i j).
Proof. exact C06_bvn_correct. Qed.
Print Assumptions C06_reconstructs.

(* If moreover X0 is a genuine n x n matrix (n >= 1) whose rows and columns all have the same sum s:
   at most n*n terms; every M has exactly n pairs — together with the previous theorem (no row, no column twice)
   each term is a permutation matrix; the coefficients add up to s.  (Uses Hall's condition for the positivity
   graph, proved from the equal row/column sums, and the max-flow = min-cut theorem of C08.) *)
Theorem C06_permutations_count_and_coefficient_sum : forall ffuel X0 res s, let n := length X0 in
  (1 <= n)%nat -> shape n X0 -> Bal n X0 s -> bvn ffuel X0 = Some res ->
  (length res <= n * n)%nat /\ (forall x, In x res -> length (snd x) = n) /\ sumz res == s.
Proof. exact C06_bvn_full. Qed.
Print Assumptions C06_permutations_count_and_coefficient_sum.

(* every maximum matching of the positivity graph of such a matrix is perfect (the lemma behind the previous theorem) *)
Theorem C06_matchings_are_perfect : forall n X s,
  (forall i j, (i < n)%nat -> (j < n)%nat -> 0 <= mget X i j) ->
  (forall i, (i < n)%nat -> sumQ (fun j => mget X i j) (seq 0 n) == s) ->
  (forall j, (j < n)%nat -> sumQ (fun i => mget X i j) (seq 0 n) == s) -> 0 < s ->
  forall ffuel M, max_matching ffuel (posgraph X n) (xs n) (ys n) = Some M -> length M = n.
Proof. exact posgraph_perfect. Qed.
Print Assumptions C06_matchings_are_perfect.

(* termination: with matching fuel > n the model never runs out of fuel (n*n+2 rounds suffice) *)
Theorem C06_terminates : forall ffuel X0 s, let n := length X0 in
  (1 <= n)%nat -> (n < ffuel)%nat -> shape n X0 -> Bal n X0 s -> bvn ffuel X0 <> None.
Proof. exact C06_bvn_total. Qed.
Print Assumptions C06_terminates.

Example C06_nonvacuous :
  bvn 6 [[1#2; 1#2]; [1#2; 1#2]] = Some [(1#2, [(0, 3); (1, 2)]%Z); (1#2, [(0, 2); (1, 3)]%Z)].
Proof. vm_compute. reflexivity. Qed.
