(* C19 — PrefLib instances are converted faithfully. Statements only.
   Model Preflib.v: an instance is its list of (order, multiplicity), an order being the list of indifference
   classes (lists of 1-based alternative numbers) in the iteration order of the library's own parsed structure;
   col a = a - 1 is the column of alternative a. wf_order: alternatives lie in 1..m and none is listed twice. *)
From Coq Require Import Arith ZArith List Bool Lia.
Import ListNotations.
From SCK Require Import Preflib PreflibProof.
Local Open Scope Z_scope.

(* one row per voter: the number of rows is the sum of the multiplicities ... *)
Theorem C19_one_row_per_voter : forall k pol m votes,
  length (convert k pol m votes) = fold_right (fun v acc => (snd v + acc)%nat) 0%nat votes.
Proof. exact convert_length. Qed.
Print Assumptions C19_one_row_per_voter.
(* ... each distinct order contributes its row as often as its multiplicity, consecutively, in the order of the votes *)
Theorem C19_rows_repeated_by_multiplicity : forall k pol m votes,
  convert k pol m votes = concat (map (fun v => repeat (row_of k pol m (fst v)) (snd v)) votes).
Proof. exact convert_blocks. Qed.
Print Assumptions C19_rows_repeated_by_multiplicity.

(* ToC / ToI / categorical: an alternative listed in the c-th class gets 1 + (number of alternatives in earlier
   classes) under 'accept', plus its index inside the class sorted by alternative number under 'first' *)
Theorem C19_listed_alternative_gets_its_position : forall k pol m order c cls a,
  weak_kind k = true -> wf_order m order -> nth_error order c = Some cls -> In a cls ->
  nth (col a) (row_of k pol m order) None = Some (1 + before order c + offset pol cls a).
Proof. exact row_listed. Qed.
Print Assumptions C19_listed_alternative_gets_its_position.
(* alternatives the voter did not list are NaN (incomplete kinds) *)
Theorem C19_unlisted_alternative_is_nan : forall k pol m order a,
  weak_kind k = true -> wf_order m order -> 1 <= a <= Z.of_nat m -> (forall cls, In cls order -> ~ In a cls) ->
  nth (col a) (row_of k pol m order) None = match k with TOC => Some 0 | _ => None end.
Proof. exact row_unlisted. Qed.
Print Assumptions C19_unlisted_alternative_is_nan.
(* SoC / SoI: the entry of the alternative at place c (0-based) of the strict order is c + 1 *)
Theorem C19_strict_order_positions : forall k m order c a,
  (k = SOC \/ k = SOI) -> (forall cls, In cls order -> exists b, cls = [b]) -> wf_order m order ->
  nth_error order c = Some [a] -> nth (col a) (row_of k Accept m order) None = Some (1 + Z.of_nat c).
Proof. exact row_strict_position. Qed.
Print Assumptions C19_strict_order_positions.
(* an instance of another data type is rejected *)
Theorem C19_wrong_type_rejected : forall want actual pol m votes,
  kind_eqb want actual = false -> convert_checked want actual pol m votes = None.
Proof. exact wrong_type_rejected. Qed.
Print Assumptions C19_wrong_type_rejected.
