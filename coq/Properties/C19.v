(* C19 placeholder: theorems are added in PreflibProof.v *)
From SCK Require Import Preflib.
Theorem C19_placeholder : True. Proof. exact I. Qed.
Print Assumptions C19_placeholder.
