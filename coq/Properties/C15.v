(* C15 — elicitation rules learn values only by asking, within their query budget. Statements only. *)
From Coq Require Import ZArith QArith List Bool Lia.
Import ListNotations.
From SCK Require Import ElicitM ElicitRun ElicitEval ElicitBS ElicitRules ElicitBudget ElicitBudget2.
Local Open Scope Z_scope.

(* Every rule is a query program: it can read the valuation only through Ask. For EVERY program, memoising
   or not, in either index convention: if V' agrees with V on the questions the run against V forwarded, the
   run against V' is identical — same result, same forwarded questions, same counter. *)
Theorem C15_only_asked_values_matter : forall (A : Type) memoize fixer (V V' : key -> Q) (p : prog A) st,
  (forall k, In k (trace (snd (run memoize fixer V p st))) -> V k = V' k) ->
  run memoize fixer V' p st = run memoize fixer V p st.
Proof. intros A. exact (@run_agree A). Qed.
Print Assumptions C15_only_asked_values_matter.

(* Memoising elicitor, for every program (= every sequence of questions, adaptive or not): no question is
   forwarded twice, the counter equals the number of forwarded questions, the table holds exactly the
   forwarded questions with their true answers (an answer 0 included). *)
Theorem C15_memoising_elicitor_invariant : forall (A : Type) fixer V (p : prog A) st,
  memo_inv V st -> memo_inv V (snd (run true fixer V p st)).
Proof. intros A. exact (@run_memo_inv A). Qed.
Print Assumptions C15_memoising_elicitor_invariant.
Theorem C15_repeated_question_same_answer : forall fixer V st k, memo_inv V st ->
  memo_inv V (fst (elicit true fixer V st k)) /\ snd (elicit true fixer V st k) = V (fst k + fixer, snd k + fixer).
Proof. exact elicit_memo_inv. Qed.
Print Assumptions C15_repeated_question_same_answer.

(* A binary search over an interval of width w forwards at most ceil(log2 w) questions. *)
Theorem C15_binary_search_budget : forall fixer V rk i tau fuel a b st p st',
  run true fixer V (bsearchP fuel rk i a b tau) st = (p, st') ->
  a < b -> (Z.of_nat (cnt st') <= Z.of_nat (cnt st) + Z.log2_up (b - a)).
Proof. exact bsearch_queries. Qed.
Print Assumptions C15_binary_search_budget.

(* k-ARV and lambda-TSF as run against a memoising elicitor from its initial state: agent a (numbered as the callback
   sees it) is forwarded at most 1 + k * ceil(log2 m) questions, no question is forwarded twice, and the counter
   equals the number of forwarded questions. *)
Theorem C15_threshold_rule_budget : forall fixer V P k tau init a vt est',
  let m := Z.of_nat (length (nth 0 P [])) in 1 <= m ->
  run true fixer V (thr_rule P k tau false init) einit = (vt, est') ->
  Z.of_nat (acnt a est') <= 1 + Z.of_nat k * Z.log2_up m /\ NoDup (trace est') /\ cnt est' = length (trace est').
Proof. exact thr_rule_budget. Qed.
Print Assumptions C15_threshold_rule_budget.

(* each side of the two-sided rule (byquery = true): its extra question at the found position is always answered from
   the table, so the bound is the same *)
Theorem C15_two_sided_rule_budget : forall fixer V P k tau init a vt est',
  let m := Z.of_nat (length (nth 0 P [])) in 1 <= m ->
  run true fixer V (thr_rule P k tau true init) einit = (vt, est') ->
  Z.of_nat (acnt a est') <= 1 + Z.of_nat k * Z.log2_up m.
Proof. exact double_side_budget. Qed.
Print Assumptions C15_two_sided_rule_budget.

(* lambda-PRV forwards at most lambda questions to each voter, Match-TwoQueries at most 2 to each agent *)
Theorem C15_prv_budget : forall fixer V P lam a sc est',
  run true fixer V (prvP P lam) einit = (sc, est') -> (acnt a est' <= lam)%nat.
Proof. exact prv_budget. Qed.
Print Assumptions C15_prv_budget.
Theorem C15_match_two_queries_budget : forall fixer V P eps a vt est',
  run true fixer V (m2qP P eps) einit = (vt, est') -> (acnt a est' <= 2)%nat.
Proof. exact m2q_budget. Qed.
Print Assumptions C15_match_two_queries_budget.
