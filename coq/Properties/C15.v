(* C15 — elicitation rules learn values only by asking, within their query budget. Statements only. *)
From Coq Require Import ZArith QArith List Bool Lia.
Import ListNotations.
From SCK Require Import ElicitM ElicitRun ElicitEval ElicitBS.
Local Open Scope Z_scope.

(* Every rule is a query program: it can read the valuation only through Ask. For EVERY program, memoising
   or not, in either index convention: if V' agrees with V on the questions the run against V forwarded, the
   run against V' is identical — same result, same forwarded questions, same counter. *)
Theorem C15_only_asked_values_matter : forall (A : Type) memoize fixer (V V' : key -> Q) (p : prog A) st,
  (forall k, In k (trace (snd (run memoize fixer V p st))) -> V k = V' k) ->
  run memoize fixer V' p st = run memoize fixer V p st.
Proof. intros A. exact (@run_agree A). Qed.
Print Assumptions C15_only_asked_values_matter.

(* Memoising elicitor, for every program (= every sequence of questions, adaptive or not): no question is
   forwarded twice, the counter equals the number of forwarded questions, the table holds exactly the
   forwarded questions with their true answers (an answer 0 included). *)
Theorem C15_memoising_elicitor_invariant : forall (A : Type) fixer V (p : prog A) st,
  memo_inv V st -> memo_inv V (snd (run true fixer V p st)).
Proof. intros A. exact (@run_memo_inv A). Qed.
Print Assumptions C15_memoising_elicitor_invariant.
Theorem C15_repeated_question_same_answer : forall fixer V st k, memo_inv V st ->
  memo_inv V (fst (elicit true fixer V st k)) /\ snd (elicit true fixer V st k) = V (fst k + fixer, snd k + fixer).
Proof. exact elicit_memo_inv. Qed.
Print Assumptions C15_repeated_question_same_answer.

(* A binary search over an interval of width w forwards at most ceil(log2 w) questions. *)
Theorem C15_binary_search_budget : forall fixer V rk i tau fuel a b st p st',
  run true fixer V (bsearchP fuel rk i a b tau) st = (p, st') ->
  a < b -> (Z.of_nat (cnt st') <= Z.of_nat (cnt st) + Z.log2_up (b - a)).
Proof. exact bsearch_queries. Qed.
Print Assumptions C15_binary_search_budget.
