From Coq Require Import ZArith QArith List Bool Lia Lqa Permutation Sorted.
Import ListNotations.
From SCK Require Import Voting VoteExt.
Local Open Scope Z_scope.

(* ---------- break_tie (utils.py:204-211) ---------- *)
Theorem break_tie_spec alts t inc o :
  match t with
  | TAccept => break_tie alts t inc o = if inc then OList alts else OErr
  | TFirst => break_tie alts t inc o = match alts with a :: _ => OOne a | [] => OErr end
  | TRandom => (forall a, break_tie alts t inc o = OOne a -> In a alts) /\
               ((o < length alts)%nat -> exists a, break_tie alts t inc o = OOne a)
  end.
Proof.
  destruct t; cbn [break_tie]; try reflexivity. split.
  - intros a H. destruct (nth_error alts o) as [x|] eqn:E; [|discriminate]. injection H as <-. eapply nth_error_In; exact E.
  - intros Ho. destruct (nth_error alts o) as [x|] eqn:E; [exists x; reflexivity|]. apply nth_error_None in E. lia.
Qed.

(* ---------- index convention: a +1 shift of every reported alternative and nothing else ---------- *)
Theorem winners_index_shift s : winners s 1 = map (fun z => z + 1) (winners s 0).
Proof.
  unfold winners. destruct s as [|x t]; [reflexivity|]. rewrite map_map. apply map_ext. intros p. lia.
Qed.

(* winners are listed in strictly increasing order *)
Lemma filter_combine_seq_sorted {A} (f : A * nat -> bool) (l : list A) s :
  StronglySorted lt (map snd (filter f (combine l (seq s (length l))))).
Proof.
  revert s. induction l as [|x t IH]; intros s; simpl; [constructor|].
  destruct (f (x, s)); simpl; [|apply IH]. constructor; [apply IH|].
  rewrite Forall_forall. intros j Hj. apply in_map_iff in Hj as [[v i] [<- Hin]]. apply filter_In in Hin as [Hin _].
  apply in_combine_r in Hin. apply in_seq in Hin. simpl. lia.
Qed.
Theorem winners_ascending s fixer : StronglySorted Z.lt (winners s fixer).
Proof.
  unfold winners. destruct s as [|x t]; [constructor|]. set (mx := maxQ t x).
  pose proof (filter_combine_seq_sorted (fun p => Qeq_bool (fst p) mx) (x :: t) 0) as H.
  set (L := filter (fun p => Qeq_bool (fst p) mx) (combine (x :: t) (seq 0 (length (x :: t))))) in *.
  clearbody L. induction L as [|p r IH]; simpl; [constructor|]. inversion H as [|? ? Hs Hf]; subst. constructor; [apply IH; exact Hs|].
  rewrite Forall_forall in *. intros z Hz. apply in_map_iff in Hz as [q [<- Hq]].
  assert (Hq' : In (snd q) (map snd r)) by (apply in_map; exact Hq). specialize (Hf _ Hq'). lia.
Qed.

(* ---------- ranking checker (swf) ---------- *)
Lemma nonincrQ_sound l : nonincrQ l = true -> forall i x y, nth_error l i = Some x -> nth_error l (S i) = Some y -> (y <= x)%Q.
Proof.
  induction l as [|a t IH]; intros H i x y Hx Hy; [destruct i; discriminate|].
  destruct t as [|b t']; [destruct i; simpl in Hy; [discriminate|destruct i; discriminate]|].
  cbn [nonincrQ] in H. apply andb_prop in H as [H1 H2]. destruct i as [|i].
  - simpl in Hx, Hy. injection Hx as <-. injection Hy as <-. apply Qle_bool_iff. exact H1.
  - apply (IH H2 i x y); assumption.
Qed.

Theorem ranking_ok_sound s fixer alts scs : ranking_ok s fixer alts scs = true ->
  let a0 := map (fun a => Z.to_nat (a - fixer)) alts in
  Permutation (seq 0 (length s)) a0 /\
  (forall a, In a alts -> fixer <= a) /\
  (forall i j v, nth_error a0 i = Some j -> nth_error scs i = Some v -> exists w, nth_error s j = Some w /\ (w == v)%Q) /\
  (forall i x y, nth_error scs i = Some x -> nth_error scs (S i) = Some y -> (y <= x)%Q).
Proof.
  unfold ranking_ok. intros H. cbv zeta in H |- *.
  repeat match type of H with (_ && _ = true) => let H2 := fresh "H" in apply andb_prop in H as [H H2] end.
  apply Nat.eqb_eq in H. set (a0 := map (fun a => Z.to_nat (a - fixer)) alts) in *.
  split; [|split; [|split]].
  - apply NoDup_Permutation_bis; [apply seq_NoDup|unfold a0; rewrite map_length, seq_length; lia|].
    intros j Hj. match goal with K : forallb (fun j => existsb (Nat.eqb j) a0) _ = true |- _ => rewrite forallb_forall in K; specialize (K j Hj); apply existsb_exists in K as [y [Hy E]] end.
    apply Nat.eqb_eq in E. subst. exact Hy.
  - intros a Ha. match goal with K : forallb (fun a => fixer <=? a) alts = true |- _ => rewrite forallb_forall in K; specialize (K a Ha); apply Z.leb_le in K; exact K end.
  - intros i j v Hi Hv.
    match goal with K : forallb _ (combine a0 scs) = true |- _ => rewrite forallb_forall in K; rename K into HK end.
    assert (Hin : In (j, v) (combine a0 scs)).
    { clear -Hi Hv. revert i scs Hi Hv. induction a0 as [|a t IH]; intros i scs Hi Hv; [destruct i; discriminate|].
      destruct scs as [|b u]; [destruct i; discriminate|]. destruct i; simpl in *.
      - injection Hi as ->. injection Hv as ->. now left.
      - right. eapply IH; eassumption. }
    specialize (HK _ Hin). cbn [fst snd] in HK. destruct (nth_error s j) as [w|]; [|discriminate]. exists w. split; [reflexivity|]. apply Qeq_bool_iff. exact HK.
  - apply nonincrQ_sound. assumption.
Qed.

(* ---------- probabilities handed to the sampler ---------- *)
Lemma sumQl_acc l : forall a, (fold_left (fun acc x => Qred (acc + x)) l a == a + sumQl l)%Q.
Proof.
  unfold sumQl. induction l as [|x t IH]; intros a; cbn [fold_left]; [lra|]. rewrite IH. rewrite (IH (Qred (0 + x))). rewrite !Qred_correct. lra.
Qed.
Lemma sumQl_cons x t : (sumQl (x :: t) == x + sumQl t)%Q.
Proof. unfold sumQl at 1. cbn [fold_left]. rewrite sumQl_acc. rewrite Qred_correct. lra. Qed.
Lemma sumQl_nonneg l : (forall x, In x l -> 0 <= x)%Q -> (0 <= sumQl l)%Q.
Proof.
  induction l as [|x t IH]; intros H; [unfold sumQl; cbn [fold_left]; lra|]. rewrite sumQl_cons.
  assert (0 <= x)%Q by (apply H; now left). assert (0 <= sumQl t)%Q by (apply IH; intros y Hy; apply H; now right). lra.
Qed.

Theorem rand_probs_spec s j x : nth_error s j = Some x ->
  exists p, nth_error (rand_probs s) j = Some p /\ (p == x / sumQl s)%Q.
Proof.
  intros H. unfold rand_probs. exists (Qred (x / sumQl s)). split; [|apply Qred_correct].
  rewrite nth_error_map, H. reflexivity.
Qed.

(* an index the sampler may return (positive probability) has positive score, and conversely *)
Theorem rand_support s j x p : (forall y, In y s -> 0 <= y)%Q -> (0 < sumQl s)%Q ->
  nth_error s j = Some x -> nth_error (rand_probs s) j = Some p -> ((0 < p)%Q <-> (0 < x)%Q).
Proof.
  intros Hnn Hpos Hx Hp. destruct (rand_probs_spec s j x Hx) as [p' [Hp' E]]. rewrite Hp in Hp'. injection Hp' as <-.
  rewrite E. split; intros H.
  - destruct (Qlt_le_dec 0 x) as [L|L]; [exact L|exfalso].
    assert (x / sumQl s <= 0)%Q. { unfold Qdiv. assert (0 < / sumQl s)%Q by (apply Qinv_lt_0_compat; exact Hpos). nra. } lra.
  - unfold Qdiv. assert (0 < / sumQl s)%Q by (apply Qinv_lt_0_compat; exact Hpos). nra.
Qed.

Lemma sum_map_div l t : ~ (t == 0)%Q -> (sumQl (map (fun x => Qred (x / t)) l) == sumQl l / t)%Q.
Proof.
  intros Ht. induction l as [|x r IH]; [unfold sumQl; cbn [map fold_left]; field; exact Ht|].
  cbn [map]. rewrite !sumQl_cons, IH, Qred_correct. field. exact Ht.
Qed.
Theorem rand_probs_sum_one s : (0 < sumQl s)%Q -> (sumQl (rand_probs s) == 1)%Q.
Proof.
  intros H. unfold rand_probs. rewrite sum_map_div by lra. field. lra.
Qed.
