(* C03/C17 (f): boolean checkers for "perfect, stable, and of maximum total value among ALL stable matchings",
   proved sound and complete for the property's statement; evaluated by the kernel on explored outputs. *)
From Coq Require Import Arith ZArith List Bool Lia Permutation.
Import ListNotations.

Section SM.
Variables (P1 P2 : list (list nat)).      (* 0-based ranks: P1 m w, P2 w m *)
Variables (V1 V2 : list (list Z)).
Variable n : nat.
Definition rk (P : list (list nat)) (a b : nat) : nat := nth b (nth a P []) 0.
Definition vl (V : list (list Z)) (a b : nat) : Z := nth b (nth a V []) 0%Z.

(* a perfect matching as the list sigma of wives: man m is married to nth m sigma *)
Definition perfect (sigma : list nat) : Prop := Permutation sigma (seq 0 n).
Definition husband (sigma : list nat) (w : nat) : nat :=
  match find (fun m => Nat.eqb (nth m sigma 0) w) (seq 0 n) with Some m => m | None => 0 end.
Definition blocking (sigma : list nat) (m w : nat) : Prop :=
  m < n /\ w < n /\ rk P1 m w < rk P1 m (nth m sigma 0) /\ rk P2 w m < rk P2 w (husband sigma w).
Definition stable (sigma : list nat) : Prop := perfect sigma /\ forall m w, ~ blocking sigma m w.
Definition value (sigma : list nat) : Z :=
  fold_right Z.add 0%Z (map (fun m => Z.add (vl V1 m (nth m sigma 0)) (vl V2 (nth m sigma 0) m)) (seq 0 n)).

Fixpoint nodupb (l : list nat) : bool := match l with [] => true | x :: r => negb (existsb (Nat.eqb x) r) && nodupb r end.
Definition perfect_b (sigma : list nat) : bool := (length sigma =? n) && forallb (fun x => x <? n) sigma && nodupb sigma.
Definition blocking_b (sigma : list nat) (m w : nat) : bool :=
  (rk P1 m w <? rk P1 m (nth m sigma 0)) && (rk P2 w m <? rk P2 w (husband sigma w)).
Definition stable_b (sigma : list nat) : bool :=
  perfect_b sigma && forallb (fun m => forallb (fun w => negb (blocking_b sigma m w)) (seq 0 n)) (seq 0 n).

Lemma nodupb_iff l : nodupb l = true <-> NoDup l.
Proof.
  induction l as [|x r IH]; simpl; [split; [constructor|reflexivity]|]. rewrite andb_true_iff, IH, negb_true_iff. split.
  - intros [H1 H2]. constructor; [|exact H2]. intros Hin.
    assert (existsb (Nat.eqb x) r = true) by (apply existsb_exists; exists x; split; [exact Hin|apply Nat.eqb_refl]). congruence.
  - intros H. inversion H; subst. split; [|assumption]. destruct (existsb (Nat.eqb x) r) eqn:E; [|reflexivity].
    apply existsb_exists in E as [y [Hy E]]. apply Nat.eqb_eq in E. subst. contradiction.
Qed.
Lemma perfect_b_iff sigma : perfect_b sigma = true <-> perfect sigma.
Proof.
  unfold perfect_b, perfect. rewrite !andb_true_iff, Nat.eqb_eq, forallb_forall, nodupb_iff. split.
  - intros [[H1 H2] H3]. apply NoDup_Permutation_bis; [exact H3|rewrite seq_length; lia|].
    intros x Hx. apply in_seq. specialize (H2 x Hx). apply Nat.ltb_lt in H2. lia.
  - intros H. split; [split|].
    + rewrite (Permutation_length H). apply seq_length.
    + intros x Hx. apply (Permutation_in _ H) in Hx. apply in_seq in Hx. apply Nat.ltb_lt. lia.
    + apply (Permutation_NoDup (Permutation_sym H)). apply seq_NoDup.
Qed.
Theorem stable_b_iff sigma : stable_b sigma = true <-> stable sigma.
Proof.
  unfold stable_b, stable. rewrite andb_true_iff, perfect_b_iff. split; intros [Hp H]; (split; [exact Hp|]).
  - intros m w [Hm [Hw [B1 B2]]]. rewrite forallb_forall in H. specialize (H m (proj2 (in_seq _ _ _) (conj (Nat.le_0_l _) Hm))).
    rewrite forallb_forall in H. specialize (H w (proj2 (in_seq _ _ _) (conj (Nat.le_0_l _) Hw))).
    unfold blocking_b in H. apply negb_true_iff in H. apply andb_false_iff in H. destruct H as [H|H]; apply Nat.ltb_ge in H; lia.
  - apply forallb_forall. intros m Hm. apply forallb_forall. intros w Hw. apply in_seq in Hm. apply in_seq in Hw.
    apply negb_true_iff. destruct (blocking_b sigma m w) eqn:E; [|reflexivity]. exfalso. unfold blocking_b in E.
    apply andb_true_iff in E as [E1 E2]. apply Nat.ltb_lt in E1. apply Nat.ltb_lt in E2. apply (H m w). unfold blocking. repeat split; lia.
Qed.

(* all permutations of a list *)
Fixpoint ins_all (x : nat) (l : list nat) : list (list nat) :=
  match l with [] => [[x]] | y :: r => (x :: l) :: map (cons y) (ins_all x r) end.
Fixpoint perms (l : list nat) : list (list nat) :=
  match l with [] => [[]] | x :: r => flat_map (ins_all x) (perms r) end.
Lemma ins_all_spec x l l' : In l' (ins_all x l) <-> exists a b, l = a ++ b /\ l' = a ++ x :: b.
Proof.
  revert l'. induction l as [|y r IH]; intros l'; simpl.
  - split; [intros [<-|[]]; exists [], []; split; reflexivity|intros [a [b [E ->]]]; destruct a; [destruct b; [now left|discriminate]|discriminate]].
  - split.
    + intros [<-|H]; [exists [], (y :: r); split; reflexivity|]. apply in_map_iff in H as [l0 [<- H]]. apply IH in H as [a [b [-> ->]]].
      exists (y :: a), b. split; reflexivity.
    + intros [a [b [E ->]]]. destruct a as [|z a]; simpl in *; [subst b; now left|]. injection E as <- ->. right. apply in_map_iff.
      exists (a ++ x :: b). split; [reflexivity|]. apply IH. exists a, b. split; reflexivity.
Qed.
Lemma perms_complete l l' : Permutation l' l -> In l' (perms l).
Proof.
  revert l'. induction l as [|x r IH]; intros l' H; simpl.
  - apply Permutation_sym, Permutation_nil in H. subst. now left.
  - assert (Hin : In x l') by (apply (Permutation_in _ (Permutation_sym H)); now left).
    apply in_split in Hin as [a [b ->]]. apply in_flat_map. exists (a ++ b). split.
    + apply IH. apply Permutation_cons_inv with (a := x). rewrite <- H. apply Permutation_middle.
    + apply ins_all_spec. exists a, b. split; reflexivity.
Qed.

Definition optimal_b (sigma : list nat) : bool :=
  stable_b sigma && forallb (fun tau => negb (stable_b tau) || (value tau <=? value sigma)%Z) (perms (seq 0 n)).

(* the property's statement for one output: perfect, stable, and no stable matching has a larger total value *)
Theorem optimal_b_sound sigma : optimal_b sigma = true ->
  stable sigma /\ forall tau, stable tau -> (value tau <= value sigma)%Z.
Proof.
  unfold optimal_b. rewrite andb_true_iff. intros [Hs H]. split; [apply stable_b_iff; exact Hs|].
  intros tau Ht. rewrite forallb_forall in H. specialize (H tau (perms_complete _ _ (proj1 Ht))).
  apply orb_true_iff in H. destruct H as [H|H]; [apply negb_true_iff in H; apply stable_b_iff in Ht; congruence|apply Z.leb_le; exact H].
Qed.
End SM.

(* from the list of pairs (man, woman) returned by the rule to the list of wives *)
Definition wives (n : nat) (M : list (nat * nat)) : list nat :=
  map (fun m => match find (fun p => Nat.eqb (fst p) m) M with Some p => snd p | None => n end) (seq 0 n).
Definition opt_case : Type := (list (list nat) * list (list nat) * list (list Z) * list (list Z) * list (nat * nat))%type.
Definition chk_opt (c : opt_case) : bool :=
  let '(P1, P2, V1, V2, M) := c in
  let n := length P1 in
  (length M =? n) && nodupb (map fst M) && optimal_b P1 P2 V1 V2 n (wives n M).
