From Coq Require Import ZArith QArith List Bool Lia.
Import ListNotations.
Local Open Scope Z_scope.

(* ---------- scoring rules (deterministic_scoring.py) ---------- *)
Inductive rule := Plurality | Borda | Veto | KApproval | Harmonic.
Definition weight (r : rule) (m k rank : Z) : Q :=
  match r with
  | Plurality => if rank =? 1 then 1%Q else 0%Q
  | Borda => inject_Z (m - rank)
  | Veto => if rank <? m then 1%Q else 0%Q
  | KApproval => if rank <=? k then 1%Q else 0%Q
  | Harmonic => (1 # Z.to_pos rank)%Q
  end.
Fixpoint vaddQ (a b : list Q) : list Q := match a, b with x :: xs, y :: ys => Qred (x + y) :: vaddQ xs ys | _, _ => [] end.
Definition score (r : rule) (k : Z) (P : list (list Z)) : list Q :=
  let m := Z.of_nat (length (nth 0 P [])) in
  fold_left (fun acc row => vaddQ acc (map (weight r m k) row)) P (repeat 0%Q (Z.to_nat m)).

(* BaseScoring.scf / swf and utils.break_tie *)
Fixpoint maxQ (l : list Q) (d : Q) : Q := match l with [] => d | x :: t => maxQ t (if Qle_bool d x then x else d) end.
Definition winners (s : list Q) (fixer : Z) : list Z :=
  match s with [] => [] | x :: t => let mx := maxQ t x in
  map (fun p => Z.of_nat (snd p) + fixer) (filter (fun p => Qeq_bool (fst p) mx) (combine s (seq 0 (length s)))) end.
Inductive tb := TRandom | TFirst | TAccept.
Inductive outcome := OList (l : list Z) | OOne (z : Z) | OErr.
Definition break_tie (alts : list Z) (t : tb) (include_accept : bool) (oracle : nat) : outcome :=
  match t with
  | TRandom => match nth_error alts oracle with Some a => OOne a | None => OErr end
  | TFirst => match alts with a :: _ => OOne a | [] => OErr end
  | TAccept => if include_accept then OList alts else OErr
  end.

(* ---------- Copeland (deterministic_tournament.py:101-113) ---------- *)
Definition sgn (z : Z) : Z := if z >? 0 then 1 else if z <? 0 then -1 else 0.
Definition sumZl (l : list Z) : Z := fold_left Z.add l 0.
Definition copeland (P : list (list Z)) : list Z :=
  let m := length (nth 0 P []) in
  map (fun i => sumZl (map (fun j => sgn (sumZl (map (fun row => sgn (nth j row 0 - nth i row 0)) P))) (seq 0 m))) (seq 0 m).

(* ---------- STV (deterministic_multiround.py:55-68) ---------- *)
Definition plurality_counts (P : list (list Z)) (m : nat) : list Z :=
  map (fun j => sumZl (map (fun row => if nth j row 0 =? 1 then 1 else 0) P)) (seq 0 m).
Fixpoint minZ (l : list Z) (d : Z) : Z := match l with [] => d | x :: t => minZ t (Z.min d x) end.
Fixpoint remove_nth {A} (l : list A) (i : nat) : list A :=
  match l, i with [], _ => [] | _ :: t, O => t | x :: t, S j => x :: remove_nth t j end.
Definition drop_alt (P : list (list Z)) (d : nat) : list (list Z) :=
  map (fun row => let rd := nth d row 0 in map (fun r => if r >? rd then r - 1 else r) (remove_nth row d)) P.
Fixpoint stv_loop (fuel : nat) (P : list (list Z)) (alts : list Z) (oracle : list nat) : option Z :=
  match fuel with O => None | S f =>
    match alts with
    | [a] => Some a
    | _ =>
      let sc := plurality_counts P (length alts) in
      let mn := match sc with x :: t => minZ t x | [] => 0 end in
      let cands := map snd (filter (fun p => fst p =? mn) (combine sc (seq 0 (length sc)))) in
      match oracle with
      | [] => None
      | o :: os => match nth_error cands o with
                   | Some d => stv_loop f (drop_alt P d) (remove_nth alts d) os
                   | None => None end
      end
    end
  end.
(* tie-breaker "first" = oracle answers 0 every time *)
Definition stv_first (P : list (list Z)) (fixer : Z) : option Z :=
  let m := length (nth 0 P []) in
  stv_loop (S m) P (map (fun j => Z.of_nat j + fixer) (seq 0 m)) (repeat O m).

(* ---------- checks used by the spike ---------- *)
Definition lq_close (a b : list Q) : bool :=
  (length a =? length b)%nat && forallb (fun p => Qle_bool (fst p - snd p) (1 # 1000000000) && Qle_bool (snd p - fst p) (1 # 1000000000)) (combine a b).
Definition lz_eqb (a b : list Z) : bool := (length a =? length b)%nat && forallb (fun p => fst p =? snd p) (combine a b).
Definition vcheck (c : list (list Z) * Z * Z * list (list Q) * list Z * list Z * Z * list Z) : nat :=
  let '(P, k, fixer, escores, ewin_borda, ecop, estv, ewin_cop) := c in
  let rules := [Plurality; Borda; Veto; KApproval; Harmonic] in
  if negb (forallb (fun re => lq_close (score (fst re) k P) (snd re)) (combine rules escores)) then 1%nat
  else if negb (lz_eqb (winners (score Borda k P) fixer) ewin_borda) then 2%nat
  else if negb (lz_eqb (copeland P) ecop) then 3%nat
  else if negb (match stv_first P fixer with Some w => w =? estv | None => false end) then 4%nat
  else if negb (lz_eqb (winners (map inject_Z (copeland P)) fixer) ewin_cop) then 5%nat
  else 0%nat.
Fixpoint vmism (i : nat) (cs : list _) : list (nat * nat) :=
  match cs with [] => [] | c :: r => match vcheck c with O => vmism (S i) r | e => (i, e) :: vmism (S i) r end end.
