(* Correspondence checkers for RandomSerialDictatorship.scf and the eating lottery (C07). *)
From Coq Require Import ZArith QArith List Bool.
Import ListNotations.
From SCK Require Import Argsort RSD Eat3 EatFinal FlowWf.
Local Open Scope Z_scope.

Definition rsd_case : Type := (list (list (option Z)) * list nat * Z * list (option Z))%type.
Fixpoint nodupn (l : list nat) : bool := match l with [] => true | x :: r => negb (memn x r) && nodupn r end.
Definition chk_rsd (c : rsd_case) : bool :=
  let '(P, order, fixer, e) := c in
  nodupn order && forallb (fun a => (a <? length P)%nat) order && alloc_eqb (rsd P order fixer) e.

(* lottery: (profile of 0-based ranks, speeds, item received by each agent): every agent's item has a
   positive entry in the model's exact eating matrix, and no item is given twice *)
Definition lot_case : Type := (list (list okey) * list Q * list nat)%type.
Definition chk_lot (c : lot_case) : bool :=
  let '(P, speeds, alloc) := c in
  nodupn alloc && (length alloc =? length P)%nat &&
  match eating_run P speeds with
  | Some X0 => forallb (fun ij => negb (Qle_bool (nth (snd ij) (nth (fst ij) X0 []) 0%Q) 0%Q)) (combine (seq 0 (length P)) alloc)
  | None => false
  end.
