(* C15: per-agent budgets of the remaining rules against a memoising elicitor: the two-sided threshold rule
   (byquery = true: the extra question at p* is always a memo hit) 1 + k*ceil(log2 m); lambda-PRV lambda; Match-TwoQueries 2. *)
From Coq Require Import Arith ZArith QArith List Bool Lia.
Import ListNotations.
From SCK Require Import ElicitM ElicitRun ElicitEval ElicitBS ElicitRules ElicitBudget.
Local Open Scope Z_scope.

Section B2.
Variables (fixer : Z) (V : key -> Q).
Definition shiftk (k0 : key) : key := (fst k0 + fixer, snd k0 + fixer).
Definition inmemo (st : estate) (k : key) : Prop := mget (memo st) k <> None.

Lemma elicit_hit st k0 : inmemo st (shiftk k0) -> fst (elicit true fixer V st k0) = st.
Proof. unfold inmemo, shiftk, elicit. cbv zeta. destruct (mget (memo st) (fst k0 + fixer, snd k0 + fixer)); [reflexivity|congruence]. Qed.
Lemma elicit_mono st k0 k : inmemo st k -> inmemo (fst (elicit true fixer V st k0)) k.
Proof.
  unfold inmemo, elicit. cbv zeta. destruct (mget (memo st) (fst k0 + fixer, snd k0 + fixer)); [auto|]. cbn [fst memo mget].
  intros H. destruct (keqb k (fst k0 + fixer, snd k0 + fixer)); [discriminate|exact H].
Qed.
Lemma keqb_refl k : keqb k k = true.
Proof. unfold keqb. rewrite !Z.eqb_refl. reflexivity. Qed.
Lemma elicit_asked st k0 : inmemo (fst (elicit true fixer V st k0)) (shiftk k0).
Proof.
  unfold inmemo, shiftk, elicit. cbv zeta. destruct (mget (memo st) (fst k0 + fixer, snd k0 + fixer)) eqn:E; cbn [fst memo mget]; [congruence|].
  rewrite keqb_refl. discriminate.
Qed.
Lemma run_mono {A} (p : prog A) k : forall st, inmemo st k -> inmemo (snd (run true fixer V p st)) k.
Proof.
  induction p as [a|k0 c IH]; intros st H; cbn [run]; [exact H|].
  pose proof (elicit_mono st k0 k H) as H1. destruct (elicit true fixer V st k0) as [st1 v]. cbn [fst] in H1. apply IH. exact H1.
Qed.

(* the position returned by the binary search has been asked (or is the initial lower end, assumed asked) *)
Lemma bsearch_memo rk i tau fuel : forall lo hi st p st',
  run true fixer V (bsearchP fuel rk i lo hi tau) st = (p, st') ->
  inmemo st (shiftk (i, nth (Z.to_nat lo) rk 0)) -> inmemo st' (shiftk (i, nth (Z.to_nat p) rk 0)).
Proof.
  induction fuel as [|f IH]; intros lo hi st p st' Hrun Hlo.
  - cbn in Hrun. injection Hrun as <- <-. exact Hlo.
  - cbn [bsearchP] in Hrun. destruct (hi - lo <=? 1); [cbn in Hrun; injection Hrun as <- <-; exact Hlo|].
    cbn [run] in Hrun. set (mid := (lo + hi) / 2) in *.
    pose proof (elicit_asked st (i, nth (Z.to_nat mid) rk 0)) as Ha.
    pose proof (elicit_mono st (i, nth (Z.to_nat mid) rk 0) _ Hlo) as Hm.
    destruct (elicit true fixer V st (i, nth (Z.to_nat mid) rk 0)) as [st1 u]. cbn [fst] in Ha, Hm.
    destruct (Qle_bool tau u); [apply (IH mid hi st1 p st' Hrun Ha)|apply (IH lo mid st1 p st' Hrun Hm)].
Qed.

(* a batch of questions that are all in the table forwards nothing *)
Lemma mapP_hits (kf : nat -> key) l : forall st, (forall i, In i l -> inmemo st (shiftk (kf i))) ->
  snd (run true fixer V (mapP (fun i => Ask (kf i) (fun v => Ret v)) l) st) = st.
Proof.
  induction l as [|x t IH]; intros st H; [reflexivity|]. rewrite run_mapP_cons. cbn [run].
  pose proof (elicit_hit st (kf x) (H x (or_introl eq_refl))) as Hh. destruct (elicit true fixer V st (kf x)) as [st1 v]. cbn [fst] in Hh. subst st1.
  specialize (IH st (fun i Hi => H i (or_intror Hi))).
  destruct (run true fixer V (mapP (fun i => Ask (kf i) (fun v0 => Ret v0)) t) st) as [ys st2]. cbn [snd] in *. exact IH.
Qed.

Section Rule.
Variables (ranked : list (list Z)) (tau : list (list Q)) (n : nat) (m : Z).
Hypothesis Hm : 1 <= m.
Let L := Z.log2_up m.
Definition FavMemo (st : estate) : Prop := forall i, (i < n)%nat -> inmemo st (shiftk (Z.of_nat i, rkat (nth i ranked []) 0)).

(* all searches of one level: every returned position is in the table afterwards *)
Lemma searches_memo l : forall lst st ys st', (forall i, In i lst -> inmemo st (shiftk (Z.of_nat i, rkat (nth i ranked []) 0))) ->
  run true fixer V (mapP (fun i => bsearchP (S (Z.to_nat m)) (nth i ranked []) (Z.of_nat i) 0 m (tauof tau i l)) lst) st = (ys, st') ->
  Forall2 (fun i p => inmemo st' (shiftk (Z.of_nat i, rkat (nth i ranked []) p))) lst ys.
Proof.
  induction lst as [|x t IH]; intros st ys st' Hf Hrun.
  - rewrite run_mapP_nil in Hrun. injection Hrun as <- <-. constructor.
  - rewrite run_mapP_cons in Hrun.
    destruct (run true fixer V (bsearchP (S (Z.to_nat m)) (nth x ranked []) (Z.of_nat x) 0 m (tauof tau x l)) st) as [p st1] eqn:E1.
    destruct (run true fixer V (mapP (fun i => bsearchP (S (Z.to_nat m)) (nth i ranked []) (Z.of_nat i) 0 m (tauof tau i l)) t) st1) as [ps st2] eqn:E2.
    injection Hrun as <- <-. constructor.
    + pose proof (bsearch_memo _ _ _ _ _ _ _ _ _ E1 (Hf x (or_introl eq_refl))) as Hp.
      pose proof (run_mono (mapP (fun i => bsearchP (S (Z.to_nat m)) (nth i ranked []) (Z.of_nat i) 0 m (tauof tau i l)) t) _ st1 Hp) as Hq.
      rewrite E2 in Hq. exact Hq.
    + apply (IH st1 ps st2); [|exact E2]. intros i Hi.
      pose proof (run_mono (bsearchP (S (Z.to_nat m)) (nth x ranked []) (Z.of_nat x) 0 m (tauof tau x l)) _ st (Hf i (or_intror Hi))) as Hq.
      rewrite E1 in Hq. exact Hq.
Qed.

Lemma Forall2_seq_nth {B} (R : nat -> B -> Prop) (d : B) k : forall s ys, Forall2 R (seq s k) ys -> forall i, (i < k)%nat -> R (s + i)%nat (nth i ys d).
Proof.
  induction k as [|k IH]; intros s ys H i Hi; [lia|]. cbn [seq] in H. inversion H as [|? y ? ys' Hy Hr]; subst.
  destruct i as [|i]; [rewrite Nat.add_0_r; exact Hy|]. cbn [nth]. replace (s + S i)%nat with (S s + i)%nat by lia. apply IH; [exact Hr|lia].
Qed.

Lemma level_acnt_q a st l est st1 est' : FavMemo est -> run true fixer V (levelP ranked tau true n m st l) est = (st1, est') ->
  Z.of_nat (acnt a est') <= Z.of_nat (acnt a est) + L /\ FavMemo est'.
Proof.
  intros Hfav. unfold levelP. rewrite run_bind. intros H.
  destruct (run true fixer V (mapP (fun i => bsearchP (S (Z.to_nat m)) (nth i ranked []) (Z.of_nat i) 0 m (tauof tau i l)) (seq 0 n)) est) as [pstar e1] eqn:E1.
  rewrite run_bind in H.
  assert (Hhit : snd (run true fixer V (mapP (fun i => Ask (Z.of_nat i, rkat (nth i ranked []) (nth i pstar 0)) (fun v => Ret v)) (seq 0 n)) e1) = e1).
  { apply (mapP_hits (fun i => (Z.of_nat i, rkat (nth i ranked []) (nth i pstar 0)))). intros i Hi. apply in_seq in Hi.
    assert (HF : Forall2 (fun i p => inmemo e1 (shiftk (Z.of_nat i, rkat (nth i ranked []) p))) (seq 0 n) pstar).
    { apply (searches_memo l (seq 0 n) est pstar e1); [|exact E1]. intros j Hj. apply in_seq in Hj. apply Hfav. lia. }
    exact (Forall2_seq_nth _ 0 n 0%nat pstar HF i ltac:(lia)). }
  destruct (run true fixer V (mapP (fun i => Ask (Z.of_nat i, rkat (nth i ranked []) (nth i pstar 0)) (fun v => Ret v)) (seq 0 n)) e1) as [vals e2] eqn:E2.
  cbn [snd] in Hhit. subst e2. cbn [run] in H. injection H as _ <-.
  split.
  - pose proof (mapP_acnt fixer V a (fun i => bsearchP (S (Z.to_nat m)) (nth i ranked []) (Z.of_nat i) 0 m (tauof tau i l)) L (Z.log2_up_nonneg m)) as Hm1.
    assert (Hb : forall i st0 y st', run true fixer V (bsearchP (S (Z.to_nat m)) (nth i ranked []) (Z.of_nat i) 0 m (tauof tau i l)) st0 = (y, st') ->
              Z.of_nat (acnt a st') <= Z.of_nat (acnt a st0) + (if Z.of_nat i + fixer =? a then L else 0)).
    { intros i st0 y st' Hr. pose proof (bsearch_acnt fixer V a (nth i ranked []) (Z.of_nat i) (tauof tau i l) (S (Z.to_nat m)) 0 m st0 y st' Hr ltac:(lia)) as Hq.
      rewrite Z.sub_0_r in Hq. exact Hq. }
    specialize (Hm1 Hb (seq 0 n) est pstar e1 (seq_NoDup n 0) E1). pose proof (Z.log2_up_nonneg m). fold L in Hm1. destruct (existsb _ _); lia.
  - intros i Hi. pose proof (run_mono (mapP (fun i => bsearchP (S (Z.to_nat m)) (nth i ranked []) (Z.of_nat i) 0 m (tauof tau i l)) (seq 0 n)) _ est (Hfav i Hi)) as Hq.
    rewrite E1 in Hq. exact Hq.
Qed.

Lemma levels_acnt_q a : forall ls st est st1 est', FavMemo est -> run true fixer V (foldP (levelP ranked tau true n m) ls st) est = (st1, est') ->
  Z.of_nat (acnt a est') <= Z.of_nat (acnt a est) + Z.of_nat (length ls) * L.
Proof.
  induction ls as [|l t IH]; intros st est st1 est' Hf H.
  - cbn in H. injection H as _ <-. cbn. lia.
  - rewrite run_foldP_cons in H. destruct (run true fixer V (levelP ranked tau true n m st l) est) as [s' e1] eqn:E1.
    destruct (level_acnt_q a st l est s' e1 Hf E1) as [H1 Hf1]. specialize (IH s' e1 st1 est' Hf1 H). cbn [length]. lia.
Qed.

(* after the favourites have been asked, every favourite is in the table *)
Lemma askfav_memo : forall lst st ys st', run true fixer V (mapP (askfav ranked) lst) st = (ys, st') ->
  forall i, In i lst -> inmemo st' (shiftk (Z.of_nat i, rkat (nth i ranked []) 0)).
Proof.
  induction lst as [|x t IH]; intros st ys st' Hrun i Hi; [destruct Hi|]. rewrite run_mapP_cons in Hrun.
  destruct (run true fixer V (askfav ranked x) st) as [y st1] eqn:E1.
  destruct (run true fixer V (mapP (askfav ranked) t) st1) as [ys' st2] eqn:E2. injection Hrun as _ <-.
  destruct Hi as [->|Hi]; [|apply (IH st1 ys' st2 E2 i Hi)].
  unfold askfav in E1. cbn [run] in E1. pose proof (elicit_asked st (Z.of_nat i, rkat (nth i ranked []) 0)) as Ha.
  destruct (elicit true fixer V st (Z.of_nat i, rkat (nth i ranked []) 0)) as [s1 u]. cbn [fst run] in *. injection E1 as _ <-.
  pose proof (run_mono (mapP (askfav ranked) t) _ s1 Ha) as Hq. rewrite E2 in Hq. exact Hq.
Qed.

Theorem thr_budget_q a k init vt est' : run true fixer V (thrP ranked tau true n m k init) einit = (vt, est') ->
  Z.of_nat (acnt a est') <= 1 + Z.of_nat k * L.
Proof.
  unfold thrP. rewrite run_bind. intros H.
  destruct (run true fixer V (mapP (askfav ranked) (seq 0 n)) einit) as [vfav e1] eqn:E1.
  rewrite run_bind in H.
  destruct (run true fixer V (foldP (levelP ranked tau true n m) (seq 1 k) _) e1) as [st e2] eqn:E2. cbn [run] in H. injection H as _ <-.
  pose proof (mapP_acnt fixer V a (askfav ranked) 1 ltac:(lia)) as Hf.
  assert (Hq : forall i st0 y st', run true fixer V (askfav ranked i) st0 = (y, st') -> Z.of_nat (acnt a st') <= Z.of_nat (acnt a st0) + (if Z.of_nat i + fixer =? a then 1 else 0)).
  { intros i st0 y st' Hr. unfold askfav in Hr. cbn [run] in Hr. pose proof (elicit_acnt fixer V a st0 (Z.of_nat i, rkat (nth i ranked []) 0)) as He. cbn [fst] in He.
    destruct (elicit true fixer V st0 (Z.of_nat i, rkat (nth i ranked []) 0)) as [s1 u]. cbn [fst run] in *. injection Hr as _ <-. destruct (Z.of_nat i + fixer =? a); lia. }
  specialize (Hf Hq (seq 0 n) einit vfav e1 (seq_NoDup n 0) E1).
  assert (Hfm : FavMemo e1). { intros i Hi. apply (askfav_memo (seq 0 n) einit vfav e1 E1). apply in_seq. lia. }
  pose proof (levels_acnt_q a (seq 1 k) _ e1 st e2 Hfm E2) as Hl. rewrite seq_length in Hl.
  assert (acnt a einit = 0%nat) by reflexivity. destruct (existsb _ _); lia.
Qed.
End Rule.

(* ---------- folds of single questions: lambda-PRV and the second phase of Match-TwoQueries ---------- *)
Lemma foldP_acnt_count {S A} a (ag : A -> Z) (f : S -> A -> prog S) :
  (forall s x st y st', run true fixer V (f s x) st = (y, st') -> (acnt a st' <= acnt a st + (if (ag x =? a)%Z then 1 else 0))%nat) ->
  forall l s st y st', run true fixer V (foldP f l s) st = (y, st') ->
  (acnt a st' <= acnt a st + length (filter (fun x => (ag x =? a)%Z) l))%nat.
Proof.
  intros Hf. induction l as [|x t IH]; intros s st y st' H.
  - cbn in H. injection H as _ <-. simpl. lia.
  - rewrite run_foldP_cons in H. destruct (run true fixer V (f s x) st) as [s' st1] eqn:E1.
    pose proof (Hf s x st s' st1 E1) as H1. specialize (IH s' st1 y st' H). cbn [filter]. destruct (ag x =? a)%Z; simpl in *; lia.
Qed.
Lemma ask_ret_acnt {S} a k0 (g : Q -> S) st y st' : run true fixer V (Ask k0 (fun v => Ret (g v))) st = (y, st') ->
  (acnt a st' <= acnt a st + (if (fst k0 + fixer =? a)%Z then 1 else 0))%nat.
Proof.
  cbn [run]. pose proof (elicit_acnt fixer V a st k0) as He. destruct (elicit true fixer V st k0) as [s1 u]. cbn [fst run] in *.
  intros H. injection H as _ <-. exact He.
Qed.
Lemma count_agent_le1 a l : NoDup l -> (length (filter (fun i => (Z.of_nat i + fixer =? a)%Z) l) <= 1)%nat.
Proof.
  induction l as [|x t IH]; intros Hnd; [simpl; lia|]. inversion Hnd as [|? ? Hx Ht]; subst. cbn [filter].
  destruct (Z.of_nat x + fixer =? a) eqn:E; [|apply IH; exact Ht]. cbn [length].
  assert (filter (fun i => (Z.of_nat i + fixer =? a)%Z) t = []) as ->; [|simpl; lia].
  destruct (filter _ t) as [|z r] eqn:Ef; [reflexivity|]. exfalso.
  assert (Hz : In z (filter (fun i => (Z.of_nat i + fixer =? a)%Z) t)) by (rewrite Ef; now left). apply filter_In in Hz as [Hz Ez].
  apply Z.eqb_eq in E. apply Z.eqb_eq in Ez. assert (z = x) by lia. subst. contradiction.
Qed.
Lemma count_pairs a lam l : 
  length (filter (fun ip : nat * nat => (Z.of_nat (fst ip) + fixer =? a)%Z) (flat_map (fun i => map (fun p => (i, p)) (seq 0 lam)) l)) =
  (lam * length (filter (fun i => (Z.of_nat i + fixer =? a)%Z) l))%nat.
Proof.
  induction l as [|x t IH]; [simpl; lia|]. cbn [flat_map filter]. rewrite filter_app, app_length, IH.
  assert (E : forall sl, length (filter (fun ip : nat * nat => (Z.of_nat (fst ip) + fixer =? a)%Z) (map (fun p => (x, p)) sl)) = if (Z.of_nat x + fixer =? a)%Z then length sl else 0%nat).
  { intros sl. destruct (Z.of_nat x + fixer =? a)%Z eqn:E.
    - induction sl as [|p r IHr]; [reflexivity|]. cbn [map filter fst]. rewrite E. cbn [length]. rewrite IHr. reflexivity.
    - induction sl as [|p r IHr]; [reflexivity|]. cbn [map filter fst]. rewrite E. apply IHr. }
  rewrite E, seq_length. destruct (Z.of_nat x + fixer =? a)%Z; cbn [length]; lia.
Qed.
End B2.

(* ---------- rule level ---------- *)
Theorem double_side_budget fixer V P k tau init a vt est' :
  let m := Z.of_nat (length (nth 0 P [])) in 1 <= m ->
  run true fixer V (thr_rule P k tau true init) einit = (vt, est') ->
  Z.of_nat (acnt a est') <= 1 + Z.of_nat k * Z.log2_up m.
Proof. intros m Hm H. apply (thr_budget_q fixer V (map rank_list P) tau (length P) m Hm a k init vt est' H). Qed.

Theorem prv_budget fixer V P lam a sc est' :
  run true fixer V (prvP P lam) einit = (sc, est') -> (acnt a est' <= lam)%nat.
Proof.
  unfold prvP. intros H.
  pose proof (foldP_acnt_count fixer V a (fun ip : nat * nat => Z.of_nat (fst ip) + fixer)
               (fun (sc : list Q) (ip : nat * nat) =>
                  let j := rkat (nth (fst ip) (map rank_list P) []) (Z.of_nat (snd ip)) in
                  Ask (Z.of_nat (fst ip), j) (fun v => Ret (updz sc (Z.to_nat j) (Qred (nth (Z.to_nat j) sc 0%Q + v)))))) as Hf.
  assert (Hstep : forall (s : list Q) (x : nat * nat) st y st',
            run true fixer V (let j := rkat (nth (fst x) (map rank_list P) []) (Z.of_nat (snd x)) in
                              Ask (Z.of_nat (fst x), j) (fun v => Ret (updz s (Z.to_nat j) (Qred (nth (Z.to_nat j) s 0%Q + v))))) st = (y, st') ->
            (acnt a st' <= acnt a st + (if (Z.of_nat (fst x) + fixer =? a)%Z then 1 else 0))%nat).
  { intros s x st y st' Hr. cbv zeta in Hr. apply (ask_ret_acnt fixer V a _ _ st y st' Hr). }
  specialize (Hf Hstep _ _ _ _ _ H). cbv beta in Hf. rewrite count_pairs in Hf.
  pose proof (count_agent_le1 fixer a (seq 0 (length P)) (seq_NoDup _ _)) as Hc. assert (acnt a einit = 0%nat) by reflexivity. nia.
Qed.

Theorem m2q_budget fixer V P eps a vt est' :
  run true fixer V (m2qP P eps) einit = (vt, est') -> (acnt a est' <= 2)%nat.
Proof.
  unfold m2qP. cbv zeta. rewrite run_bind. intros H.
  destruct (run true fixer V (mapP (askfav (map rank_list P)) (seq 0 (length P))) einit) as [vfav e1] eqn:E1.
  pose proof (mapP_acnt fixer V a (askfav (map rank_list P)) 1 ltac:(lia)) as Hf.
  assert (Hq : forall i st0 y st', run true fixer V (askfav (map rank_list P) i) st0 = (y, st') -> Z.of_nat (acnt a st') <= Z.of_nat (acnt a st0) + (if Z.of_nat i + fixer =? a then 1 else 0)).
  { intros i st0 y st' Hr. unfold askfav in Hr. pose proof (ask_ret_acnt fixer V a _ (fun v => v) st0 y st' Hr) as Hh. cbn [fst] in Hh. destruct (Z.of_nat i + fixer =? a); lia. }
  specialize (Hf Hq (seq 0 (length P)) einit vfav e1 (seq_NoDup _ 0) E1).
  match type of H with run _ _ _ (foldP ?f _ _) _ = _ => pose proof (foldP_acnt_count fixer V a (fun i : nat => Z.of_nat i + fixer) f) as Hg end.
  cbv beta in Hg. 
  match type of Hg with (?Pre -> _) => assert (Hstep : Pre) end.
  { intros s x st y st' Hr. cbv zeta in Hr. apply (ask_ret_acnt fixer V a _ _ st y st' Hr). }
  specialize (Hg Hstep _ _ _ _ _ H).
  pose proof (count_agent_le1 fixer a (seq 0 (length P)) (seq_NoDup _ _)) as Hc. assert (acnt a einit = 0%nat) by reflexivity.
  destruct (existsb _ _); lia.
Qed.
