From Coq Require Import ZArith List Bool Lia.
Import ListNotations.
Require Import FlowModel FlowProof.
Local Open Scope Z_scope.

(* well-formed input network: what ford_fulkerson silently assumes *)
Definition wf_in (G : graph) : Prop :=
  NoDup (keys G) /\
  (forall u, NoDup (targets G u)) /\
  (forall u v, In v (targets G u) -> In v (keys G) /\ v <> u) /\
  (forall u v, 0 <= cf G u v).

Definition edges (G : graph) : list (Z * Z) := flat_map (fun ka => map (fun e => (fst ka, fst e)) (snd ka)) G.
Definition init_step (st : graph * flowmap) (e : Z * Z) : graph * flowmap :=
  let '(Gf, fl) := st in
  let '(i, j) := e in
  (if forallb (fun vc => negb (fst vc =? i)) (lookup Gf j) then set_adj Gf j (lookup Gf j ++ [(i, 0)]) else Gf,
   fset (fset fl (i, j) 0) (j, i) 0).

Lemma init_edge_step i st e : init_edge i st e = init_step st (i, fst e).
Proof. destruct st as [Gf fl]. reflexivity. Qed.
Lemma fold_inner i l st : fold_left (init_edge i) l st = fold_left init_step (map (fun e => (i, fst e)) l) st.
Proof. revert st; induction l as [|e t IH]; intros st; simpl; [reflexivity|]. rewrite init_edge_step. apply IH. Qed.
Lemma init_as_fold G st : fold_left (fun st ka => fold_left (init_edge (fst ka)) (snd ka) st) G st =
  fold_left init_step (flat_map (fun ka => map (fun e => (fst ka, fst e)) (snd ka)) G) st.
Proof.
  revert st; induction G as [|ka r IH]; intros st; simpl; [reflexivity|].
  rewrite fold_left_app. rewrite <- fold_inner. apply IH.
Qed.

Lemma lookup_in_keys G u : lookup G u <> [] -> In u (keys G).
Proof.
  induction G as [|[k a] r IH]; simpl; [congruence|]. destruct (k =? u) eqn:E; [apply Z.eqb_eq in E; auto|auto].
Qed.
Lemma in_lookup G u a : NoDup (keys G) -> In (u, a) G -> lookup G u = a.
Proof.
  induction G as [|[k a0] r IH]; simpl; [tauto|]. intros Hnd [E|H].
  - injection E as -> ->. rewrite Z.eqb_refl. reflexivity.
  - inversion Hnd; subst. destruct (k =? u) eqn:E.
    + apply Z.eqb_eq in E. subst k. exfalso. apply H2. apply (in_map fst) in H. exact H.
    + apply IH; assumption.
Qed.
Lemma edges_spec G i j : NoDup (keys G) -> (In (i, j) (edges G) <-> In j (targets G i)).
Proof.
  intros Hnd. unfold edges, targets. rewrite in_flat_map. split.
  - intros [[k a] [Hka Hin]]. simpl in Hin. apply in_map_iff in Hin. destruct Hin as [e [E He]]. injection E as E1 E2. subst i j.
    rewrite (in_lookup G k a Hnd Hka). apply in_map. exact He.
  - intros Hin. assert (Hk : In i (keys G)) by (apply lookup_in_keys; intros E; rewrite E in Hin; destruct Hin).
    unfold keys in Hk. apply in_map_iff in Hk. destruct Hk as [[k a] [E Hka]]. simpl in E. subst k.
    exists (i, a). split; [exact Hka|]. simpl. rewrite (in_lookup G i a Hnd Hka) in Hin.
    apply in_map_iff in Hin. destruct Hin as [e [E He]]. apply in_map_iff. exists e. split; [rewrite E; reflexivity|exact He].
Qed.

(* invariant of the initialisation fold *)
Record IInv (G Gf : graph) (fl : flowmap) : Prop := {
  ii_keys : keys Gf = keys G;
  ii_nt : nodupT Gf;
  ii_cf : forall x y, cf Gf x y = cf G x y;
  ii_sup : forall x y, In y (targets G x) -> In y (targets Gf x);
  ii_only : forall x y, In y (targets Gf x) -> In y (targets G x) \/ In x (targets G y);
  ii_fl : forall k, fget fl k = 0
}.

Lemma forallb_notin i a : forallb (fun vc : Z * Z => negb (fst vc =? i)) a = true <-> ~ In i (map fst a).
Proof.
  rewrite forallb_forall. split.
  - intros H Hin. apply in_map_iff in Hin. destruct Hin as [vc [E Hvc]]. specialize (H vc Hvc). rewrite E, Z.eqb_refl in H. discriminate.
  - intros H vc Hvc. apply negb_true_iff, Z.eqb_neq. intros E. apply H. apply in_map_iff. exists vc. auto.
Qed.
Lemma aget_app_notin a v w c : ~ In v (map fst a) -> aget (a ++ [(v, c)]) w = if v =? w then c else aget a w.
Proof.
  induction a as [|[x d] r IH]; simpl; intros H; [reflexivity|].
  destruct (x =? w) eqn:E.
  - apply Z.eqb_eq in E. subst x. destruct (v =? w) eqn:E2; [apply Z.eqb_eq in E2; subst; tauto|reflexivity].
  - apply IH. tauto.
Qed.

Lemma nodup_snoc {A} (l : list A) x : NoDup l -> ~ In x l -> NoDup (l ++ [x]).
Proof.
  induction 1 as [|y t Hn Hnd IH]; simpl; intros Hx; [constructor; [tauto|constructor]|].
  constructor; [rewrite in_app_iff; simpl; intros [H|[H|[]]]; [contradiction|subst; tauto]|apply IH; tauto].
Qed.
Lemma fget_fset_zero f k0 : (forall k, fget f k = 0) -> forall k, fget (fset f k0 0) k = 0.
Proof.
  intros H k. destruct (pair_eqb k k0) eqn:E.
  - apply pair_eqb_eq in E. subst. apply fget_fset_same.
  - rewrite fget_fset_other; [apply H|]. intros ->. assert (pair_eqb k0 k0 = true) by (apply pair_eqb_eq; reflexivity). congruence.
Qed.

Lemma init_step_inv G Gf fl i j : wf_in G -> IInv G Gf fl -> In j (targets G i) ->
  IInv G (fst (init_step (Gf, fl) (i, j))) (snd (init_step (Gf, fl) (i, j))) /\
  In i (targets (fst (init_step (Gf, fl) (i, j))) j).
Proof.
  intros [HV [HnT [Hin Hnn]]] I Hij. destruct (Hin i j Hij) as [Hj Hne].
  assert (HjGf : In j (keys Gf)) by (rewrite (ii_keys _ _ _ I); exact Hj).
  assert (Hfl : forall k, fget (fset (fset fl (i, j) 0) (j, i) 0) k = 0) by (apply fget_fset_zero, fget_fset_zero, I).
  cbn [init_step fst snd].
  destruct (forallb (fun vc => negb (fst vc =? i)) (lookup Gf j)) eqn:Ef.
  - apply forallb_notin in Ef.
    assert (Hlk : forall x, lookup (set_adj Gf j (lookup Gf j ++ [(i, 0)])) x = if Z.eq_dec x j then lookup Gf j ++ [(i, 0)] else lookup Gf x).
    { intros x. destruct (Z.eq_dec x j) as [->|Hx]; [apply lookup_set_adj_same; exact HjGf|apply lookup_set_adj_other; exact Hx]. }
    assert (Htg : forall x, targets (set_adj Gf j (lookup Gf j ++ [(i, 0)])) x = if Z.eq_dec x j then targets Gf j ++ [i] else targets Gf x).
    { intros x. unfold targets. rewrite Hlk. destruct (Z.eq_dec x j); [rewrite map_app; reflexivity|reflexivity]. }
    split.
    + constructor.
      * rewrite keys_set_adj. apply I.
      * intros x. rewrite Htg. destruct (Z.eq_dec x j) as [->|Hx]; [apply nodup_snoc; [apply (ii_nt _ _ _ I)|exact Ef]|apply (ii_nt _ _ _ I)].
      * intros x y. rewrite <- (ii_cf _ _ _ I). unfold cf. rewrite Hlk. destruct (Z.eq_dec x j) as [->|Hx]; [|reflexivity].
        rewrite (aget_app_notin _ i y 0 Ef). destruct (i =? y) eqn:E; [|reflexivity].
        apply Z.eqb_eq in E. subst y. symmetry. apply aget_notin. exact Ef.
      * intros x y Hxy. rewrite Htg. destruct (Z.eq_dec x j) as [->|Hx]; [apply in_or_app; left|]; apply (ii_sup _ _ _ I); exact Hxy.
      * intros x y Hxy. rewrite Htg in Hxy. destruct (Z.eq_dec x j) as [->|Hx]; [|apply (ii_only _ _ _ I); exact Hxy].
        apply in_app_or in Hxy. destruct Hxy as [H|[<-|[]]]; [apply (ii_only _ _ _ I); exact H|right; exact Hij].
      * exact Hfl.
    + rewrite Htg. destruct (Z.eq_dec j j); [|congruence]. apply in_or_app. right. now left.
  - split.
    + constructor; try apply I. exact Hfl.
    + destruct (in_dec Z.eq_dec i (map fst (lookup Gf j))) as [Hi|Hn]; [exact Hi|].
      apply forallb_notin in Hn. congruence.
Qed.

Lemma init_fold_inv G : wf_in G -> forall es Gf fl, IInv G Gf fl ->
  (forall i j, In (i, j) es -> In j (targets G i)) ->
  let st' := fold_left init_step es (Gf, fl) in
  IInv G (fst st') (snd st') /\
  (forall i j, (In (i, j) es \/ In i (targets Gf j)) -> In i (targets (fst st') j)).
Proof.
  intros Hwf. induction es as [|[i j] r IH]; intros Gf fl I Hes; cbn [fold_left].
  - split; [exact I|]. intros i j [[]|H]. exact H.
  - destruct (init_step_inv G Gf fl i j Hwf I (Hes i j (or_introl eq_refl))) as [I1 Hrev].
    destruct (init_step (Gf, fl) (i, j)) as [Gf1 fl1] eqn:E. cbn [fst snd] in *.
    destruct (IH Gf1 fl1 I1 (fun a b H => Hes a b (or_intror H))) as [I2 Hr2].
    split; [exact I2|]. intros a b [[Eab|Hin]|Hold].
    + injection Eab as <- <-. apply Hr2. right. exact Hrev.
    + apply Hr2. left. exact Hin.
    + apply Hr2. right.
      (* targets only grow in one step *)
      pose proof E as E'. unfold init_step in E'.
      destruct (forallb (fun vc => negb (fst vc =? i)) (lookup Gf j)); injection E' as <- _.
      * unfold targets. destruct (Z.eq_dec b j) as [->|Hb].
        -- destruct (Hwf) as [_ [_ [Hin' _]]]. destruct (Hin' i j (Hes i j (or_introl eq_refl))) as [Hj _].
           rewrite lookup_set_adj_same by (rewrite (ii_keys _ _ _ I); exact Hj). rewrite map_app. apply in_or_app. left. exact Hold.
        -- rewrite lookup_set_adj_other by exact Hb. exact Hold.
      * exact Hold.
Qed.

Theorem init_FInv G s t : wf_in G -> FInv G s t (fst (init G)) (snd (init G)).
Proof.
  intros Hwf. pose proof Hwf as [HV [HnT [Hin Hnn]]].
  unfold init. rewrite init_as_fold.
  assert (I0 : IInv G G []).
  { constructor; try reflexivity; auto. }
  pose (st := fold_left init_step (edges G) (G, [])).
  assert (H : IInv G (fst st) (snd st) /\ (forall i j, (In (i, j) (edges G) \/ In i (targets G j)) -> In i (targets (fst st) j)))
    by exact (init_fold_inv G Hwf (edges G) G [] I0 (fun i j H => proj1 (edges_spec G i j HV) H)).
  change (FInv G s t (fst st) (snd st)). clearbody st. destruct st as [Gf fl].
  cbn [fst snd] in *. destruct H as [I Hrev].
  constructor.
  - constructor.
    + split; [rewrite (ii_keys _ _ _ I); exact HV|].
      intros u v Huv. rewrite (ii_keys _ _ _ I).
      destruct (ii_only _ _ _ I u v Huv) as [H|H].
      * destruct (Hin u v H) as [Hv Hne]. split; [apply lookup_in_keys; intros E; unfold targets in H; rewrite E in H; destruct H|].
        split; [exact Hv|]. split; [exact Hne|]. apply Hrev. left. apply edges_spec; assumption.
      * destruct (Hin v u H) as [Hu Hne]. split; [exact Hu|].
        split; [apply lookup_in_keys; intros E; unfold targets in H; rewrite E in H; destruct H|].
        split; [congruence|]. apply (ii_sup _ _ _ I). exact H.
    + apply I.
    + intros x y. rewrite (ii_cf _ _ _ I), (ii_fl _ _ _ I). lia.
    + intros x y. rewrite !(ii_fl _ _ _ I). lia.
    + intros x y. rewrite (ii_cf _ _ _ I). apply Hnn.
  - apply I.
  - intros x _ _ _. unfold excess. rewrite (sumZ_ext _ (fun _ => 0)); [apply sumZ_zero|]. intros y _. apply (ii_fl _ _ _ I).
Qed.
Theorem init_fl_zero G : wf_in G -> forall k, fget (snd (init G)) k = 0.
Proof.
  intros Hwf. pose proof Hwf as [HV [HnT [Hin Hnn]]].
  unfold init. rewrite init_as_fold.
  assert (I0 : IInv G G []) by (constructor; try reflexivity; auto).
  pose (st := fold_left init_step (edges G) (G, [])).
  assert (H : IInv G (fst st) (snd st)) by exact (proj1 (init_fold_inv G Hwf (edges G) G [] I0 (fun i j H => proj1 (edges_spec G i j HV) H))).
  change (forall k, fget (snd st) k = 0). apply (ii_fl _ _ _ H).
Qed.
Print Assumptions init_FInv.
