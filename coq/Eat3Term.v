(* C05: the exact eating process terminates, and in every reachable state every agent that is not full eats its most
   preferred item that is not exhausted ("eating in order").  Extra invariants on top of Eat3Proof.AllInv, for item
   tables whose rows enumerate all items (complete strict profiles). *)
From Coq Require Import Arith ZArith QArith List Bool Lia Lqa.
Import ListNotations.
From SCK Require Import Eat3 Eat3Proof.
Local Open Scope Q_scope.

Definition is_some {A} (o : option A) : bool := match o with Some _ => true | None => false end.

Lemma filter_length_le' {A} (p q : A -> bool) l : (forall x, In x l -> q x = true -> p x = true) ->
  (length (filter q l) <= length (filter p l))%nat.
Proof.
  induction l as [|a t IH]; intros H; [simpl; lia|]. cbn [filter].
  assert (IH' : (length (filter q t) <= length (filter p t))%nat) by (apply IH; intros x Hx; apply H; now right).
  destruct (q a) eqn:Eq; [rewrite (H a (or_introl eq_refl) Eq); simpl; lia|destruct (p a); simpl; lia].
Qed.
Lemma filter_length_lt {A} (p q : A -> bool) l : (forall x, In x l -> q x = true -> p x = true) ->
  (exists x, In x l /\ p x = true /\ q x = false) -> (length (filter q l) < length (filter p l))%nat.
Proof.
  induction l as [|a t IH]; intros H [x [Hx [Hp Hq]]]; [destruct Hx|]. cbn [filter].
  assert (Hle : (length (filter q t) <= length (filter p t))%nat) by (apply filter_length_le'; intros y Hy; apply H; now right).
  destruct Hx as [->|Hx].
  - rewrite Hp, Hq. simpl. lia.
  - assert (IH' : (length (filter q t) < length (filter p t))%nat).
    { apply IH; [intros y Hy; apply H; now right|exists x; auto]. }
    destruct (q a) eqn:Eq; [rewrite (H a (or_introl eq_refl) Eq); simpl; lia|destruct (p a); simpl; lia].
Qed.
Lemma qminO_in a b t : qminO a b = Some t -> a = Some t \/ b = Some t.
Proof.
  destruct a as [x|], b as [y|]; simpl; intros H; try (injection H as <-); auto; try discriminate.
  destruct (Qle_bool x y); auto.
Qed.

Lemma filter_all {A} (f : A -> bool) l : (forall x, In x l -> f x = true) -> filter f l = l.
Proof. induction l as [|a t IH]; intros H; [reflexivity|]. cbn [filter]. rewrite (H a (or_introl eq_refl)), IH; [reflexivity|]. intros x Hx. apply H. now right. Qed.

Section Term.
Variable n : nat.
Variable item : nat -> nat -> nat.
Variable sp : nat -> Q.
Hypothesis item_lt : forall i p, (item i p < n)%nat.
Hypothesis sp_pos : forall i, 0 < sp i.
Hypothesis item_surj : forall i j, (i < n)%nat -> (j < n)%nat -> exists p, (p < n)%nat /\ item i p = j.
Let ids := seq 0 n.

Notation RS := (RS n).
Notation CS := (CS n).
Notation AllInv := (AllInv n item).
Notation nextst := (nextst n item sp).

Definition PassedInv (st : est) : Prop := forall i p q, (i < n)%nat -> nth i (pos st) None = Some p -> (q < p)%nat ->
  nth (item i q) (rem st) None = None.
Definition EqInv (st : est) : Prop := forall i, (i < n)%nat ->
  match nth i (eaten st) None with Some e => RS st i == e | None => RS st i == 1 end.
Definition ActInv (st : est) : Prop := forall i e, (i < n)%nat -> nth i (eaten st) None = Some e -> nth i (pos st) None = None ->
  finished n st = true.
Definition Inv2 (st : est) : Prop := AllInv st /\ PassedInv st /\ EqInv st /\ ActInv st.

Lemma in_ids' i : In i ids <-> (i < n)%nat.
Proof. unfold ids. rewrite in_seq. lia. Qed.

Lemma rem_next_none st t j : (j < n)%nat -> nth j (rem st) None = None -> nth j (rem_next n item sp st t) None = None.
Proof. intros Hj H. unfold rem_next. rewrite nth_map_seq by exact Hj. rewrite H. reflexivity. Qed.

Lemma advance_passed rem' i : forall fuel p q, (p <= q)%nat -> (q < advance n item rem' i fuel p)%nat ->
  nth (item i q) rem' None = None.
Proof.
  induction fuel as [|f IH]; intros p q Hpq Hq; cbn [advance] in Hq; [lia|].
  destruct (p <? n)%nat eqn:E; [|lia]. destruct (nth (item i p) rem' None) as [r|] eqn:Er; [lia|].
  destruct (Nat.eq_dec p q) as [->|Hne]; [exact Er|]. apply (IH (S p) q); [lia|exact Hq].
Qed.
Lemma advance_ge rem' i : forall fuel p, (p <= advance n item rem' i fuel p)%nat.
Proof.
  induction fuel as [|f IH]; intros p; cbn [advance]; [lia|]. destruct (p <? n)%nat; [|lia].
  destruct (nth (item i p) rem' None); [lia|]. specialize (IH (S p)). lia.
Qed.

Lemma finished_iff st : finished n st = true <-> forall j, (j < n)%nat -> nth j (rem st) None = None.
Proof.
  unfold finished. rewrite forallb_forall. split.
  - intros H j Hj. specialize (H j (proj2 (in_ids' j) Hj)). destruct (nth j (rem st) None); [discriminate|reflexivity].
  - intros H j Hj. apply in_ids' in Hj. rewrite (H j Hj). reflexivity.
Qed.

(* a state that is not finished has an agent that is not full *)
Lemma exists_hungry st : AllInv st -> EqInv st -> finished n st = false -> exists i e, (i < n)%nat /\ nth i (eaten st) None = Some e.
Proof.
  intros [Hsh [HC [HR HP]]] HE Hf.
  destruct (existsb (fun i => is_some (nth i (eaten st) None)) ids) eqn:Ex.
  - apply existsb_exists in Ex as [i [Hi H]]. apply in_ids' in Hi. destruct (nth i (eaten st) None) as [e|] eqn:Ee; [|discriminate]. exists i, e. auto.
  - exfalso. assert (Hall : forall i, (i < n)%nat -> RS st i == 1).
    { intros i Hi. specialize (HE i Hi). destruct (nth i (eaten st) None) as [e|] eqn:Ee; [|exact HE].
      exfalso. assert (existsb (fun i => is_some (nth i (eaten st) None)) ids = true).
      { apply existsb_exists. exists i. rewrite Ee. split; [apply in_ids'; exact Hi|reflexivity]. } congruence. }
    assert (Hle : forall j, In j ids -> CS st j <= 1).
    { intros j Hj. apply in_ids' in Hj. specialize (HC j Hj). destruct (nth j (rem st) None); [destruct HC; lra|lra]. }
    assert (Hsum : sumQ (CS st) ids == inject_Z (Z.of_nat (length ids))).
    { unfold Eat3Proof.CS. fold ids. rewrite <- (sumQ_swap (fun i j => E st i j) ids ids).
      rewrite (sumQ_ext _ (fun _ => 1)); [rewrite sumQ_const; ring|]. intros i Hi. apply in_ids' in Hi. apply Hall. exact Hi. }
    assert (Hone : forall j, In j ids -> CS st j == 1) by (apply all_one; assumption).
    assert (Hfin : finished n st = true).
    { apply finished_iff. intros j Hj. specialize (HC j Hj). specialize (Hone j (proj2 (in_ids' j) Hj)).
      destruct (nth j (rem st) None) as [r|]; [destruct HC; lra|reflexivity]. }
    congruence.
Qed.

Lemma step_exists st : AllInv st -> EqInv st -> finished n st = false -> exists t, step_time n item sp st = Some t.
Proof.
  intros HI HE Hf. destruct (exists_hungry st HI HE Hf) as [i [e [Hi He]]]. unfold step_time.
  assert (Hin : In (Some (qdiv (qsub 1 e) (sp i))) (cand_agents n sp st)).
  { unfold cand_agents. apply in_map_iff. exists i. rewrite He. split; [reflexivity|apply in_ids'; exact Hi]. }
  destruct (fold_left qminO (cand_agents n sp st) None) as [ta|] eqn:Ea; [|exfalso; exact (fold_qminO_some _ None _ Hin Ea)].
  destruct (fold_left qminO (cand_items n item sp st) None) as [ti|]; simpl; eauto.
Qed.

(* the extra invariants are preserved by a step taken from a state that is not finished *)
Lemma step_preserves2 st t : Inv2 st -> finished n st = false -> step_time n item sp st = Some t -> Inv2 (nextst st t).
Proof.
  intros [HI [HPa [HE HA]]] Hf Ht. pose proof HI as [Hsh [HC [HR HP]]].
  pose proof (step_preserves n item sp item_lt sp_pos st t Hsh HC HR HP Ht) as Hnext.
  split; [exact Hnext|]. split; [|split].
  - (* passed *)
    intros i p' q Hi Hp' Hq. unfold Eat3Proof.nextst in *. cbn [pos rem] in *. unfold pos_next in Hp'. rewrite nth_map_seq in Hp' by exact Hi.
    destruct (nth i (pos st) None) as [p|] eqn:Ep; [|discriminate]. cbv zeta in Hp'.
    set (a := advance n item (rem_next n item sp st t) i (S n) p) in *.
    destruct (a =? n)%nat; [discriminate|]. destruct (nth i (eaten_next n sp st t) None); [|discriminate]. injection Hp' as <-.
    destruct (Nat.lt_ge_cases q p) as [L|L].
    + apply rem_next_none; [apply item_lt|]. apply (HPa i p q Hi Ep L).
    + apply (advance_passed _ i (S n) p q L Hq).
  - (* row sum = amount eaten *)
    intros i Hi. unfold Eat3Proof.nextst. cbn [eaten]. unfold Eat3Proof.RS. cbn [X].
    pose proof (RS_next n item sp item_lt st t i Hsh Hi) as Hrs. unfold E. cbn [X].
    unfold eaten_next. rewrite nth_map_seq by exact Hi. specialize (HE i Hi). specialize (HR i Hi).
    destruct (nth i (eaten st) None) as [e|] eqn:Ee.
    + cbv zeta. assert (Hcur : exists c, cur item st i = Some c).
      { unfold cur. destruct (nth i (pos st) None) as [p|] eqn:Ep; [simpl; eauto|]. pose proof (HA i e Hi Ee Ep). congruence. }
      destruct Hcur as [c Hc]. rewrite Hc in Hrs.
      assert (He' : qadd e (qmul (sp i) t) == e + sp i * t) by (rewrite qadd_eq, qmul_eq; reflexivity).
      assert (Hle1 : e + sp i * t <= 1).
      { pose proof (le_div_mul _ _ _ (sp_pos i) (time_agents n item sp st t i e Ht Hi Ee)). lra. }
      destruct (Qle_bool 1 (qadd e (qmul (sp i) t))) eqn:Eq.
      * apply Qle_bool_iff in Eq. rewrite Hrs, HE. lra.
      * rewrite Hrs, HE, He'. ring.
    + destruct HR as [_ Hpos]. rewrite Hrs. unfold cur. rewrite Hpos. simpl. rewrite HE. ring.
  - (* active *)
    intros i e' Hi He' Hp'. unfold Eat3Proof.nextst in *. cbn [pos rem eaten] in *. apply finished_iff. cbn [rem].
    unfold pos_next in Hp'. rewrite nth_map_seq in Hp' by exact Hi.
    assert (Hsome : exists e, nth i (eaten st) None = Some e).
    { unfold eaten_next in He'. rewrite nth_map_seq in He' by exact Hi. destruct (nth i (eaten st) None) as [e|]; [eauto|discriminate]. }
    destruct Hsome as [e Ee].
    destruct (nth i (pos st) None) as [p|] eqn:Ep; [|pose proof (HA i e Hi Ee Ep); congruence].
    cbv zeta in Hp'. set (a := advance n item (rem_next n item sp st t) i (S n) p) in *.
    destruct (a =? n)%nat eqn:En; [|rewrite He' in Hp'; discriminate]. apply Nat.eqb_eq in En.
    intros j Hj. destruct (item_surj i j Hi Hj) as [q [Hq <-]].
    destruct (Nat.lt_ge_cases q p) as [L|L].
    + apply rem_next_none; [apply item_lt|]. apply (HPa i p q Hi Ep L).
    + apply (advance_passed _ i (S n) p q L). fold a. lia.
Qed.

Lemma init_inv2 : Inv2 (einit n).
Proof.
  pose proof (init_inv n item item_lt) as HI. split; [exact HI|]. split; [|split].
  - intros i p q Hi Hp Hq. unfold einit in Hp. cbn [pos] in Hp. rewrite nth_repeat in Hp by exact Hi. injection Hp as <-. lia.
  - intros i Hi. destruct HI as [_ [_ [HR _]]]. specialize (HR i Hi). unfold einit in *. cbn [eaten] in *. rewrite nth_repeat in * by exact Hi.
    assert (H0 : RS (einit n) i == 0).
    { unfold Eat3Proof.RS. rewrite (sumQ_ext _ (fun _ => 0)); [rewrite sumQ_const; ring|]. intros j Hj. apply in_seq in Hj. unfold E, einit. cbn [X].
      rewrite nth_repeat by exact Hi. rewrite nth_repeat by lia. reflexivity. }
    exact H0.
  - intros i e Hi He Hp. unfold einit in Hp. cbn [pos] in Hp. rewrite nth_repeat in Hp by exact Hi. discriminate.
Qed.

(* ---------- the measure: items not exhausted + agents not full ---------- *)
Definition mu (st : est) : nat :=
  (length (filter (fun j => is_some (nth j (rem st) None)) ids) + length (filter (fun i => is_some (nth i (eaten st) None)) ids))%nat.

Lemma mu_decreases st t : AllInv st -> step_time n item sp st = Some t -> (mu (nextst st t) < mu st)%nat.
Proof.
  intros [Hsh [HC [HR HP]]] Ht. unfold mu, Eat3Proof.nextst. cbn [rem eaten].
  assert (Hr : forall j, In j ids -> is_some (nth j (rem_next n item sp st t) None) = true -> is_some (nth j (rem st) None) = true).
  { intros j Hj. apply in_ids' in Hj. unfold rem_next. rewrite nth_map_seq by exact Hj. destruct (nth j (rem st) None); [reflexivity|discriminate]. }
  assert (He : forall i, In i ids -> is_some (nth i (eaten_next n sp st t) None) = true -> is_some (nth i (eaten st) None) = true).
  { intros i Hi. apply in_ids' in Hi. unfold eaten_next. rewrite nth_map_seq by exact Hi. destruct (nth i (eaten st) None); [reflexivity|discriminate]. }
  pose proof (filter_length_le' _ _ ids Hr) as Lr. pose proof (filter_length_le' _ _ ids He) as Le.
  (* the minimum is attained *)
  unfold step_time in Ht. destruct (fold_left qminO (cand_agents n sp st) None) as [ta|] eqn:Ea; [|discriminate].
  assert (Hcase : In (Some t) (cand_agents n sp st) \/ In (Some t) (cand_items n item sp st)).
  { destruct (qminO_in _ _ _ Ht) as [H|H].
    - injection H as <-. destruct (fold_qminO_in _ _ _ Ea) as [H|H]; [discriminate|now left].
    - destruct (fold_qminO_in _ _ _ H) as [H'|H']; [discriminate|now right]. }
  destruct Hcase as [Hin|Hin].
  - unfold cand_agents in Hin. apply in_map_iff in Hin as [i [Hi Hin]]. pose proof Hin as Hin'. apply in_ids' in Hin.
    destruct (nth i (eaten st) None) as [e|] eqn:Ee; [|discriminate]. injection Hi as Hi.
    assert (S1 : (length (filter (fun i => is_some (nth i (eaten_next n sp st t) None)) ids) < length (filter (fun i => is_some (nth i (eaten st) None)) ids))%nat).
    { apply filter_length_lt; [exact He|]. exists i. split; [exact Hin'|]. rewrite Ee. split; [reflexivity|].
      unfold eaten_next. rewrite nth_map_seq by exact Hin. rewrite Ee. cbv zeta.
      assert (Hq : 1 <= qadd e (qmul (sp i) t)).
      { rewrite qadd_eq, qmul_eq, <- Hi, qdiv_eq, qsub_eq. pose proof (sp_pos i). 
        assert (E1 : sp i * ((1 - e) / sp i) == 1 - e) by (field; lra). rewrite E1. lra. }
      apply Qle_bool_iff in Hq. rewrite Hq. reflexivity. }
    lia.
  - unfold cand_items in Hin. apply in_map_iff in Hin as [j [Hj Hin]]. pose proof Hin as Hin'. apply in_ids' in Hin.
    destruct (nth j (rem st) None) as [r|] eqn:Er; [|discriminate].
    destruct (Qle_bool (tot n item sp st j) 0) eqn:Etot; [discriminate|]. injection Hj as Hj.
    assert (Hpos : 0 < tot n item sp st j) by (apply Qnot_le_lt; intros Hle; apply Qle_bool_iff in Hle; congruence).
    assert (S1 : (length (filter (fun j => is_some (nth j (rem_next n item sp st t) None)) ids) < length (filter (fun j => is_some (nth j (rem st) None)) ids))%nat).
    { apply filter_length_lt; [exact Hr|]. exists j. split; [exact Hin'|]. rewrite Er. split; [reflexivity|].
      unfold rem_next. rewrite nth_map_seq by exact Hin. rewrite Er. cbv zeta.
      assert (Hq : qsub r (qmul (tot n item sp st j) t) <= 0).
      { rewrite qsub_eq, qmul_eq, <- Hj, qdiv_eq.
        assert (E1 : tot n item sp st j * (r / tot n item sp st j) == r) by (field; lra). rewrite E1. lra. }
      apply Qle_bool_iff in Hq. rewrite Hq. reflexivity. }
    lia.
Qed.

Lemma loop_terminates fuel : forall st, Inv2 st -> (mu st < fuel)%nat -> exists st', eloop n item sp fuel st = Some st'.
Proof.
  induction fuel as [|f IH]; intros st HI Hm; [lia|]. cbn [eloop]. destruct (finished n st) eqn:Ef; [eauto|].
  destruct HI as [HA [HPa [HE HAc]]].
  destruct (step_exists st HA HE Ef) as [t Ht]. unfold estep. rewrite Ht.
  apply (IH (nextst st t)).
  - apply step_preserves2; [exact (conj HA (conj HPa (conj HE HAc)))|exact Ef|exact Ht].
  - pose proof (mu_decreases st t HA Ht). lia.
Qed.

Lemma mu_init : mu (einit n) = (2 * n)%nat.
Proof.
  unfold mu, einit. cbn [rem eaten].
  assert (H : forall (x : Q), length (filter (fun j => is_some (nth j (repeat (Some x) n) None)) ids) = n).
  { intros x. rewrite (filter_all _ ids); [unfold ids; apply seq_length|].
    intros j Hj. apply in_ids' in Hj. rewrite nth_repeat by exact Hj. reflexivity. }
  rewrite !H. lia.
Qed.

Theorem eating_terminates : exists st, eloop n item sp (2 * n + 2) (einit n) = Some st.
Proof. apply loop_terminates; [apply init_inv2|rewrite mu_init; lia]. Qed.

(* ---------- reachable states ---------- *)
Inductive reach : est -> Prop :=
| reach_init : reach (einit n)
| reach_step st t : reach st -> finished n st = false -> step_time n item sp st = Some t -> reach (nextst st t).
Lemma reach_inv st : reach st -> Inv2 st.
Proof. induction 1 as [|st t _ IH Hf Ht]; [apply init_inv2|apply step_preserves2; assumption]. Qed.

(* eating in order: in a reachable state that is not finished, every agent that is not yet full is at a position whose
   item is not exhausted while every item it prefers is exhausted; the step adds t * speed to exactly that entry *)
Theorem eating_in_order st i e : reach st -> finished n st = false -> (i < n)%nat -> nth i (eaten st) None = Some e ->
  exists p, nth i (pos st) None = Some p /\ (p < n)%nat /\ nth (item i p) (rem st) None <> None /\
            (forall q, (q < p)%nat -> nth (item i q) (rem st) None = None) /\
            forall t j, (j < n)%nat -> step_time n item sp st = Some t ->
              E (nextst st t) i j == E st i j + (if (item i p =? j)%nat then t * sp i else 0).
Proof.
  intros Hr Hf Hi He. destruct (reach_inv st Hr) as [[Hsh [HC [HR HP]]] [HPa [HE HA]]].
  destruct (nth i (pos st) None) as [p|] eqn:Ep; [|pose proof (HA i e Hi He Ep); congruence].
  exists p. destruct (HP i p Hi Ep) as [Hp Hne]. split; [reflexivity|]. split; [exact Hp|]. split; [exact Hne|]. split.
  - intros q Hq. apply (HPa i p q Hi Ep Hq).
  - intros t j Hj Ht. unfold E at 1. unfold Eat3Proof.nextst. cbn [X]. rewrite (entry_next n item sp st t i j Hsh Hi Hj).
    unfold eats, cur. rewrite Ep. simpl. reflexivity.
Qed.
End Term.
