From Coq Require Import Arith ZArith List Bool Lia.
Import ListNotations.
Require Import GS2 GS3 GSTerm.

Section HTermS.
Variables (n m : nat).
Variable prefH : nat -> nat -> option nat.
Variable rkR : nat -> nat -> option nat.
Variable cap : nat -> nat.
Variable pl : nat -> list nat.
Hypothesis pl_spec : forall h k, prefH h k = nth_error (pl h) k.
Hypothesis pl_len : forall h, length (pl h) <= n.

Definition hstep := hosp_step prefH rkR.
Definition fires (st : hst) (q : nat) : bool :=
  Nat.eqb (cur st q) 1 && match prefH q (offers st q) with Some _ => true | None => false end.

Lemma hstep_offers st q p : offers (hstep st q) p = if Nat.eqb p q && fires st q then S (offers st p) else offers st p.
Proof.
  assert (Hap : fupd (offers st) q (S (offers st q)) p = if Nat.eqb p q then S (offers st p) else offers st p).
  { unfold fupd. destruct (Nat.eqb p q) eqn:E; [apply Nat.eqb_eq in E; subst; reflexivity|reflexivity]. }
  unfold hstep, hosp_step, fires. destruct (Nat.eqb (cur st q) 1) eqn:Ec; cbn [negb andb]; [|rewrite andb_false_r; reflexivity].
  destruct (prefH q (offers st q)) as [r|] eqn:Ep; [|rewrite andb_false_r; reflexivity]. rewrite andb_true_r.
  destruct (rkR r q) as [rr|]; [|cbn [offers]; exact Hap].
  destruct (match rwl st r with Some h0 => match rkR r h0 with Some r0 => (rr <? r0)%nat | None => false end | None => true end); cbn [offers]; exact Hap.
Qed.
Lemma hstep_cur_other st q p : p <> q -> cur (hstep st q) p = cur st p.
Proof.
  intros Hne. unfold hstep, hosp_step. destruct (Nat.eqb (cur st q) 1); cbn [negb]; [|reflexivity].
  destruct (prefH q (offers st q)) as [r|]; [|cbn [cur]; unfold fupd; apply Nat.eqb_neq in Hne; rewrite Hne; reflexivity].
  destruct (rkR r q) as [rr|]; [|reflexivity].
  destruct (match rwl st r with Some h0 => match rkR r h0 with Some r0 => (rr <? r0)%nat | None => false end | None => true end); reflexivity.
Qed.
Lemma hstep_quiet st q : fires st q = false ->
  offers (hstep st q) = offers st /\ rwl (hstep st q) = rwl st /\ acc (hstep st q) = acc st /\
  (forall p, cur (hstep st q) p = if Nat.eqb p q && Nat.eqb (cur st q) 1 then 2 else cur st p).
Proof.
  unfold fires, hstep, hosp_step. destruct (Nat.eqb (cur st q) 1) eqn:Ec; cbn [negb andb].
  - destruct (prefH q (offers st q)); [discriminate|]. intros _. cbn [offers rwl acc cur]. repeat split; try reflexivity.
    intros p. rewrite andb_true_r. unfold fupd. reflexivity.
  - intros _. repeat split; try reflexivity. intros p. rewrite andb_false_r. reflexivity.
Qed.

Lemma hfold_offers_le ps : forall st p, offers st p <= offers (fold_left hstep ps st) p.
Proof.
  induction ps as [|q t IH]; intros st p; simpl; [lia|]. eapply Nat.le_trans; [|apply IH].
  rewrite hstep_offers. destruct (Nat.eqb p q && fires st q); lia.
Qed.
Lemma hfold_strict ps : NoDup ps -> forall st q, In q ps -> fires st q = true -> offers st q < offers (fold_left hstep ps st) q.
Proof.
  induction 1 as [|q0 t Hn Hnd IH]; intros st q Hin Hf; [destruct Hin|]. simpl. destruct Hin as [->|Hin].
  - eapply Nat.lt_le_trans; [|apply hfold_offers_le]. rewrite hstep_offers, Nat.eqb_refl, Hf. simpl. lia.
  - assert (Hne : q <> q0) by (intros ->; contradiction).
    assert (Eo : offers (hstep st q0) q = offers st q).
    { rewrite hstep_offers. assert (E : Nat.eqb q q0 = false) by (apply Nat.eqb_neq; exact Hne). rewrite E. reflexivity. }
    rewrite <- Eo. apply IH; [exact Hin|]. unfold fires. rewrite (hstep_cur_other st q0 q Hne), Eo. exact Hf.
Qed.
Lemma hfold_quiet ps : NoDup ps -> forall st, (forall q, In q ps -> fires st q = false) ->
  let st' := fold_left hstep ps st in
  offers st' = offers st /\ rwl st' = rwl st /\ acc st' = acc st /\
  (forall p, cur st' p = if existsb (Nat.eqb p) ps && Nat.eqb (cur st p) 1 then 2 else cur st p).
Proof.
  induction 1 as [|q t Hn Hnd IH]; intros st Hq; simpl; [repeat split; reflexivity|].
  destruct (hstep_quiet st q (Hq q (or_introl eq_refl))) as [A [B [C D]]].
  assert (Hq' : forall q', In q' t -> fires (hstep st q) q' = false).
  { intros q' Hin. assert (q' <> q) by (intros ->; contradiction). unfold fires. rewrite (hstep_cur_other st q q' H), A. apply (Hq q' (or_intror Hin)). }
  destruct (IH (hstep st q) Hq') as [A' [B' [C' D']]]. cbv zeta in *.
  split; [congruence|]. split; [congruence|]. split; [congruence|].
  intros p. rewrite D'. rewrite (D p). cbn [existsb].
  destruct (Nat.eqb p q) eqn:Epq.
  - apply Nat.eqb_eq in Epq. subst p. cbn [orb andb]. destruct (Nat.eqb (cur st q) 1) eqn:Ec; cbn [andb].
    + change (Nat.eqb 2 1) with false. rewrite andb_false_r. reflexivity.
    + rewrite Ec. rewrite andb_false_r. reflexivity.
  - cbn [orb andb]. reflexivity.
Qed.

Definition OA (st : hst) : nat := sumn (offers st) (seq 0 m).
Definition hbounded (st : hst) : Prop := forall h, offers st h <= length (pl h).
Lemma hstep_bounded st q : hbounded st -> hbounded (hstep st q).
Proof.
  intros Hb p. rewrite hstep_offers. destruct (Nat.eqb p q) eqn:E; simpl; [|apply Hb]. apply Nat.eqb_eq in E. subst p.
  unfold fires. destruct (Nat.eqb (cur st q) 1); simpl; [|apply Hb]. destruct (prefH q (offers st q)) eqn:Ep; [|apply Hb].
  rewrite pl_spec in Ep. assert (offers st q < length (pl q)) by (apply nth_error_Some; congruence). lia.
Qed.
Lemma hfold_bounded ps : forall st, hbounded st -> hbounded (fold_left hstep ps st).
Proof. induction ps as [|q t IH]; intros st H; simpl; [exact H|]. apply IH, hstep_bounded, H. Qed.

Definition with_cur' (st : hst) (c : nat -> nat) : hst := {| offers := offers st; rwl := rwl st; acc := acc st; cur := c |}.

(* C01 termination, hospital-oriented: m*n + 2 rounds always suffice *)
Theorem hosp_loop_total : forall fuel st, hbounded st -> m * n + 2 <= OA st + fuel ->
  hosp_loop m prefH rkR cap fuel st <> None.
Proof.
  assert (Hbound : forall st, hbounded st -> OA st <= m * n).
  { intros st Hb. unfold OA. eapply Nat.le_trans; [apply (sumn_bound _ _ n)|rewrite seq_length; lia]. intros p _. eapply Nat.le_trans; [apply Hb|apply pl_len]. }
  induction fuel as [|f IH]; intros st Hb Hf; [pose proof (Hbound st Hb); lia|].
  cbn [hosp_loop]. change (hosp_step prefH rkR) with hstep. set (c1 := reflag cap st).
  destruct (forallb (fun h => negb (Nat.eqb (c1 h) 1)) (seq 0 m)) eqn:E; [discriminate|].
  set (st1 := {| offers := offers st; rwl := rwl st; acc := acc st; cur := c1 |}).
  set (st' := fold_left hstep (seq 0 m) st1).
  assert (Hb1 : hbounded st1) by exact Hb.
  assert (Hb' : hbounded st') by (apply (hfold_bounded (seq 0 m) st1 Hb1)).
  destruct (existsb (fires st1) (seq 0 m)) eqn:Ex.
  - apply existsb_exists in Ex. destruct Ex as [q [Hq Hfq]].
    assert (Hlt : OA st < OA st').
    { unfold OA. apply (sumn_lt _ _ _ q); [intros p _; apply (hfold_offers_le (seq 0 m) st1 p)|exact Hq|].
      apply (hfold_strict (seq 0 m) (seq_NoDup m 0) st1 q Hq Hfq). }
    apply IH; [exact Hb'|lia].
  - assert (Hquiet : forall q, In q (seq 0 m) -> fires st1 q = false).
    { intros q Hq. destruct (fires st1 q) eqn:Ef; [|reflexivity]. exfalso.
      assert (existsb (fires st1) (seq 0 m) = true) by (apply existsb_exists; exists q; auto). congruence. }
    destruct (hfold_quiet (seq 0 m) (seq_NoDup m 0) st1 Hquiet) as [A [B [C D]]]. fold st' in A, B, C, D.
    destruct f as [|f']; [pose proof (Hbound st Hb); lia|]. cbn [hosp_loop]. change (hosp_step prefH rkR) with hstep.
    assert (E' : forallb (fun h => negb (Nat.eqb (reflag cap st' h) 1)) (seq 0 m) = true).
    { apply forallb_forall. intros h Hh. apply negb_true_iff, Nat.eqb_neq. unfold reflag. rewrite (D h), C.
      assert (Hex : existsb (Nat.eqb h) (seq 0 m) = true) by (apply existsb_exists; exists h; split; [exact Hh|apply Nat.eqb_refl]).
      rewrite Hex. cbn [andb]. change (cur st1 h) with (c1 h). change (acc st1 h) with (acc st h).
      unfold c1, reflag.
      destruct (Nat.eqb (cur st h) 2) eqn:E2; [cbn; discriminate|].
      destruct (Z.of_nat (cap h) =? acc st h)%Z eqn:Ea; cbn [Nat.eqb]; rewrite ?Ea; cbn; discriminate. }
    rewrite E'. discriminate.
Qed.
End HTermS.
Print Assumptions hosp_loop_total.
