From Coq Require Import ZArith List Bool Lia.
Import ListNotations.
Require Import Voting VotingProof.
Local Open Scope Z_scope.

(* count of voters whose current rank of position j is 1 *)
Definition cnt1 (P : list (list Z)) (j : nat) : Z := sumZl (map (fun row => if nth j row 0 =? 1 then 1 else 0) P).
Lemma plurality_counts_nth P m j : (j < m)%nat -> nth j (plurality_counts P m) 0 = cnt1 P j.
Proof.
  intros H. unfold plurality_counts. fold (cnt1 P).
  change (map (fun j0 => sumZl (map (fun row => if nth j0 row 0 =? 1 then 1 else 0) P)) (seq 0 m)) with (map (cnt1 P) (seq 0 m)).
  rewrite (nth_indep _ 0 (cnt1 P 0%nat)) by (rewrite map_length, seq_length; exact H).
  rewrite (map_nth (cnt1 P) (seq 0 m) 0%nat j). rewrite seq_nth by exact H. reflexivity.
Qed.
Lemma cnt1_nonneg P j : 0 <= cnt1 P j.
Proof. unfold cnt1. induction P as [|r t IH]; [unfold sumZl; simpl; lia|]. simpl map. rewrite sumZl_cons. destruct (nth j r 0 =? 1); lia. Qed.
Lemma cnt1_le P j : cnt1 P j <= Z.of_nat (length P).
Proof. unfold cnt1. induction P as [|r t IH]; [unfold sumZl; simpl; lia|]. simpl map. rewrite sumZl_cons. simpl length. destruct (nth j r 0 =? 1); lia. Qed.
(* two different positions cannot both hold rank 1 in a duplicate-free ballot *)
Lemma cnt1_disjoint P j q : j <> q -> (forall row, In row P -> NoDup row /\ (j < length row)%nat /\ (q < length row)%nat) ->
  cnt1 P j + cnt1 P q <= Z.of_nat (length P).
Proof.
  intros Hne. unfold cnt1. induction P as [|r t IH]; intros H; [unfold sumZl; simpl; lia|].
  simpl map. rewrite !sumZl_cons. simpl length.
  assert (IH' : sumZl (map (fun row => if nth j row 0 =? 1 then 1 else 0) t) + sumZl (map (fun row => if nth q row 0 =? 1 then 1 else 0) t) <= Z.of_nat (length t))
    by (apply IH; intros row Hr; apply H; now right).
  destruct (H r (or_introl eq_refl)) as [Hnd [Hj Hq]].
  destruct (nth j r 0 =? 1) eqn:E1, (nth q r 0 =? 1) eqn:E2; try lia.
  exfalso. apply Z.eqb_eq in E1, E2. apply Hne. apply (proj1 (NoDup_nth r 0) Hnd j q Hj Hq). congruence.
Qed.
(* the minimum of the counts *)
Lemma minZ_le l : forall d, minZ l d <= d /\ forall x, In x l -> minZ l d <= x.
Proof.
  induction l as [|y t IH]; intros d; simpl; [split; [lia|intros x []]|].
  destruct (IH (Z.min d y)) as [A B]. split; [lia|]. intros x [<-|Hx]; [lia|apply B; exact Hx].
Qed.

(* a position holding a strict majority of first places is never among the candidates for elimination *)
Lemma majority_not_min P m q : (2 <= m)%nat -> (q < m)%nat ->
  (forall row, In row P -> NoDup row /\ length row = m) -> Z.of_nat (length P) < 2 * cnt1 P q ->
  let sc := plurality_counts P m in
  let mn := match sc with x :: t => minZ t x | [] => 0 end in
  nth q sc 0 <> mn.
Proof.
  intros Hm Hq Hrows Hmaj sc mn.
  assert (Hlen : length sc = m) by (unfold sc, plurality_counts; rewrite map_length, seq_length; reflexivity).
  (* pick another position j <> q *)
  set (j := if Nat.eqb q 0 then 1%nat else 0%nat).
  assert (Hj : (j < m)%nat /\ j <> q) by (unfold j; destruct (Nat.eqb q 0) eqn:E; [apply Nat.eqb_eq in E|apply Nat.eqb_neq in E]; lia).
  destruct Hj as [Hjm Hjq].
  assert (Hmn : mn <= nth j sc 0).
  { unfold mn. destruct sc as [|x t] eqn:Es; [simpl in Hlen; lia|]. destruct (minZ_le t x) as [A B].
    destruct j as [|j']; [simpl; exact A|]. simpl. apply B. apply nth_In. simpl in Hlen. lia. }
  unfold sc in *. rewrite !plurality_counts_nth in * by assumption.
  assert (Hd : cnt1 P j + cnt1 P q <= Z.of_nat (length P)).
  { apply cnt1_disjoint; [exact Hjq|]. intros row Hr. destruct (Hrows row Hr) as [Hnd Hl]. rewrite Hl. auto. }
  pose proof (cnt1_nonneg P j). lia.
Qed.
Print Assumptions majority_not_min.

(* ---------- deleting a column and closing the rank gap ---------- *)
Lemma remove_nth_length {A} (l : list A) d : (d < length l)%nat -> length (remove_nth l d) = pred (length l).
Proof. revert d; induction l as [|x t IH]; intros d H; simpl in *; [lia|]. destruct d; [reflexivity|]. simpl. rewrite IH by lia. destruct t; simpl in *; lia. Qed.
Lemma remove_nth_nth {A} (l : list A) d j x : nth j (remove_nth l d) x = nth (if (j <? d)%nat then j else S j) l x.
Proof.
  revert d j; induction l as [|y t IH]; intros d j; simpl; [destruct (j <? d)%nat, j; reflexivity|].
  destruct d; [destruct j; reflexivity|]. destruct j; [reflexivity|]. simpl. rewrite IH.
  change (S j <? S d)%nat with (j <? d)%nat. destruct (j <? d)%nat; reflexivity.
Qed.
Lemma remove_nth_in {A} (l : list A) d x : In x (remove_nth l d) -> In x l.
Proof. revert d; induction l as [|y t IH]; intros d H; simpl in *; [destruct d; exact H|]. destruct d; [now right|]. destruct H as [H|H]; [now left|right; eapply IH; exact H]. Qed.
Lemma remove_nth_nodup {A} (l : list A) d : NoDup l -> NoDup (remove_nth l d).
Proof.
  revert d; induction l as [|y t IH]; intros d H; simpl; [destruct d; constructor|]. inversion H; subst.
  destruct d; [assumption|]. constructor; [intros Hin; apply H2; eapply remove_nth_in; exact Hin|apply IH; assumption].
Qed.
Lemma remove_nth_notin (l : list Z) d : NoDup l -> (d < length l)%nat -> ~ In (nth d l 0) (remove_nth l d).
Proof.
  revert d; induction l as [|y t IH]; intros d H Hd; simpl in *; [lia|]. inversion H; subst.
  destruct d; [assumption|]. simpl. intros [E|Hin]; [apply H2; rewrite E; apply nth_In; lia|exact (IH d H3 ltac:(lia) Hin)].
Qed.

Definition renum (rd r : Z) : Z := if r >? rd then r - 1 else r.
Definition drop_row (row : list Z) (d : nat) : list Z := map (renum (nth d row 0)) (remove_nth row d).
Lemma drop_alt_rows P d : drop_alt P d = map (fun row => drop_row row d) P.
Proof. reflexivity. Qed.
Lemma drop_row_nodup row d : NoDup row -> (d < length row)%nat -> NoDup (drop_row row d).
Proof.
  intros Hnd Hd. unfold drop_row. set (rd := nth d row 0).
  pose proof (remove_nth_notin row d Hnd Hd) as Hn. fold rd in Hn.
  pose proof (remove_nth_nodup row d Hnd) as Hnd'. revert Hn Hnd'. generalize (remove_nth row d) as l.
  induction l as [|a t IH]; intros Hn Hnd'; simpl; [constructor|]. inversion Hnd'; subst. constructor.
  - intros Hin. apply in_map_iff in Hin. destruct Hin as [b [Eb Hb]].
    assert (a <> rd) by (intros ->; apply Hn; now left). assert (b <> rd) by (intros ->; apply Hn; now right).
    assert (a <> b) by (intros ->; contradiction). unfold renum in Eb.
    destruct (Z.gtb_spec b rd), (Z.gtb_spec a rd); lia.
  - apply IH; [intros Hin; apply Hn; now right|assumption].
Qed.
Lemma drop_row_length row d : (d < length row)%nat -> length (drop_row row d) = pred (length row).
Proof. intros H. unfold drop_row. rewrite map_length. apply remove_nth_length. exact H. Qed.
Lemma drop_row_keeps_first row d q : (d < length row)%nat -> (q < length row)%nat -> q <> d -> NoDup row -> nth q row 0 = 1 -> 1 <= nth d row 0 ->
  nth (if (q <? d)%nat then q else pred q) (drop_row row d) 0 = 1.
Proof.
  intros Hd Hq Hne Hnd H1 Hpos. unfold drop_row.
  set (q' := if (q <? d)%nat then q else pred q).
  assert (Hq' : (q' < length (remove_nth row d))%nat).
  { rewrite remove_nth_length by exact Hd. unfold q'. destruct (Nat.ltb_spec q d); lia. }
  rewrite (nth_indep _ 0 (renum (nth d row 0) 0)) by (rewrite map_length; exact Hq').
  rewrite (map_nth (renum (nth d row 0)) (remove_nth row d) 0 q'). rewrite remove_nth_nth.
  assert (E : (if (q' <? d)%nat then q' else S q') = q).
  { unfold q'. destruct (Nat.ltb_spec q d) as [Hl|Hg]; [destruct (Nat.ltb_spec q d); [reflexivity|lia]|].
    destruct (Nat.ltb_spec (pred q) d); lia. }
  rewrite E, H1. unfold renum.
  assert (nth d row 0 <> 1). { intros E1. apply Hne. apply (proj1 (NoDup_nth row 0) Hnd q d Hq Hd). congruence. }
  destruct (Z.gtb_spec 1 (nth d row 0)); lia.
Qed.
Print Assumptions drop_row_keeps_first.

(* ---------- C12: a strict-majority favourite wins STV whatever the tie-breaker answers ---------- *)
Lemma in_combine_seqZ (l : list Z) v i s : In (v, i) (combine l (seq s (length l))) -> (s <= i < s + length l)%nat /\ nth (i - s) l 0 = v.
Proof.
  revert s; induction l as [|x t IH]; intros s H; simpl in H; [destruct H|]. destruct H as [E|H].
  - injection E as -> ->. rewrite Nat.sub_diag. simpl. split; [lia|reflexivity].
  - destruct (IH (S s) H) as [Hr Hn]. simpl length. split; [lia|]. replace (i - s)%nat with (S (i - S s)) by lia. exact Hn.
Qed.
Lemma cnt1_mono P f q q' : (forall row, In row P -> nth q row 0 = 1 -> nth q' (f row) 0 = 1) -> cnt1 P q <= cnt1 (map f P) q'.
Proof.
  intros H. unfold cnt1. induction P as [|r t IH]; [unfold sumZl; simpl; lia|]. simpl map. rewrite !sumZl_cons.
  assert (IH' : sumZl (map (fun row => if nth q row 0 =? 1 then 1 else 0) t) <= sumZl (map (fun row => if nth q' row 0 =? 1 then 1 else 0) (map f t)))
    by (apply IH; intros row Hr; apply H; now right).
  destruct (nth q r 0 =? 1) eqn:E.
  - apply Z.eqb_eq in E. rewrite (H r (or_introl eq_refl) E). rewrite Z.eqb_refl. lia.
  - destruct (nth q' (f r) 0 =? 1); lia.
Qed.

Definition SInv (P : list (list Z)) (alts : list Z) (q : nat) (a : Z) : Prop :=
  let m := length alts in
  (forall row, In row P -> NoDup row /\ length row = m /\ forall x, In x row -> 1 <= x) /\
  (q < m)%nat /\ nth q alts 0 = a /\ Z.of_nat (length P) < 2 * cnt1 P q.

Theorem stv_majority fuel : forall P alts oracle q a w, SInv P alts q a -> stv_loop fuel P alts oracle = Some w -> w = a.
Proof.
  induction fuel as [|f IH]; intros P alts oracle q a w [Hrows [Hq [Ha Hmaj]]] H; [discriminate|]. cbn [stv_loop] in H.
  destruct alts as [|a0 [|a1 rest]] eqn:Ealts.
  - simpl in Hq. lia.
  - injection H as <-. simpl in Hq. assert (q = 0%nat) by lia. subst q. simpl in Ha. exact Ha.
  - rewrite <- Ealts in *. set (m := length alts) in *.
    assert (Hm2 : (2 <= m)%nat) by (unfold m; rewrite Ealts; simpl; lia).
    set (sc := plurality_counts P m) in *.
    set (mn := match sc with x :: t => minZ t x | [] => 0 end) in *.
    assert (Hlsc : length sc = m) by (unfold sc, plurality_counts; rewrite map_length, seq_length; reflexivity).
    pose proof (majority_not_min P m q Hm2 Hq (fun row Hr => let '(conj A (conj B _)) := Hrows row Hr in conj A B) Hmaj) as Hnm.
    cbv zeta in Hnm. fold sc in Hnm. fold mn in Hnm.
    destruct oracle as [|o os]; [discriminate|].
    destruct (nth_error (map snd (filter (fun p => fst p =? mn) (combine sc (seq 0 (length sc))))) o) as [d|] eqn:Ed; [|discriminate].
    apply nth_error_In in Ed. apply in_map_iff in Ed. destruct Ed as [[v i] [Ei Hin]]. simpl in Ei. subst i.
    apply filter_In in Hin. destruct Hin as [Hc Hv]. simpl in Hv. apply Z.eqb_eq in Hv. subst v.
    apply in_combine_seqZ in Hc. destruct Hc as [Hd Hnd]. rewrite Nat.sub_0_r in Hnd. rewrite Hlsc in Hd.
    assert (Hdq : d <> q) by (intros ->; congruence).
    set (q' := if (q <? d)%nat then q else pred q).
    apply (IH (drop_alt P d) (remove_nth alts d) os q' a w); [|exact H].
    assert (Hlen' : length (remove_nth alts d) = pred m) by (apply remove_nth_length; lia).
    split; [|split; [|split]].
    + intros row Hr. rewrite drop_alt_rows in Hr. apply in_map_iff in Hr. destruct Hr as [r0 [<- Hr0]].
      destruct (Hrows r0 Hr0) as [Hnd0 [Hl0 Hpos0]]. split; [apply drop_row_nodup; [exact Hnd0|lia]|].
      split; [rewrite drop_row_length by lia; rewrite Hlen'; lia|].
      intros x Hx. unfold drop_row in Hx. apply in_map_iff in Hx. destruct Hx as [y [<- Hy]].
      apply remove_nth_in in Hy. pose proof (Hpos0 y Hy). assert (1 <= nth d r0 0) by (apply Hpos0, nth_In; lia).
      unfold renum. destruct (Z.gtb_spec y (nth d r0 0)); lia.
    + rewrite Hlen'. unfold q'. destruct (Nat.ltb_spec q d); lia.
    + rewrite remove_nth_nth. assert (E : (if (q' <? d)%nat then q' else S q') = q).
      { unfold q'. destruct (Nat.ltb_spec q d) as [Hl|Hg]; [destruct (Nat.ltb_spec q d); [reflexivity|lia]|]. destruct (Nat.ltb_spec (pred q) d); lia. }
      rewrite E. exact Ha.
    + rewrite drop_alt_rows. rewrite map_length.
      assert (Hmono : cnt1 P q <= cnt1 (map (fun row => drop_row row d) P) q').
      { apply cnt1_mono. intros row Hr H1. destruct (Hrows row Hr) as [Hnd0 [Hl0 Hpos0]].
        apply drop_row_keeps_first; try lia; [exact Hnd0|apply Hpos0, nth_In; lia]. }
      lia.
Qed.
Print Assumptions stv_majority.
