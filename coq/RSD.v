From Coq Require Import ZArith List Bool Lia.
Import ListNotations.
Local Open Scope Z_scope.

(* RandomSerialDictatorship.scf: the drawn order is an argument *)
Definition memn (x : nat) (l : list nat) : bool := existsb (Nat.eqb x) l.
Fixpoint upd {A} (l : list A) (i : nat) (x : A) : list A :=
  match l, i with [], _ => [] | _ :: r, O => x :: r | y :: r, S j => y :: upd r j x end.
(* np.nanargmin over the not-yet-blanked entries: first index of the minimum *)
Definition best_remaining (row : list (option Z)) (taken : list nat) : option nat :=
  fold_left (fun best jr => let '(j, r) := jr in
               match r with
               | None => best
               | Some rk => if memn j taken then best else
                            match best with None => Some j
                            | Some b => match nth b row None with Some rb => if rk <? rb then Some j else best | None => Some j end end
               end) (combine (seq 0 (length row)) row) None.
Definition rsd (P : list (list (option Z))) (order : list nat) (fixer : Z) : list (option Z) :=
  fst (fold_left (fun st a => let '(alloc, taken) := st in
                    match best_remaining (nth a P []) taken with
                    | None => st
                    | Some item => (upd alloc a (Some (Z.of_nat item + fixer)), item :: taken)
                    end) order (repeat None (length P), [])).
Definition oz_eqb (a b : option Z) : bool := match a, b with Some x, Some y => x =? y | None, None => true | _, _ => false end.
Definition alloc_eqb (a b : list (option Z)) : bool := (length a =? length b)%nat && forallb (fun p => oz_eqb (fst p) (snd p)) (combine a b).
