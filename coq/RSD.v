(* RandomSerialDictatorship.scf (randomized_allocation.py:35-48): the drawn order is an argument.
   pref is the profile with the columns of taken items blanked; np.nanargmin = first index of the
   minimal non-NaN rank. *)
From Coq Require Import ZArith List Bool Lia.
Import ListNotations.
Local Open Scope Z_scope.

Definition memn (x : nat) (l : list nat) : bool := existsb (Nat.eqb x) l.
Fixpoint upd {A} (l : list A) (i : nat) (x : A) : list A :=
  match l, i with [], _ => [] | _ :: r, O => x :: r | y :: r, S j => y :: upd r j x end.

(* scan of one row from column j on; best = (column, rank) of the current minimum *)
Fixpoint best_from (row : list (option Z)) (taken : list nat) (j : nat) (best : option (nat * Z)) : option (nat * Z) :=
  match row with
  | [] => best
  | r :: t =>
    let best' := match r with
                 | None => best
                 | Some rk => if memn j taken then best else
                              match best with None => Some (j, rk) | Some (_, rb) => if rk <? rb then Some (j, rk) else best end
                 end in
    best_from t taken (S j) best'
  end.
Definition best_remaining (row : list (option Z)) (taken : list nat) : option nat := option_map fst (best_from row taken 0 None).

Definition rsd_step (P : list (list (option Z))) (fixer : Z) (st : list (option Z) * list nat) (a : nat) : list (option Z) * list nat :=
  let '(alloc, taken) := st in
  match best_remaining (nth a P []) taken with
  | None => st
  | Some item => (upd alloc a (Some (Z.of_nat item + fixer)), item :: taken)
  end.
Definition rsd (P : list (list (option Z))) (order : list nat) (fixer : Z) : list (option Z) :=
  fst (fold_left (rsd_step P fixer) order (repeat None (length P), [])).

Definition oz_eqb (a b : option Z) : bool := match a, b with Some x, Some y => x =? y | None, None => true | _, _ => false end.
Definition alloc_eqb (a b : list (option Z)) : bool := (length a =? length b)%nat && forallb (fun p => oz_eqb (fst p) (snd p)) (combine a b).
