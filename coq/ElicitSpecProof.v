(* C14: what the per-agent function of the threshold rules computes (favourite exact, threshold sets both ways,
   lower bound), for every m, k, thresholds and valuations weakly decreasing along the agent's ranking. *)
From Coq Require Import Arith ZArith QArith List Bool Lia Lqa.
Import ListNotations.
From SCK Require Import Argsort ElicitM ElicitRun ElicitEval ElicitBS ElicitRules ElicitSpec.
Local Open Scope Z_scope.

(* ---------- list update facts ---------- *)
Lemma updz_length {A} (l : list A) i x : length (updz l i x) = length l.
Proof. revert i; induction l as [|y t IH]; intros i; destruct i; simpl; auto. Qed.
Lemma updz_nth_same {A} (l : list A) i x d : (i < length l)%nat -> nth i (updz l i x) d = x.
Proof. revert i; induction l as [|y t IH]; intros i H; destruct i; simpl in *; try lia; [reflexivity|apply IH; lia]. Qed.
Lemma updz_nth_other {A} (l : list A) i j x d : i <> j -> nth j (updz l i x) d = nth j l d.
Proof. revert i j; induction l as [|y t IH]; intros i j H; destruct i, j; simpl; try reflexivity; try lia. apply IH. lia. Qed.

Lemma fold_updz_spec (idx : nat -> nat) (v : Q) (pos : list nat) : forall (row : list Q) j d,
  (forall p, In p pos -> (idx p < length row)%nat) ->
  nth j (fold_left (fun r p => updz r (idx p) v) pos row) d = if existsb (fun p => Nat.eqb (idx p) j) pos then v else nth j row d.
Proof.
  induction pos as [|p t IH]; intros row j d Hb; cbn [fold_left existsb]; [reflexivity|].
  rewrite IH by (intros q Hq; rewrite updz_length; apply Hb; now right).
  destruct (existsb (fun p0 => Nat.eqb (idx p0) j) t) eqn:E; [rewrite orb_true_r; reflexivity|]. rewrite orb_false_r.
  destruct (Nat.eqb (idx p) j) eqn:E2.
  - apply Nat.eqb_eq in E2. subst j. apply updz_nth_same. apply Hb. now left.
  - apply Nat.eqb_neq in E2. apply updz_nth_other. exact E2.
Qed.
Lemma fold_updz_length (idx : nat -> nat) (v : Q) (pos : list nat) : forall row, length (fold_left (fun r p => updz r (idx p) v) pos row) = length row.
Proof. induction pos as [|p t IH]; intros row; cbn [fold_left]; [reflexivity|]. rewrite IH. apply updz_length. Qed.

Section AgentProof.
Variables (fixer : Z) (V : key -> Q) (rk : list Z) (i : nat) (m : Z) (tauf : nat -> Q) (byq : bool) (init : Q) (k : nat).
Notation valp := (valp fixer V rk i).
Notation ps := (ps fixer V rk i m tauf).
Notation vlev := (vlev fixer V rk i m tauf byq).
Definition idx (p : Z) : nat := Z.to_nat (rkat rk p).

Hypothesis Hm : 1 <= m.
Hypothesis Hrk_len : length rk = Z.to_nat m.
Hypothesis Hrk_nodup : NoDup rk.
Hypothesis Hrk_range : forall e, In e rk -> 0 <= e < m.
Hypothesis Hmono : forall p q, 0 <= p -> p <= q -> q < m -> (valp q <= valp p)%Q.
Hypothesis Htau : forall l, (1 <= l)%nat -> (l < k)%nat -> (tauf (S l) <= tauf l)%Q.

Lemma idx_lt p : 0 <= p < m -> (idx p < Z.to_nat m)%nat.
Proof.
  intros Hp. unfold idx, rkat. assert (Hin : In (nth (Z.to_nat p) rk 0) rk) by (apply nth_In; lia).
  pose proof (Hrk_range _ Hin). lia.
Qed.
Lemma idx_inj p q : 0 <= p < m -> 0 <= q < m -> idx p = idx q -> p = q.
Proof.
  intros Hp Hq E. unfold idx, rkat in E.
  assert (Hp' : In (nth (Z.to_nat p) rk 0) rk) by (apply nth_In; lia).
  assert (Hq' : In (nth (Z.to_nat q) rk 0) rk) by (apply nth_In; lia).
  pose proof (Hrk_range _ Hp'). pose proof (Hrk_range _ Hq').
  assert (E2 : nth (Z.to_nat p) rk 0 = nth (Z.to_nat q) rk 0) by lia.
  apply (proj1 (NoDup_nth rk 0) Hrk_nodup) in E2; lia.
Qed.

(* the search result, from the proved postcondition of the binary search *)
Lemma ps_spec l : 0 <= ps l < m /\ (ps l = 0 \/ (tauf l <= valp (ps l))%Q) /\ (ps l + 1 = m \/ (valp (ps l + 1) < tauf l)%Q).
Proof.
  unfold ElicitSpec.ps. rewrite <- eval_bsearch.
  pose proof (run_eval fixer V (bsearchP (S (Z.to_nat m)) rk (Z.of_nat i) 0 m (tauf l)) einit (memo_inv_init V)) as [He _].
  destruct (run true fixer V (bsearchP (S (Z.to_nat m)) rk (Z.of_nat i) 0 m (tauf l)) einit) as [p st'] eqn:Er. cbn [fst] in He. rewrite <- He.
  pose proof (bsearch_spec fixer V rk (Z.of_nat i) m (tauf l) (S (Z.to_nat m)) 0 m einit p st' (memo_inv_init V) Er ltac:(lia) ltac:(lia) ltac:(lia) ltac:(lia) (or_introl eq_refl) (or_introl eq_refl))
    as [_ [A [B [C D]]]].
  split; [lia|]. split; [exact C|exact D].
Qed.

Lemma ps_mono_step l : (1 <= l)%nat -> (l < k)%nat -> ps l <= ps (S l).
Proof.
  intros H1 H2. destruct (ps_spec l) as [[A1 A2] [B C]]. destruct (ps_spec (S l)) as [[A1' A2'] [B' C']].
  destruct (Z_le_gt_dec (ps l) (ps (S l))) as [Hle|Hgt]; [exact Hle|exfalso].
  destruct B as [B|B]; [lia|]. destruct C' as [C'|C']; [lia|].
  pose proof (Hmono (ps (S l) + 1) (ps l) ltac:(lia) ltac:(lia) ltac:(lia)). pose proof (Htau l H1 H2). lra.
Qed.
Lemma ps_mono l l' : (1 <= l)%nat -> (l <= l')%nat -> (l' <= k)%nat -> ps l <= ps l'.
Proof.
  intros H1 H2 H3. induction l' as [|l' IH]; [lia|]. destruct (Nat.eq_dec l (S l')) as [->|Hne]; [lia|].
  assert (ps l <= ps l') by (apply IH; lia). pose proof (ps_mono_step l' ltac:(lia) ltac:(lia)). lia.
Qed.

(* one fill *)
Lemma fill_spec row lo hi v q d : 0 <= lo -> lo <= hi -> hi < m -> length row = Z.to_nat m -> 0 <= q < m ->
  nth (idx q) (fill row rk lo hi v) d = if (lo <? q) && (q <=? hi) then v else nth (idx q) row d.
Proof.
  intros Hlo Hle Hhi Hlen Hq. unfold fill.
  rewrite (fold_updz_spec (fun p => Z.to_nat (rkat rk (Z.of_nat p))) v).
  - assert (E : existsb (fun p => Nat.eqb (Z.to_nat (rkat rk (Z.of_nat p))) (idx q)) (seq (S (Z.to_nat lo)) (Z.to_nat hi - Z.to_nat lo)) = (lo <? q) && (q <=? hi)).
    { destruct ((lo <? q) && (q <=? hi)) eqn:Er.
      - apply andb_true_iff in Er as [E1 E2]. apply Z.ltb_lt in E1. apply Z.leb_le in E2. apply existsb_exists. exists (Z.to_nat q). split; [apply in_seq; lia|].
        apply Nat.eqb_eq. rewrite Z2Nat.id by lia. reflexivity.
      - destruct (existsb _ _) eqn:Ee; [|reflexivity]. apply existsb_exists in Ee as [p [Hp Ep]]. apply in_seq in Hp. apply Nat.eqb_eq in Ep.
        assert (Z.of_nat p = q) by (apply idx_inj; [lia|lia|exact Ep]). apply andb_false_iff in Er. destruct Er as [Er|Er]; [apply Z.ltb_ge in Er|apply Z.leb_gt in Er]; lia. }
    rewrite E. reflexivity.
  - intros p Hp. apply in_seq in Hp. rewrite Hlen. apply (idx_lt (Z.of_nat p)). lia.
Qed.
Lemma fill_length row lo hi v : length (fill row rk lo hi v) = length row.
Proof. unfold fill. apply fold_updz_length. Qed.

(* invariant after the levels 1..l *)
Definition RowInv (l : nat) (rs : list Q * Z) : Prop :=
  length (fst rs) = Z.to_nat m /\ 0 <= snd rs < m /\ (forall l', (1 <= l')%nat -> (l' <= l)%nat -> ps l' <= snd rs) /\ (snd rs = if (l =? 0)%nat then 0 else ps l) /\
  nth (idx 0) (fst rs) 0%Q = valp 0 /\
  (forall q, 1 <= q -> q <= snd rs -> exists l', (1 <= l')%nat /\ (l' <= l)%nat /\ q <= ps l' /\ (forall l'', (1 <= l'')%nat -> (l'' < l')%nat -> ps l'' < q) /\ nth (idx q) (fst rs) 0%Q = vlev l') /\
  (forall q, snd rs < q -> q < m -> nth (idx q) (fst rs) 0%Q = init).

Lemma inv_init : RowInv 0 (agent_init fixer V rk i m init).
Proof.
  unfold RowInv, agent_init. cbn [fst snd].
  assert (Hl : length (repeat init (Z.to_nat m)) = Z.to_nat m) by apply repeat_length.
  split; [rewrite updz_length; exact Hl|]. split; [lia|]. split; [intros; lia|]. split; [reflexivity|]. split.
  - apply updz_nth_same. rewrite Hl. apply (idx_lt 0). lia.
  - split; [intros q H1 H2; lia|]. intros q H1 H2.
    rewrite updz_nth_other by (intros E; assert (0 = q) by (apply idx_inj; [lia|lia|exact E]); lia).
    rewrite (nth_indep _ 0%Q init) by (rewrite Hl; apply idx_lt; lia). apply nth_repeat.
Qed.

Lemma inv_step l rs : (l < k)%nat -> RowInv l rs -> RowInv (S l) (agent_step fixer V rk i m tauf byq rs (S l)).
Proof.
  intros Hl [Hlen [Hsp [Hge [Heq [Hfav [Hin Hout]]]]]]. destruct rs as [row sp]. cbn [fst snd] in *.
  destruct (ps_spec (S l)) as [[P1 P2] _].
  assert (Hsp_le : sp <= ps (S l)).
  { destruct l as [|l0]; [cbn in Heq; lia|]. cbn in Heq. rewrite Heq. apply ps_mono_step; lia. }
  unfold RowInv, agent_step. cbn [fst snd].
  split; [rewrite fill_length; exact Hlen|]. split; [lia|]. split.
  { intros l' H1 H2. destruct (Nat.eq_dec l' (S l)) as [->|Hne]; [lia|]. specialize (Hge l' H1 ltac:(lia)). lia. }
  split; [reflexivity|]. split.
  { rewrite fill_spec by (try lia; exact Hlen). assert (E : (sp <? 0) = false) by (apply Z.ltb_ge; lia). rewrite E. exact Hfav. }
  split.
  - intros q Hq1 Hq2. rewrite fill_spec by (try lia; exact Hlen).
    destruct (sp <? q) eqn:E1.
    + apply Z.ltb_lt in E1. assert (E2 : (q <=? ps (S l)) = true) by (apply Z.leb_le; lia). rewrite E2. cbn [andb].
      exists (S l). split; [lia|]. split; [lia|]. split; [lia|]. split; [|reflexivity].
      intros l'' H1 H2. specialize (Hge l'' H1 ltac:(lia)). lia.
    + apply Z.ltb_ge in E1. cbn [andb]. destruct (Hin q Hq1 E1) as [l' [A [B [C [D E]]]]].
      exists l'. split; [exact A|]. split; [lia|]. split; [exact C|]. split; [exact D|exact E].
  - intros q Hq1 Hq2. rewrite fill_spec by (try lia; exact Hlen).
    assert (E2 : (q <=? ps (S l)) = false) by (apply Z.leb_gt; lia). rewrite E2, andb_false_r. apply Hout; lia.
Qed.

Lemma inv_final : RowInv k (fold_left (agent_step fixer V rk i m tauf byq) (seq 1 k) (agent_init fixer V rk i m init)).
Proof.
  assert (G : forall j, (j <= k)%nat -> RowInv j (fold_left (agent_step fixer V rk i m tauf byq) (seq 1 j) (agent_init fixer V rk i m init))).
  { induction j as [|j IH]; intros Hj; [exact inv_init|].
    rewrite seq_S, fold_left_app. cbn [fold_left]. change (1 + j)%nat with (S j). apply inv_step; [lia|apply IH; lia]. }
  apply G. lia.
Qed.

(* ---------- C14 for one agent ---------- *)
Notation final := (agent_final fixer V rk i m tauf byq init k).

Theorem sim_favourite : nth (idx 0) final 0%Q = valp 0.
Proof. destruct inv_final as [_ [_ [_ [_ [H _]]]]]. exact H. Qed.

Theorem sim_length : length final = Z.to_nat m.
Proof. destruct inv_final as [H _]. exact H. Qed.

(* position q >= 1 of the ranking: either it lies in the l'-th acceptable set — then its true value is >= tau_l',
   its simulated value is the level's value (tau_l', or for the two-sided rule the value at the last position
   of the set, which is the smallest true value in the set) and does not exceed its true value — or it lies
   outside all sets — then it keeps the initial value and its true value is below the last threshold *)
Theorem sim_sets q : 1 <= q -> q < m -> (1 <= k)%nat ->
  (exists l', (1 <= l')%nat /\ (l' <= k)%nat /\ q <= ps l' /\ (forall l'', (1 <= l'')%nat -> (l'' < l')%nat -> ps l'' < q) /\
              nth (idx q) final 0%Q = vlev l' /\ (tauf l' <= valp q)%Q /\ (vlev l' <= valp q)%Q /\
              (byq = true -> vlev l' = valp (ps l') /\ forall q', 1 <= q' -> q' <= ps l' -> (valp (ps l') <= valp q')%Q) /\
              (forall l'', (1 <= l'')%nat -> (l'' < l')%nat -> (valp q < tauf l'')%Q)) \/
  (ps k < q /\ nth (idx q) final 0%Q = init /\ (valp q < tauf k)%Q).
Proof.
  intros Hq1 Hq2 Hk. destruct inv_final as [_ [Hsp [_ [Heq [_ [Hin Hout]]]]]].
  set (rs := fold_left (agent_step fixer V rk i m tauf byq) (seq 1 k) (agent_init fixer V rk i m init)) in *.
  assert (Esp : snd rs = ps k) by (rewrite Heq; destruct k; [lia|reflexivity]).
  destruct (Z_le_gt_dec q (snd rs)) as [Hle|Hgt].
  - left. destruct (Hin q Hq1 Hle) as [l' [A [B [C [D E]]]]]. exists l'. split; [exact A|]. split; [exact B|]. split; [exact C|]. split; [exact D|].
    split; [exact E|]. destruct (ps_spec l') as [[S1 S2] [S3 _]]. destruct S3 as [S3|S3]; [lia|].
    assert (Hv : (valp (ps l') <= valp q)%Q) by (apply Hmono; lia).
    split; [lra|]. split; [|split].
    + unfold ElicitSpec.vlev. destruct byq; [exact Hv|lra].
    + intros Hb. unfold ElicitSpec.vlev. rewrite Hb. split; [reflexivity|]. intros q' H1 H2. apply Hmono; lia.
    + intros l'' H1 H2. specialize (D l'' H1 H2). destruct (ps_spec l'') as [[T1 T2] [_ T4]]. destruct T4 as [T4|T4]; [lia|].
      pose proof (Hmono (ps l'' + 1) q ltac:(lia) ltac:(lia) ltac:(lia)). lra.
  - right. rewrite <- Esp. split; [lia|]. split; [apply Hout; lia|].
    destruct (ps_spec k) as [[S1 S2] [_ S4]]. rewrite Esp in Hgt. destruct S4 as [S4|S4]; [lia|].
    pose proof (Hmono (ps k + 1) q ltac:(lia) ltac:(lia) ltac:(lia)). lra.
Qed.
End AgentProof.
