From Coq Require Import Arith List Bool Lia Permutation.
Import ListNotations.

(* C04: a Hall violator certifies that no acceptable one-to-one assignment exists.
   acc i j = true iff item j is acceptable to agent i (value is not NaN). *)
Section Hall.
Variable n : nat.
Variable acc : nat -> nat -> bool.
Definition assignment (tau : list nat) : Prop := Permutation tau (seq 0 n).          (* agent i gets nth i tau *)
Definition acceptable (tau : list nat) : Prop := forall i, i < n -> acc i (nth i tau 0) = true.
(* the certificate: a duplicate-free set A of agents and a duplicate-free list B of items containing every item acceptable to some agent of A, with |B| < |A| *)
Definition violator (A B : list nat) : Prop :=
  NoDup A /\ (forall i, In i A -> i < n) /\ NoDup B /\ length B < length A /\
  forall i j, In i A -> j < n -> acc i j = true -> In j B.

Theorem hall_sound A B : violator A B -> forall tau, assignment tau -> ~ acceptable tau.
Proof.
  intros [HA [HAn [HB [Hlen Hcov]]]] tau Hperm Hacc.
  assert (Hlt : length tau = n) by (rewrite (Permutation_length Hperm); apply seq_length).
  assert (Hnd : NoDup tau) by (apply (Permutation_NoDup (Permutation_sym Hperm)); apply seq_NoDup).
  (* the items given to A are |A| distinct items, all inside B *)
  set (img := map (fun i => nth i tau 0) A).
  assert (Himg_nd : NoDup img).
  { unfold img. clear Hlen Hcov. induction HA as [|a t Ha Hndt IH]; simpl; [constructor|]. constructor.
    - intros Hin. apply in_map_iff in Hin. destruct Hin as [b [Eb Hb]].
      assert (a < n) by (apply HAn; now left). assert (b < n) by (apply HAn; now right).
      assert (b = a) by (apply (proj1 (NoDup_nth tau 0) Hnd b a); [lia|lia|exact Eb]). subst. contradiction.
    - apply IH. intros i Hi. apply HAn. now right. }
  assert (Hinc : incl img B).
  { intros j Hj. unfold img in Hj. apply in_map_iff in Hj. destruct Hj as [i [<- Hi]]. pose proof (HAn i Hi) as Hin.
    apply (Hcov i _ Hi); [|apply Hacc; exact Hin].
    assert (In (nth i tau 0) tau) by (apply nth_In; lia). apply (Permutation_in _ Hperm) in H. apply in_seq in H. lia. }
  pose proof (NoDup_incl_length Himg_nd Hinc) as Hle. unfold img in Hle. rewrite map_length in Hle. lia.
Qed.
End Hall.
Print Assumptions hall_sound.
