(* Correspondence checker for GaleShapley.scf (C01, C02). *)
From Coq Require Import Arith List Bool.
Import ListNotations.
From SCK Require Import Argsort StrictB GSFinal.

(* R : n x m and H : m x n profiles of 0-based ranks (None = NaN); capacities; orientation; fuel; observed pairs (0-based) *)
Definition gs_case : Type := (list (list okey) * list (list okey) * list nat * bool * nat * list (nat * nat))%type.
Definition pr_eqb (a b : nat * nat) : bool := Nat.eqb (fst a) (fst b) && Nat.eqb (snd a) (snd b).
Definition same_pairs (a b : list (nat * nat)) : bool :=
  Nat.eqb (length a) (length b) && forallb (fun x => existsb (pr_eqb x) b) a && forallb (fun x => existsb (pr_eqb x) a) b.
Definition gs_run (R H : list (list okey)) (cap : list nat) (ro : bool) (fuel : nat) : option (list (nat * nat)) :=
  if ro then gs_res_run R H (fun h => nth h cap 0) fuel else gs_hosp_run R H (fun h => nth h cap 0) fuel.
Definition chk_gs (c : gs_case) : bool :=
  let '(R, H, cap, ro, fuel, e) := c in
  strictb R (length H) && strictb H (length R) &&
  match gs_run R H cap ro fuel with Some o => same_pairs o e | None => false end.
