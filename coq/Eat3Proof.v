From Coq Require Import ZArith QArith List Bool Lia Lqa.
Import ListNotations.
Require Import Eat3.
Local Open Scope Q_scope.

(* ---------- normalised arithmetic ---------- *)
Lemma qadd_eq a b : qadd a b == a + b. Proof. apply Qred_correct. Qed.
Lemma qsub_eq a b : qsub a b == a - b. Proof. apply Qred_correct. Qed.
Lemma qmul_eq a b : qmul a b == a * b. Proof. apply Qred_correct. Qed.
Lemma qdiv_eq a b : qdiv a b == a / b. Proof. apply Qred_correct. Qed.

(* ---------- lists ---------- *)
Lemma nth_map_seq {A} (f : nat -> A) n i d : (i < n)%nat -> nth i (map f (seq 0 n)) d = f i.
Proof.
  intros H. rewrite (nth_indep _ d (f 0%nat)) by (rewrite map_length, seq_length; exact H).
  rewrite (map_nth f (seq 0 n) 0%nat i). rewrite seq_nth by exact H. reflexivity.
Qed.
Lemma nth_upd_same {A} (l : list A) i x d : (i < length l)%nat -> nth i (upd l i x) d = x.
Proof. revert i; induction l as [|y t IH]; intros i H; simpl in *; [lia|]. destruct i; simpl; [reflexivity|apply IH; lia]. Qed.
Lemma nth_upd_other {A} (l : list A) i j x d : i <> j -> nth j (upd l i x) d = nth j l d.
Proof. revert i j; induction l as [|y t IH]; intros i j H; simpl; [destruct i; reflexivity|]. destruct i, j; simpl; try reflexivity; [congruence|apply IH; congruence]. Qed.
Lemma length_upd {A} (l : list A) i x : length (upd l i x) = length l.
Proof. revert i; induction l as [|y t IH]; intros i; simpl; [destruct i; reflexivity|]. destruct i; simpl; [reflexivity|f_equal; apply IH]. Qed.

(* ---------- sums ---------- *)
Fixpoint sumQ (f : nat -> Q) (l : list nat) : Q := match l with [] => 0 | x :: t => f x + sumQ f t end.
Lemma sumQ_ext f g l : (forall x, In x l -> f x == g x) -> sumQ f l == sumQ g l.
Proof. induction l as [|a t IH]; simpl; intros H; [reflexivity|]. rewrite (H a (or_introl eq_refl)), IH; [reflexivity|]. intros; apply H; now right. Qed.
Lemma sumQ_add f g l : sumQ (fun x => f x + g x) l == sumQ f l + sumQ g l.
Proof. induction l as [|a t IH]; simpl; [lra|]. rewrite IH. lra. Qed.
Lemma sumQ_scale c f l : sumQ (fun x => c * f x) l == c * sumQ f l.
Proof. induction l as [|a t IH]; simpl; [lra|]. rewrite IH. lra. Qed.
Lemma sumQ_le f g l : (forall x, In x l -> f x <= g x) -> sumQ f l <= sumQ g l.
Proof. induction l as [|a t IH]; simpl; intros H; [lra|]. pose proof (H a (or_introl eq_refl)). assert (sumQ f t <= sumQ g t) by (apply IH; intros; apply H; now right). lra. Qed.
Lemma sumQ_swap (f : nat -> nat -> Q) A B : sumQ (fun u => sumQ (f u) B) A == sumQ (fun v => sumQ (fun u => f u v) A) B.
Proof.
  induction A as [|a t IH]; simpl.
  - induction B as [|b s IHB]; simpl; [lra|]. rewrite <- IHB. lra.
  - rewrite IH. rewrite <- sumQ_add. reflexivity.
Qed.
Lemma sumQ_const c l : sumQ (fun _ => c) l == inject_Z (Z.of_nat (length l)) * c.
Proof.
  induction l as [|a t IH]; simpl sumQ; [simpl; unfold inject_Z; ring|]. rewrite IH.
  change (length (a :: t)) with (S (length t)). rewrite Nat2Z.inj_succ. unfold Z.succ. rewrite inject_Z_plus. ring.
Qed.
(* indicator of one point of a duplicate-free list *)
Lemma sumQ_point c a l : NoDup l -> sumQ (fun x => if (a =? x)%nat then c else 0) l == if in_dec Nat.eq_dec a l then c else 0.
Proof.
  induction 1 as [|x t Hn Hnd IH]; simpl; [reflexivity|]. rewrite IH.
  destruct (a =? x)%nat eqn:E.
  - apply Nat.eqb_eq in E. subst x. destruct (Nat.eq_dec a a); [|congruence]. destruct (in_dec Nat.eq_dec a t); [contradiction|lra].
  - apply Nat.eqb_neq in E. destruct (Nat.eq_dec x a); [congruence|]. destruct (in_dec Nat.eq_dec a t); lra.
Qed.
Lemma sumq_acc l a : fold_left qadd l a == a + fold_left qadd l 0.
Proof.
  revert a; induction l as [|x t IH]; intros a; simpl; [lra|]. rewrite IH, (IH (qadd 0 x)), !qadd_eq. lra.
Qed.
Lemma sumq_filter (sp : nat -> Q) (p : nat -> bool) l : sumq (map sp (filter p l)) == sumQ (fun i => if p i then sp i else 0) l.
Proof.
  unfold sumq. induction l as [|x t IH]; simpl; [reflexivity|]. destruct (p x); simpl.
  - rewrite sumq_acc, qadd_eq, IH. lra.
  - rewrite IH. lra.
Qed.
(* if n numbers, each at most 1, sum to n, then each is 1 *)
Lemma all_one f l : (forall x, In x l -> f x <= 1) -> sumQ f l == inject_Z (Z.of_nat (length l)) -> forall x, In x l -> f x == 1.
Proof.
  induction l as [|a t IH]; intros Hle Hs x Hin; [destruct Hin|].
  simpl sumQ in Hs. change (length (a :: t)) with (S (length t)) in Hs. rewrite Nat2Z.inj_succ in Hs. unfold Z.succ in Hs. rewrite inject_Z_plus in Hs.
  assert (Ha : f a <= 1) by (apply Hle; now left).
  assert (Ht : sumQ f t <= inject_Z (Z.of_nat (length t))).
  { rewrite <- (Qmult_1_r (inject_Z (Z.of_nat (length t)))). rewrite <- sumQ_const. apply sumQ_le. intros y Hy. apply Hle. now right. }
  assert (E1 : f a == 1) by (change (inject_Z 1) with 1 in Hs; lra).
  assert (E2 : sumQ f t == inject_Z (Z.of_nat (length t))) by (change (inject_Z 1) with 1 in Hs; lra).
  destruct Hin as [<-|Hin]; [exact E1|]. apply IH; [intros; apply Hle; now right|exact E2|exact Hin].
Qed.

(* ---------- minima ---------- *)
Lemma qminO_le a b t : qminO a b = Some t -> (forall x, a = Some x -> t <= x) /\ (forall y, b = Some y -> t <= y).
Proof.
  destruct a as [x|], b as [y|]; simpl; intros H; try discriminate; injection H as <-.
  - destruct (Qle_bool x y) eqn:E.
    + apply Qle_bool_iff in E. split; intros z Hz; injection Hz as <-; lra.
    + assert (y < x) by (apply Qnot_le_lt; intros Hle; apply Qle_bool_iff in Hle; congruence). split; intros z Hz; injection Hz as <-; lra.
  - split; intros z Hz; [injection Hz as <-; lra|discriminate].
  - split; intros z Hz; [discriminate|injection Hz as <-; lra].
Qed.
Lemma fold_qminO_le l : forall acc t, fold_left qminO l acc = Some t ->
  (forall a, acc = Some a -> t <= a) /\ (forall x, In (Some x) l -> t <= x).
Proof.
  induction l as [|o r IH]; intros acc t H; simpl in H.
  - subst acc. split; [intros a E; injection E as <-; lra|intros x []].
  - destruct (IH _ _ H) as [H1 H2]. split.
    + intros a Ea. subst acc. destruct o as [y|]; simpl in H1.
      * destruct (Qle_bool a y) eqn:E; [apply (H1 a eq_refl)|].
        assert (y < a) by (apply Qnot_le_lt; intros Hle; apply Qle_bool_iff in Hle; congruence). specialize (H1 y eq_refl). lra.
      * apply (H1 a eq_refl).
    + intros x [E|Hin]; [|apply H2; exact Hin]. subst o. destruct acc as [a|]; simpl in H1.
      * destruct (Qle_bool a x) eqn:E; [apply Qle_bool_iff in E; specialize (H1 a eq_refl); lra|apply (H1 x eq_refl)].
      * apply (H1 x eq_refl).
Qed.
Lemma fold_qminO_in l : forall acc t, fold_left qminO l acc = Some t -> acc = Some t \/ In (Some t) l.
Proof.
  induction l as [|o r IH]; intros acc t H; simpl in H; [now left|].
  destruct (IH _ _ H) as [E|Hin]; [|right; now right].
  destruct acc as [a|], o as [y|]; simpl in E; try discriminate.
  - injection E as <-. destruct (Qle_bool a y); [now left|right; now left].
  - now left.
  - right. now left.
Qed.

Lemma fold_qminO_from_some l : forall a, fold_left qminO l (Some a) <> None.
Proof.
  induction l as [|o r IH]; intros a; simpl; [discriminate|]. destruct o as [y|]; simpl; [destruct (Qle_bool a y); apply IH|apply IH].
Qed.
Lemma fold_qminO_some l : forall acc x, In (Some x) l -> fold_left qminO l acc <> None.
Proof.
  induction l as [|o r IH]; intros acc x Hin; [destruct Hin|]. simpl. destruct Hin as [->|Hin]; [|eapply IH; exact Hin].
  destruct acc as [a|]; simpl; [destruct (Qle_bool a x); apply fold_qminO_from_some|apply fold_qminO_from_some].
Qed.

Lemma le_div_mul t a b : 0 < b -> t <= a / b -> t * b <= a.
Proof.
  intros Hb H. apply Qle_trans with (a / b * b).
  - apply Qmult_le_compat_r; [exact H|lra].
  - assert (a / b * b == a) by (field; lra). lra.
Qed.
Lemma div_nonneg a b : 0 <= a -> 0 < b -> 0 <= a / b.
Proof. intros Ha Hb. unfold Qdiv. apply Qmult_le_0_compat; [exact Ha|]. apply Qlt_le_weak, Qinv_lt_0_compat, Hb. Qed.

(* ---------- the step ---------- *)
Section Step.
Variable n : nat.
Variable item : nat -> nat -> nat.
Variable sp : nat -> Q.
Hypothesis item_lt : forall i p, (item i p < n)%nat.
Hypothesis sp_pos : forall i, 0 < sp i.
Let ids := seq 0 n.

Definition E (st : est) (i j : nat) : Q := nth j (nth i (X st) []) 0.
Definition CS (st : est) (j : nat) : Q := sumQ (fun i => E st i j) ids.
Definition RS (st : est) (i : nat) : Q := sumQ (fun j => E st i j) ids.
Definition Shape (st : est) : Prop := forall i, (i < n)%nat -> length (nth i (X st) []) = n.
Definition ColInv (st : est) : Prop := forall j, (j < n)%nat ->
  match nth j (rem st) None with Some r => CS st j == 1 - r /\ 0 < r | None => CS st j == 1 end.
Definition RowInv (st : est) : Prop := forall i, (i < n)%nat ->
  match nth i (eaten st) None with Some e => RS st i <= e /\ e < 1 | None => RS st i <= 1 /\ nth i (pos st) None = None end.

Notation cur := (cur item).
Notation eats := (eats item).
Notation tot := (tot n item sp).

Lemma in_ids i : In i ids <-> (i < n)%nat.
Proof. unfold ids. rewrite in_seq. lia. Qed.

Lemma entry_next st t i j : Shape st -> (i < n)%nat -> (j < n)%nat ->
  nth j (nth i (X_next n item sp st t) []) 0 == E st i j + (if eats st i j then t * sp i else 0).
Proof.
  intros Hsh Hi Hj. unfold X_next. rewrite nth_map_seq by exact Hi. unfold Eat3.eats, E.
  destruct (cur st i) as [c|] eqn:Ec; [|lra].
  destruct (c =? j)%nat eqn:Ecj.
  - apply Nat.eqb_eq in Ecj. subst c. rewrite nth_upd_same by (rewrite Hsh; assumption). rewrite qadd_eq, qmul_eq. lra.
  - apply Nat.eqb_neq in Ecj. rewrite nth_upd_other by exact Ecj. lra.
Qed.
Lemma shape_next st t : Shape st -> Shape {| pos := pos_next n item sp st t; rem := rem_next n item sp st t; eaten := eaten_next n sp st t; X := X_next n item sp st t |}.
Proof.
  intros Hsh i Hi. cbn [X]. unfold X_next. rewrite nth_map_seq by exact Hi.
  destruct (cur st i); [rewrite length_upd|]; apply Hsh; exact Hi.
Qed.

Lemma tot_sum st j : tot st j == sumQ (fun i => if eats st i j then sp i else 0) ids.
Proof. unfold Eat3.tot. apply sumq_filter. Qed.

Lemma CS_next st t j : Shape st -> (j < n)%nat ->
  sumQ (fun i => nth j (nth i (X_next n item sp st t) []) 0) ids == CS st j + t * tot st j.
Proof.
  intros Hsh Hj. rewrite (sumQ_ext _ (fun i => E st i j + t * (if eats st i j then sp i else 0)) ids).
  - rewrite sumQ_add, sumQ_scale, <- tot_sum. reflexivity.
  - intros i Hi. apply in_ids in Hi. rewrite entry_next by assumption. destruct (eats st i j); lra.
Qed.
Lemma RS_next st t i : Shape st -> (i < n)%nat ->
  sumQ (fun j => nth j (nth i (X_next n item sp st t) []) 0) ids == RS st i + (match cur st i with Some _ => t * sp i | None => 0 end).
Proof.
  intros Hsh Hi. rewrite (sumQ_ext _ (fun j => E st i j + (if eats st i j then t * sp i else 0)) ids).
  2:{ intros j Hj. apply in_ids in Hj. apply entry_next; assumption. }
  rewrite sumQ_add. unfold RS. apply Qplus_inj_l. unfold Eat3.eats. destruct (cur st i) as [c|] eqn:Ec.
  - rewrite (sumQ_point (t * sp i) c ids (seq_NoDup n 0)).
    destruct (in_dec Nat.eq_dec c ids) as [_|Hn]; [reflexivity|]. exfalso. apply Hn. apply in_ids.
    unfold Eat3.cur in Ec. destruct (nth i (pos st) None); [simpl in Ec; injection Ec as <-; apply item_lt|discriminate].
  - assert (H0 : sumQ (fun _ : nat => 0) ids == 0) by (rewrite sumQ_const; ring). exact H0.
Qed.

(* what the step time satisfies *)
Lemma time_agents st t i e : step_time n item sp st = Some t -> (i < n)%nat -> nth i (eaten st) None = Some e -> t <= (1 - e) / sp i.
Proof.
  unfold step_time. intros H Hi He. destruct (fold_left qminO (cand_agents n sp st) None) as [ta|] eqn:Ea; [|discriminate].
  destruct (qminO_le _ _ _ H) as [H1 _]. specialize (H1 ta eq_refl).
  destruct (fold_qminO_le _ _ _ Ea) as [_ H2].
  assert (Hin : In (Some (qdiv (qsub 1 e) (sp i))) (cand_agents n sp st)).
  { unfold cand_agents. apply in_map_iff. exists i. rewrite He. split; [reflexivity|apply in_ids; exact Hi]. }
  specialize (H2 _ Hin). rewrite qdiv_eq, qsub_eq in H2. lra.
Qed.
Lemma time_items st t j r : step_time n item sp st = Some t -> (j < n)%nat -> nth j (rem st) None = Some r -> 0 < tot st j -> t <= r / tot st j.
Proof.
  unfold step_time. intros H Hj Hr Hpos. destruct (fold_left qminO (cand_agents n sp st) None) as [ta|] eqn:Ea; [|discriminate].
  destruct (fold_left qminO (cand_items n item sp st) None) as [ti|] eqn:Ei.
  - destruct (qminO_le _ _ _ H) as [_ H1]. specialize (H1 ti eq_refl).
    destruct (fold_qminO_le _ _ _ Ei) as [_ H2].
    assert (Hin : In (Some (qdiv r (tot st j))) (cand_items n item sp st)).
    { unfold cand_items. apply in_map_iff. exists j. rewrite Hr. split; [|apply in_ids; exact Hj].
      destruct (Qle_bool (tot st j) 0) eqn:Eq; [apply Qle_bool_iff in Eq; lra|reflexivity]. }
    specialize (H2 _ Hin). rewrite qdiv_eq in H2. lra.
  - exfalso. assert (Hin : In (Some (qdiv r (tot st j))) (cand_items n item sp st)).
    { unfold cand_items. apply in_map_iff. exists j. rewrite Hr. split; [|apply in_ids; exact Hj].
      destruct (Qle_bool (tot st j) 0) eqn:Eq; [apply Qle_bool_iff in Eq; lra|reflexivity]. }
    exact (fold_qminO_some _ None _ Hin Ei).
Qed.

Definition PosInv (st : est) : Prop := forall i p, (i < n)%nat -> nth i (pos st) None = Some p ->
  (p < n)%nat /\ nth (item i p) (rem st) None <> None.
Definition nextst (st : est) (t : Q) : est :=
  {| pos := pos_next n item sp st t; rem := rem_next n item sp st t; eaten := eaten_next n sp st t; X := X_next n item sp st t |}.

Lemma advance_spec rem' i : forall fuel p, (p <= n)%nat -> (n - p < fuel)%nat ->
  let p' := advance n item rem' i fuel p in (p' <= n)%nat /\ ((p' < n)%nat -> nth (item i p') rem' None <> None).
Proof.
  induction fuel as [|f IH]; intros p Hp Hf; [lia|]. cbn [advance].
  destruct (p <? n)%nat eqn:E.
  - apply Nat.ltb_lt in E. destruct (nth (item i p) rem' None) as [r|] eqn:Er.
    + split; [lia|]. intros _. congruence.
    + apply IH; lia.
  - apply Nat.ltb_ge in E. split; [lia|]. intros H. lia.
Qed.

Lemma tot_zero st j : PosInv st -> (j < n)%nat -> nth j (rem st) None = None -> tot st j == 0.
Proof.
  intros HP Hj Hr. rewrite tot_sum. rewrite (sumQ_ext _ (fun _ => 0)); [rewrite sumQ_const; ring|].
  intros i Hi. apply in_ids in Hi. unfold Eat3.eats, Eat3.cur. destruct (nth i (pos st) None) as [p|] eqn:Ep; [|reflexivity].
  simpl. destruct (item i p =? j)%nat eqn:E; [|reflexivity]. apply Nat.eqb_eq in E.
  destruct (HP i p Hi Ep) as [_ Hne]. rewrite E in Hne. contradiction.
Qed.

Lemma time_nonneg st t : RowInv st -> ColInv st -> step_time n item sp st = Some t -> 0 <= t.
Proof.
  intros HR HC H. unfold step_time in H.
  destruct (fold_left qminO (cand_agents n sp st) None) as [ta|] eqn:Ea; [|discriminate].
  assert (Hta : 0 <= ta).
  { destruct (fold_qminO_in _ _ _ Ea) as [E|Hin]; [discriminate|]. unfold cand_agents in Hin. apply in_map_iff in Hin.
    destruct Hin as [i [Hi Hin]]. apply in_ids in Hin. specialize (HR i Hin).
    destruct (nth i (eaten st) None) as [e|]; [|discriminate]. injection Hi as <-. rewrite qdiv_eq, qsub_eq.
    apply div_nonneg; [lra|apply sp_pos]. }
  destruct (fold_left qminO (cand_items n item sp st) None) as [ti|] eqn:Ei; simpl in H.
  - assert (Hti : 0 <= ti).
    { destruct (fold_qminO_in _ _ _ Ei) as [E|Hin]; [discriminate|]. unfold cand_items in Hin. apply in_map_iff in Hin.
      destruct Hin as [j [Hj Hin]]. apply in_ids in Hin. specialize (HC j Hin).
      destruct (nth j (rem st) None) as [r|]; [|discriminate].
      destruct (Qle_bool (tot st j) 0) eqn:Eq; [discriminate|]. injection Hj as <-. rewrite qdiv_eq.
      apply div_nonneg; [lra|]. apply Qnot_le_lt. intros Hle. apply Qle_bool_iff in Hle. congruence. }
    injection H as <-. destruct (Qle_bool ta ti); assumption.
  - injection H as <-. exact Hta.
Qed.

Theorem step_preserves st t : Shape st -> ColInv st -> RowInv st -> PosInv st -> step_time n item sp st = Some t ->
  Shape (nextst st t) /\ ColInv (nextst st t) /\ RowInv (nextst st t) /\ PosInv (nextst st t).
Proof.
  intros Hsh HC HR HP Ht. pose proof (time_nonneg st t HR HC Ht) as Ht0.
  split; [apply shape_next; exact Hsh|]. split; [|split].
  - (* columns *)
    intros j Hj. unfold nextst. cbn [rem]. unfold CS. cbn [X]. unfold rem_next. rewrite nth_map_seq by exact Hj.
    pose proof (CS_next st t j Hsh Hj) as Hcs. unfold E. cbn [X]. 
    change (sumQ (fun i => nth j (nth i (X_next n item sp st t) []) 0) ids) with (sumQ (fun i => nth j (nth i (X_next n item sp st t) []) 0) ids) in Hcs.
    specialize (HC j Hj). destruct (nth j (rem st) None) as [r|] eqn:Er.
    + destruct HC as [HCS Hr]. cbv zeta.
      assert (Hr' : qsub r (qmul (tot st j) t) == r - tot st j * t) by (rewrite qsub_eq, qmul_eq; reflexivity).
      assert (Hge : 0 <= r - tot st j * t).
      { destruct (Qlt_le_dec 0 (tot st j)) as [Hpos|Hnp].
        - pose proof (le_div_mul _ _ _ Hpos (time_items st t j r Ht Hj Er Hpos)). lra.
        - assert (tot st j * t <= 0) by nra. lra. }
      destruct (Qle_bool (qsub r (qmul (tot st j) t)) 0) eqn:Eq.
      * apply Qle_bool_iff in Eq. rewrite Hcs, HCS. lra.
      * assert (0 < qsub r (qmul (tot st j) t)) by (apply Qnot_le_lt; intros Hle; apply Qle_bool_iff in Hle; congruence).
        split; [rewrite Hcs, HCS; lra|assumption].
    + rewrite Hcs, HC, (tot_zero st j HP Hj Er). lra.
  - (* rows *)
    intros i Hi. unfold nextst. cbn [eaten pos]. unfold RS. cbn [X]. unfold eaten_next. rewrite nth_map_seq by exact Hi.
    pose proof (RS_next st t i Hsh Hi) as Hrs. unfold E. cbn [X].
    specialize (HR i Hi). destruct (nth i (eaten st) None) as [e|] eqn:Ee.
    + destruct HR as [HRS He]. cbv zeta.
      assert (He' : qadd e (qmul (sp i) t) == e + sp i * t) by (rewrite qadd_eq, qmul_eq; reflexivity).
      assert (Hle1 : e + sp i * t <= 1).
      { pose proof (le_div_mul _ _ _ (sp_pos i) (time_agents st t i e Ht Hi Ee)). lra. }
      assert (Hinc : 0 <= sp i * t) by (pose proof (sp_pos i); nra).
      assert (Hrs' : sumQ (fun j => nth j (nth i (X_next n item sp st t) []) 0) ids <= e + sp i * t).
      { rewrite Hrs. destruct (cur st i); lra. }
      destruct (Qle_bool 1 (qadd e (qmul (sp i) t))) eqn:Eq.
      * split; [lra|]. unfold pos_next. rewrite nth_map_seq by exact Hi. destruct (nth i (pos st) None) as [p|]; [|reflexivity].
        cbv zeta. destruct (advance n item (rem_next n item sp st t) i (S n) p =? n)%nat; [reflexivity|].
        unfold eaten_next. rewrite nth_map_seq by exact Hi. rewrite Ee. cbv zeta. rewrite Eq. reflexivity.
      * assert (qadd e (qmul (sp i) t) < 1) by (apply Qnot_le_lt; intros Hle; apply Qle_bool_iff in Hle; congruence).
        split; [lra|assumption].
    + destruct HR as [HRS Hpos]. split.
      * rewrite Hrs. unfold Eat3.cur. rewrite Hpos. simpl. lra.
      * unfold pos_next. rewrite nth_map_seq by exact Hi. rewrite Hpos. reflexivity.
  - (* positions *)
    intros i p' Hi Hp'. unfold nextst in *. cbn [pos rem] in *. unfold pos_next in Hp'. rewrite nth_map_seq in Hp' by exact Hi.
    destruct (nth i (pos st) None) as [p|] eqn:Ep; [|discriminate].
    destruct (HP i p Hi Ep) as [Hpn _].
    pose proof (advance_spec (rem_next n item sp st t) i (S n) p ltac:(lia) ltac:(lia)) as Hadv. cbv zeta in Hadv, Hp'.
    set (a := advance n item (rem_next n item sp st t) i (S n) p) in *. destruct Hadv as [Hle Hav].
    destruct (a =? n)%nat eqn:En; [discriminate|]. apply Nat.eqb_neq in En.
    destruct (nth i (eaten_next n sp st t) None); [|discriminate]. injection Hp' as <-.
    split; [lia|]. apply Hav. lia.
Qed.

Definition AllInv (st : est) : Prop := Shape st /\ ColInv st /\ RowInv st /\ PosInv st.

Lemma nth_repeat {A} (x d : A) k i : (i < k)%nat -> nth i (repeat x k) d = x.
Proof. revert i; induction k as [|k IH]; intros i H; [lia|]. destruct i; simpl; [reflexivity|apply IH; lia]. Qed.

Lemma init_inv : AllInv (einit n).
Proof.
  assert (HE : forall i j, (i < n)%nat -> (j < n)%nat -> E (einit n) i j = 0).
  { intros i j Hi Hj. unfold E, einit. cbn [X]. rewrite nth_repeat by exact Hi. apply nth_repeat; exact Hj. }
  split; [|split; [|split]].
  - intros i Hi. unfold einit. cbn [X]. rewrite nth_repeat by exact Hi. apply repeat_length.
  - intros j Hj. unfold einit at 1. cbn [rem]. rewrite nth_repeat by exact Hj. split; [|lra].
    unfold CS. rewrite (sumQ_ext _ (fun _ => 0)); [rewrite sumQ_const; ring|]. intros i Hi. apply in_ids in Hi. rewrite HE by assumption. reflexivity.
  - intros i Hi. unfold einit at 1. cbn [eaten]. rewrite nth_repeat by exact Hi. split; [|lra].
    unfold RS. rewrite (sumQ_ext _ (fun _ => 0)); [rewrite sumQ_const; ring_simplify; lra|]. intros j Hj. apply in_ids in Hj. rewrite HE by assumption. reflexivity.
  - intros i p Hi Hp. unfold einit in *. cbn [pos rem] in *. rewrite nth_repeat in Hp by exact Hi. injection Hp as <-.
    split; [lia|]. rewrite nth_repeat by apply item_lt. discriminate.
Qed.

Lemma loop_inv fuel : forall st st', AllInv st -> eloop n item sp fuel st = Some st' -> AllInv st' /\ finished n st' = true.
Proof.
  induction fuel as [|f IH]; intros st st' HI H; [discriminate|]. cbn [eloop] in H.
  destruct (finished n st) eqn:Ef; [injection H as <-; split; assumption|].
  unfold estep in H. destruct (step_time n item sp st) as [t|] eqn:Et; [|discriminate].
  destruct HI as [A [B [C D]]]. apply (IH (nextst st t)); [|exact H].
  exact (step_preserves st t A B C D Et).
Qed.

(* C05: whatever matrix the exact process stops with is bistochastic *)
Theorem eating_bistochastic fuel st : eloop n item sp fuel (einit n) = Some st ->
  (forall j, (j < n)%nat -> CS st j == 1) /\ (forall i, (i < n)%nat -> RS st i == 1).
Proof.
  intros H. destruct (loop_inv fuel _ _ init_inv H) as [[Hsh [HC [HR HP]]] Hfin].
  assert (Hcol : forall j, (j < n)%nat -> CS st j == 1).
  { intros j Hj. unfold finished in Hfin. rewrite forallb_forall in Hfin. specialize (Hfin j (proj2 (in_ids j) Hj)).
    specialize (HC j Hj). destruct (nth j (rem st) None); [discriminate|exact HC]. }
  split; [exact Hcol|].
  assert (Hle : forall i, In i ids -> RS st i <= 1).
  { intros i Hi. apply in_ids in Hi. specialize (HR i Hi). destruct (nth i (eaten st) None); destruct HR; lra. }
  assert (Hsum : sumQ (RS st) ids == inject_Z (Z.of_nat (length ids))).
  { unfold RS. rewrite (sumQ_swap (fun i j => E st i j) ids ids).
    rewrite (sumQ_ext _ (fun _ => 1)); [rewrite sumQ_const; ring|]. intros j Hj. apply in_ids in Hj. apply Hcol. exact Hj. }
  intros i Hi. apply (all_one (RS st) ids Hle Hsum i). apply in_ids. exact Hi.
Qed.
End Step.
Print Assumptions eating_bistochastic.
