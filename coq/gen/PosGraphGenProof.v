(* positivity_graph regenerated from bistochastic.py (PosGraphGen.v): for every row vertex the neighbour list it builds is the model's
   adjP (BvN2.posgraph), so the network handed to the matching routine - and hence the matching the Birkhoff-von Neumann loop uses - is the
   model's (C06). The dict also gets the column vertices' lists; the matching routine never reads them. *)
From Coq Require Import Arith ZArith QArith List Bool Lia.
Import ListNotations.
From SCK Require Import FlowModel BipModel BvN2.
From SCKGen Require Import PosGraphGen.
Local Open Scope Z_scope.

Lemma adj_dsetl G k l k' : adj (dsetl G k l) k' = if k =? k' then l else adj G k'.
Proof.
  unfold adj. induction G as [|[k0 l0] r IH]; cbn [dsetl glook].
  - destruct (k =? k'); reflexivity.
  - destruct (Z.eqb_spec k0 k) as [->|Hne]; cbn [glook].
    + destruct (k =? k'); reflexivity.
    + destruct (Z.eqb_spec k0 k') as [->|Hne']; [destruct (Z.eqb_spec k k'); [congruence|reflexivity]|exact IH].
Qed.

Section PG.
Variables (X : mat) (n : nat).
Definition inner (i : nat) (G : bgraph) (j : nat) : bgraph :=
  if posb (mget X i j) then
    let G := dsetl G (Z.of_nat i) (adj G (Z.of_nat i) ++ [Z.of_nat (j + n)]) in
    dsetl G (Z.of_nat (j + n)) (adj G (Z.of_nat (j + n)) ++ [Z.of_nat i])
  else G.

Lemma inner_adj i G j i' : (i' < n)%nat ->
  adj (inner i G j) (Z.of_nat i') = if posb (mget X i j) && Nat.eqb i' i then adj G (Z.of_nat i') ++ [Z.of_nat (j + n)] else adj G (Z.of_nat i').
Proof.
  intros Hi'. unfold inner. destruct (posb (mget X i j)); [|reflexivity]. cbv zeta. rewrite !adj_dsetl.
  replace (Z.of_nat (j + n) =? Z.of_nat i') with false by (symmetry; apply Z.eqb_neq; lia). cbn [andb].
  destruct (Nat.eqb_spec i' i) as [->|Hne]; [rewrite Z.eqb_refl; reflexivity|].
  replace (Z.of_nat i =? Z.of_nat i') with false by (symmetry; apply Z.eqb_neq; lia). reflexivity.
Qed.
Lemma inner_row i : forall js G i', (i' < n)%nat ->
  adj (fold_left (inner i) js G) (Z.of_nat i') =
  if Nat.eqb i' i then adj G (Z.of_nat i') ++ map (fun j => Z.of_nat (j + n)) (filter (fun j => posb (mget X i j)) js) else adj G (Z.of_nat i').
Proof.
  induction js as [|j js IH]; intros G i' Hi'; [destruct (Nat.eqb i' i); [cbn; rewrite app_nil_r|]; reflexivity|].
  cbn [fold_left filter]. rewrite IH by exact Hi'. rewrite (inner_adj i G j i' Hi').
  destruct (Nat.eqb i' i); [|rewrite andb_false_r; reflexivity]. rewrite andb_true_r. destruct (posb (mget X i j)); [cbn [map]; rewrite <- app_assoc; reflexivity|reflexivity].
Qed.

Lemma outer_row : forall is_ G i', (i' < n)%nat -> NoDup is_ -> (forall i, In i is_ -> (i < n)%nat) ->
  adj (fold_left (fun G i => fold_left (inner i) (seq 0 n) G) is_ G) (Z.of_nat i') =
  if existsb (Nat.eqb i') is_ then adj G (Z.of_nat i') ++ adjP X n i' else adj G (Z.of_nat i').
Proof.
  induction is_ as [|i is_ IH]; intros G i' Hi' Hnd His; [reflexivity|]. cbn [fold_left existsb]. inversion Hnd as [|? ? Hni Hnd']; subst.
  rewrite IH by (auto; intros i0 H0; apply His; right; exact H0).
  rewrite (inner_row i (seq 0 n) G i' Hi').
  destruct (Nat.eqb_spec i' i) as [->|Hne]; cbn [orb].
  - replace (existsb (Nat.eqb i) is_) with false; [reflexivity|]. symmetry. apply not_true_is_false. intros H. apply existsb_exists in H as [x [Hx E]]. apply Nat.eqb_eq in E. subst x. exact (Hni Hx).
  - reflexivity.
Qed.

Theorem gen_posgraph_row i : (i < n)%nat -> adj (gen_posgraph X n) (Z.of_nat i) = adjP X n i.
Proof.
  intros Hi. unfold gen_posgraph. change (fun (G_X : bgraph) (i0 : nat) => fold_left _ (seq 0 n) G_X) with (fun G i0 => fold_left (inner i0) (seq 0 n) G).
  rewrite (outer_row (seq 0 n) [] i Hi (seq_NoDup n 0)) by (intros i0 H0; apply in_seq in H0; lia).
  replace (existsb (Nat.eqb i) (seq 0 n)) with true; [reflexivity|]. symmetry. apply existsb_exists. exists i. split; [apply in_seq; lia|apply Nat.eqb_refl].
Qed.
Theorem posgraph_row i : (i < n)%nat -> adj (posgraph X n) (Z.of_nat i) = adjP X n i.
Proof.
  intros Hi. unfold posgraph, adj. assert (H : forall s, (s <= i)%nat -> (i < s + (n - s))%nat ->
    glook (map (fun i0 => (Z.of_nat i0, adjP X n i0)) (seq s (n - s))) (Z.of_nat i) = Some (adjP X n i)).
  { intros s. remember (n - s)%nat as k. revert s Heqk. induction k as [|k IH]; intros s Hk Hs Hlt; [lia|]. cbn [seq map glook].
    destruct (Z.eqb_spec (Z.of_nat s) (Z.of_nat i)) as [E|E]; [apply Nat2Z.inj in E; subst; reflexivity|]. apply (IH (S s)); lia. }
  specialize (H 0%nat ltac:(lia) ltac:(lia)). rewrite Nat.sub_0_r in H. rewrite H. reflexivity.
Qed.
(* hence the flow network of the matching routine is the same for the generated graph and for the model's *)
Theorem gen_posgraph_net : net (gen_posgraph X n) (xs n) (ys n) = net (posgraph X n) (xs n) (ys n).
Proof.
  unfold net. f_equal. unfold xs. rewrite !map_map. apply map_ext_in. intros i Hi. apply in_seq in Hi. rewrite gen_posgraph_row, posgraph_row by lia. reflexivity.
Qed.
Theorem gen_posgraph_matching fuel : max_matching fuel (gen_posgraph X n) (xs n) (ys n) =
  option_map (fun M => M) (match ff_loop fuel (init (net (posgraph X n) (xs n) (ys n))) (-1) (-2) with None => None | Some (_, fl) => Some (read_off (gen_posgraph X n) (xs n) fl) end).
Proof. unfold max_matching. rewrite gen_posgraph_net. destruct (ff_loop _ _ _ _) as [[? ?]|]; reflexivity. Qed.
End PG.
Print Assumptions adj_dsetl. Print Assumptions inner_adj. Print Assumptions inner_row. Print Assumptions outer_row. Print Assumptions gen_posgraph_row. Print Assumptions posgraph_row.
Print Assumptions gen_posgraph_net. Print Assumptions gen_posgraph_matching.
