(* The resident-oriented Gale-Shapley loop regenerated from GaleShapley.scf's current source (GsResGen.v) refines, step by step, the
   function-state model GS2.res_loop instantiated with the profile accessors of GSInst.v - the object gs_res_run of C01 / C02's theorems
   (stability, resident-optimality, termination). The code keeps the last applied rank (-1 at first) where the model counts applications,
   heaps of NEGATED ranks where the model keeps ranks and drops the maximum, and integer flags in numpy arrays. *)
From Coq Require Import Arith ZArith List Bool Lia.
Import ListNotations.
From SCK Require Import Argsort GS2 GSRefine GSInst GSFinal.
From SCKGen Require Import GsResGen.
Local Open Scope Z_scope.

Definition un (z : Z) : nat := Z.to_nat (- z).        (* a heap entry (negated rank) read as a rank *)

Lemma fupd_s {A} (f : nat -> A) i x : fupd f i x i = x.
Proof. unfold fupd. rewrite Nat.eqb_refl. reflexivity. Qed.
Lemma fupd_o {A} (f : nat -> A) i x j : j <> i -> fupd f i x j = f j.
Proof. intros H. unfold fupd. destruct (Nat.eqb_spec j i); [contradiction|reflexivity]. Qed.

(* the minimum of a heap of non-positive entries is the largest rank *)
Lemma maxl_max : forall l w, GS2.maxl l w = Nat.max w (GS2.maxl l 0).
Proof. induction l as [|x l IH]; intros w; cbn [GS2.maxl]; [lia|]. rewrite IH. rewrite (IH (Nat.max 0 x)). lia. Qed.
Lemma minl_le0 : forall l, (forall z, In z l -> z <= 0) -> minl l <= 0.
Proof.
  induction l as [|x l IH]; intros Hl; [cbn; lia|]. cbn [minl]. destruct l as [|y l']; [apply Hl; left; reflexivity|].
  assert (x <= 0) by (apply Hl; left; reflexivity). lia.
Qed.
Lemma minl_worst : forall l, l <> [] -> (forall z, In z l -> z <= 0) -> un (minl l) = GS2.maxl (map un l) 0.
Proof.
  induction l as [|x l IH]; intros Hne Hl; [contradiction|]. cbn [minl map GS2.maxl]. destruct l as [|y l'].
  - cbn. lia.
  - assert (Hx : x <= 0) by (apply Hl; left; reflexivity).
    assert (Hl' : forall z, In z (y :: l') -> z <= 0) by (intros z Hz; apply Hl; right; exact Hz).
    rewrite maxl_max. rewrite <- (IH ltac:(discriminate) Hl'). pose proof (minl_le0 (y :: l') Hl'). unfold un. lia.
Qed.
Lemma rem1_un : forall l x, x <= 0 -> (forall z, In z l -> z <= 0) -> map un (rem1z x l) = GS2.rem1 (un x) (map un l).
Proof.
  induction l as [|y l IH]; intros x Hx Hl; [reflexivity|]. cbn [rem1z map GS2.rem1].
  assert (Hy : y <= 0) by (apply Hl; left; reflexivity).
  replace (Nat.eqb (un x) (un y)) with (x =? y) by (unfold un; destruct (Z.eqb_spec x y), (Nat.eqb_spec (Z.to_nat (- x)) (Z.to_nat (- y))); try reflexivity; lia).
  destruct (x =? y); [reflexivity|]. cbn [map]. rewrite IH; [reflexivity|exact Hx|intros z Hz; apply Hl; right; exact Hz].
Qed.
Lemma rem1z_in x l z : In z (rem1z x l) -> In z l.
Proof. induction l as [|y l IH]; cbn [rem1z]; [tauto|]. destruct (x =? y); intros H; [right; exact H|destruct H as [->|H]; [left; reflexivity|right; apply IH; exact H]]. Qed.
Lemma minl_in : forall l, l <> [] -> In (minl l) l.
Proof.
  induction l as [|x l IH]; intros Hne; [contradiction|]. cbn [minl]. destruct l as [|y l']; [left; reflexivity|].
  destruct (Z.min_spec x (minl (y :: l'))) as [[_ ->]|[_ ->]]; [left; reflexivity|right; apply IH; discriminate].
Qed.

Section Refine.
Variables (R H : list (list okey)) (c : list nat).
Let n := length R.
Let m := length (nth 0 R []).
Hypothesis Hm : m = length H.
Hypothesis Hrows : forall p, (p < n)%nat -> length (nth p R []) = m.
Let cap := fun h => nth h c O.

Definition gst : Type := ((nat -> Z) * (nat -> list Z) * (nat -> Z))%type.
Definition flag_ok (f : nat -> Z) : Prop := forall p, f p = 0 \/ f p = 1 \/ f p = 2.
Definition Rel (g : gst) (st : rst) : Prop :=
  let '(ra, hw, nca) := g in
  (forall p, -1 <= ra p /\ apps st p = Z.to_nat (ra p + 1)) /\
  (forall h, (forall z, In z (hw h) -> z <= 0) /\ wl st h = map un (hw h)) /\
  (flag_ok nca /\ forall p, flag st p = Z.to_nat (nca p)).

Lemma flag_ok_fupd f i v : flag_ok f -> (v = 0 \/ v = 1 \/ v = 2) -> flag_ok (fupd f i v).
Proof. intros Hf Hv q. unfold fupd. destruct (Nat.eqb q i); [exact Hv|apply Hf]. Qed.
Lemma flag_rel_fupd (fm : nat -> nat) (fg : nat -> Z) i v : (forall q, fm q = Z.to_nat (fg q)) -> forall q, fupd fm i (Z.to_nat v) q = Z.to_nat (fupd fg i v q).
Proof. intros Hf q. unfold fupd. destruct (Nat.eqb q i); [reflexivity|apply Hf]. Qed.

Lemma prefR_spec p k : (p < n)%nat ->
  i_prefR R p k = if (m <=? k)%nat then None else
                  let h := nth k (argsort (nth p R [])) O in if isnan (nth h (nth p R []) None) then None else Some h.
Proof.
  intros Hp. unfold i_prefR, rowR. destruct (Nat.leb_spec m k) as [Hk|Hk].
  - replace (nth_error (argsort (nth p R [])) k) with (@None nat); [reflexivity|]. symmetry. apply nth_error_None. rewrite argsort_length, Hrows by exact Hp. exact Hk.
  - rewrite (nth_error_nth' _ O) by (rewrite argsort_length, Hrows by exact Hp; exact Hk). cbv zeta.
    destruct (nth (nth k (argsort (nth p R [])) O) (nth p R []) None); reflexivity.
Qed.

Lemma step_sim (curg : nat -> Z) (curm : nat -> nat) g st p : (p < n)%nat -> flag_ok curg -> (forall q, curm q = Z.to_nat (curg q)) ->
  Rel g st -> Rel (gen_res_step R H c curg g p) (res_step (i_prefR R) (i_rkH H) (i_unrank H) cap curm st p).
Proof.
  intros Hp Hcg Hcm HR. destruct g as [[ra hw] nca]. destruct HR as [Hra [Hhw [Hfo Hfl]]].
  unfold gen_res_step, res_step. fold m.
  assert (Ecur : negb (Nat.eqb (curm p) 1) = ((curg p =? 0) || (curg p =? 2))).
  { rewrite Hcm. destruct (Hcg p) as [E|[E|E]]; rewrite E; reflexivity. }
  rewrite Ecur. destruct ((curg p =? 0) || (curg p =? 2)); [split; [exact Hra|split; [exact Hhw|split; [exact Hfo|exact Hfl]]]|]. cbv zeta.
  destruct (Hra p) as [Hge Hap]. rewrite (prefR_spec p _ Hp), Hap.
  replace (ra p >=? Z.of_nat m - 1) with (m <=? Z.to_nat (ra p + 1))%nat by (destruct (Nat.leb_spec m (Z.to_nat (ra p + 1))), (Z.geb_spec (ra p) (Z.of_nat m - 1)); try reflexivity; lia).
  destruct (m <=? Z.to_nat (ra p + 1))%nat.
  { (* exhausted *) split; [exact Hra|split; [exact Hhw|]]. split.
    - intros q. unfold fupd. destruct (Nat.eqb q p); [right; right; reflexivity|apply Hfo].
    - intros q. cbn [flag]. unfold fupd. destruct (Nat.eqb q p); [reflexivity|apply Hfl]. }
  cbv zeta. set (h := nth (Z.to_nat (ra p + 1)) (argsort (nth p R [])) O).
  destruct (isnan (nth h (nth p R []) None)).
  { split; [exact Hra|split; [exact Hhw|]]. split.
    - intros q. unfold fupd. destruct (Nat.eqb q p); [right; right; reflexivity|apply Hfo].
    - intros q. cbn [flag]. unfold fupd. destruct (Nat.eqb q p); [reflexivity|apply Hfl]. }
  assert (Hra' : forall q, -1 <= fupd ra p (ra p + 1) q /\ fupd (apps st) p (S (Z.to_nat (ra p + 1))) q = Z.to_nat (fupd ra p (ra p + 1) q + 1)).
  { intros q. unfold fupd. destruct (Nat.eqb q p); [split; lia|apply Hra]. }
  unfold i_rkH, rowH. destruct (nth p (nth h H []) None) as [hr|] eqn:Ehr; cbn [isnan okz].
  2:{ split; [exact Hra'|split; [exact Hhw|split; [exact Hfo|exact Hfl]]]. }
  destruct (Hhw h) as [Hneg Hwl]. rewrite fupd_s. cbn [length]. rewrite Hwl, map_length. unfold cap.
  assert (Hfo0 : flag_ok (fupd nca p 0)) by (intros q; unfold fupd; destruct (Nat.eqb q p); [left; reflexivity|apply Hfo]).
  assert (Hfl0 : forall q, fupd (flag st) p 0%nat q = Z.to_nat (fupd nca p 0 q)) by (intros q; unfold fupd; destruct (Nat.eqb q p); [reflexivity|apply Hfl]).
  assert (Hneg' : forall z, In z (- Z.of_nat hr :: hw h) -> z <= 0) by (intros z [<-|Hz]; [lia|apply Hneg; exact Hz]).
  assert (Hun : un (- Z.of_nat hr) = hr) by (unfold un; lia).
  destruct (S (length (hw h)) <=? nth h c 0)%nat.
  { split; [exact Hra'|split; [|split; [exact Hfo0|exact Hfl0]]]. intros h'. cbn [wl]. unfold fupd. cbv beta. destruct (Nat.eqb h' h) eqn:E.
    - apply Nat.eqb_eq in E. subst h'. split; [exact Hneg'|]. cbn [map]. rewrite Hun. reflexivity.
    - apply Hhw. }
  (* full: the worst held applicant is dropped *)
  set (l := - Z.of_nat hr :: hw h). assert (Hlne : l <> []) by discriminate.
  assert (Hw : un (minl l) = GS2.maxl (hr :: map un (hw h)) 0) by (rewrite (minl_worst l Hlne Hneg'); unfold l; cbn [map]; rewrite Hun; reflexivity).
  assert (Hmin0 : minl l <= 0) by (apply minl_le0; exact Hneg').
  split; [exact Hra'|split].
  - intros h'. cbn [wl]. destruct (Nat.eqb h' h) eqn:E; [|rewrite !fupd_o by (apply Nat.eqb_neq; exact E); apply Hhw].
    apply Nat.eqb_eq in E. subst h'. rewrite !fupd_s. split; [intros z Hz; apply Hneg'; apply (rem1z_in _ _ _ Hz)|].
    rewrite (rem1_un l (minl l) Hmin0 Hneg'). rewrite Hw. unfold l. cbn [map]. rewrite Hun. reflexivity.
  - unfold i_unrank, rowH. rewrite <- Hw. split.
    + apply flag_ok_fupd; [exact Hfo0|right; left; reflexivity].
    + intros q. cbn [flag]. change 1%nat with (Z.to_nat 1). apply flag_rel_fupd. exact Hfl0.
Qed.

Lemma round_sim curg curm : flag_ok curg -> (forall q, curm q = Z.to_nat (curg q)) -> forall ps g st, (forall p, In p ps -> (p < n)%nat) -> Rel g st ->
  Rel (fold_left (gen_res_step R H c curg) ps g) (fold_left (res_step (i_prefR R) (i_rkH H) (i_unrank H) cap curm) ps st).
Proof.
  intros Hcg Hcm. induction ps as [|p ps IH]; intros g st Hps HR; [exact HR|]. cbn [fold_left]. apply IH; [intros q Hq; apply Hps; right; exact Hq|].
  apply step_sim; [apply Hps; left; reflexivity|exact Hcg|exact Hcm|exact HR].
Qed.

Lemma loop_sim : forall fuel g st, Rel g st ->
  match gen_res_loop R H c fuel g, res_loop n (i_prefR R) (i_rkH H) (i_unrank H) cap fuel st with
  | Some g', Some st' => Rel g' st'
  | None, None => True
  | _, _ => False
  end.
Proof.
  induction fuel as [|f IH]; intros g st HR; [exact I|]. cbn [gen_res_loop res_loop]. destruct g as [[ra hw] nca]. fold n.
  pose proof HR as [_ [_ [Hfo Hfl]]].
  assert (Et : forallb (fun i_ => negb (nca i_ =? 1)) (seq 0 n) = forallb (fun p => negb (Nat.eqb (flag st p) 1)) (seq 0 n)).
  { apply forallb_ext_in || idtac. induction (seq 0 n) as [|q l IHl]; [reflexivity|]. cbn [forallb]. rewrite IHl. f_equal. rewrite Hfl. destruct (Hfo q) as [E|[E|E]]; rewrite E; reflexivity. }
  rewrite Et. destruct (forallb (fun p => negb (Nat.eqb (flag st p) 1)) (seq 0 n)); [exact HR|].
  apply IH. apply round_sim; [exact Hfo|exact Hfl|intros p Hp; apply in_seq in Hp; lia|exact HR].
Qed.

Lemma init_rel : Rel gen_res_init res_init.
Proof. unfold gen_res_init, res_init. repeat split; cbn; try lia; try tauto. intros p. right; left; reflexivity. Qed.

Lemma out_rel g st : Rel g st -> gen_res_out R H 0 g = map (fun pr => (Z.of_nat (fst pr), Z.of_nat (snd pr))) (res_out (length H) (i_unrank H) st).
Proof.
  intros HR. destruct g as [[ra hw] nca]. destruct HR as [_ [Hhw _]]. unfold gen_res_out, res_out. fold m. rewrite Hm.
  induction (seq 0 (length H)) as [|h l IH]; [reflexivity|]. cbn [flat_map]. rewrite map_app, IH. f_equal.
  destruct (Hhw h) as [_ ->]. rewrite !map_map. apply map_ext. intros z. unfold i_unrank, rowH, un. cbn [fst snd]. f_equal; lia.
Qed.

Theorem gen_gs_res_refines fuel : length (nth 0 H []) = n ->
  gen_gs_res R H c 0 fuel = option_map (map (fun pr => (Z.of_nat (fst pr), Z.of_nat (snd pr)))) (gs_res_run R H cap fuel).
Proof.
  intros Hn. unfold gen_gs_res, gs_res_run. fold n. fold m. rewrite Hn, Hm, !Nat.eqb_refl. cbn [andb negb].
  pose proof (loop_sim fuel gen_res_init res_init init_rel) as Hl. fold n in Hl.
  destruct (gen_res_loop R H c fuel gen_res_init) as [g'|], (res_loop n (i_prefR R) (i_rkH H) (i_unrank H) cap fuel res_init) as [st'|]; try contradiction; [|reflexivity].
  cbn [option_map]. f_equal. apply out_rel. exact Hl.
Qed.
End Refine.

(* the index convention only shifts the reported pairs *)
Theorem gen_res_out_shift R H fixer g : gen_res_out R H fixer g = map (fun pr => (fst pr + fixer, snd pr + fixer)) (gen_res_out R H 0 g).
Proof.
  destruct g as [[ra hw] nca]. unfold gen_res_out. induction (seq 0 (length (nth 0 R []))) as [|h l IH]; [reflexivity|]. cbn [flat_map]. rewrite map_app, IH. f_equal.
  rewrite map_map. apply map_ext. intros z. cbn [fst snd]. f_equal; lia.
Qed.
Print Assumptions gen_gs_res_refines. Print Assumptions gen_res_out_shift.
(* auxiliary lemmas *)
Print Assumptions fupd_s.
Print Assumptions fupd_o.
Print Assumptions maxl_max.
Print Assumptions minl_le0.
Print Assumptions minl_worst.
Print Assumptions rem1_un.
Print Assumptions rem1z_in.
Print Assumptions minl_in.
Print Assumptions flag_ok_fupd.
Print Assumptions flag_rel_fupd.
Print Assumptions prefR_spec.
Print Assumptions step_sim.
Print Assumptions round_sim.
Print Assumptions loop_sim.
Print Assumptions init_rel.
Print Assumptions out_rel.
