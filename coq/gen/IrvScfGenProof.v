(* The pipeline of Irving.scf regenerated from the source (IrvScfGen.v), instantiated with the model's stages (Gale-Shapley model gs_res_run, Irving.new_pl1/2,
   find_all, poset, the closed-subset stage mwcs on the rotation weights, sorted_nat, eliminate), is the model Irving.irving whose stages the correspondence
   of C03 / C17 compares one by one: same stages, same arguments, same order, rotations eliminated in index order, result shifted by the index fixer. *)
From Coq Require Import Arith ZArith List Bool Lia.
Import ListNotations.
From SCK Require Import Argsort GSFinal Mwcs Irving.
From SCKGen Require Import IrvScfGen.

Definition inst_gs (O1 O2 : list (list nat)) (caps : list nat) : option (list (nat * nat)) :=
  gs_res_run (map (map (fun r => Some (r - 1)%nat)) O1) (map (map (fun r => Some (r - 1)%nat)) O2) (fun _ => 1%nat) (length O1 * length O1 + 2).
Definition inst_scf (ffuel fixer : nat) (V1 V2 : list (list Z)) (O1 O2 : list (list nat)) : option (list (nat * nat)) :=
  gen_irv_scf rot (list ((nat * nat) * nat)) (list (list nat)) (list (list Z)) inst_gs (fun M P1 P2 => Some (new_pl1 P1 P2 M, new_pl2 P1 P2 M)) find_all (fun rots l1 el => Some (poset rots l1 el))
    (fun P rots V1 V2 => mwcs ffuel P (map (rot_weight V1 V2) rots)) sorted_nat eliminate [] fixer V1 V2 O1 O2.

Lemma unshift P : map (map (fun r => (r - 1)%nat)) (map (map S) P) = P.
Proof. rewrite map_map. rewrite <- (map_id P) at 2. apply map_ext. intro row. rewrite map_map. rewrite <- (map_id row) at 2. apply map_ext. intro r. lia. Qed.
Lemma unshift_some P : map (map (fun r => Some (r - 1)%nat)) (map (map S) P) = map (map Some) P.
Proof. rewrite map_map. apply map_ext. intro row. rewrite map_map. apply map_ext. intro r. f_equal. lia. Qed.

Theorem gen_irv_scf_is_model ffuel fixer V1 V2 P1 P2 :
  (forall M0, gs_res_run (map (map Some) P1) (map (map Some) P2) (fun _ => 1%nat) (length P1 * length P1 + 2) = Some M0 -> gen_irv_perfect M0 (length P1) = true) ->
  inst_scf ffuel fixer V1 V2 (map (map S) P1) (map (map S) P2) =
  match irving P1 P2 V1 V2 ffuel with Some t => option_map (map (fun ij : nat * nat => (fst ij + fixer, snd ij + fixer)%nat)) (t_out t) | None => None end.
Proof.
  intro Hperf. unfold inst_scf, gen_irv_scf, inst_gs, irving. cbv zeta. rewrite !unshift_some, !unshift, !map_length.
  destruct (gs_res_run (map (map Some) P1) (map (map Some) P2) (fun _ => 1%nat) (length P1 * length P1 + 2)) as [M0|] eqn:Eg; [|reflexivity].
  rewrite (Hperf M0 eq_refl). cbn [negb].
  destruct (find_all (new_pl1 P1 P2 M0) (new_pl2 P1 P2 M0)) as [[rots el]|]; [|reflexivity].
  destruct (mwcs ffuel (poset rots (new_pl1 P1 P2 M0) el) (map (rot_weight V1 V2) rots)) as [cs0|]; [|reflexivity]. cbn [t_out].
  destruct (eliminate M0 (map (fun i => nth i rots []) (sorted_nat cs0))); reflexivity.
Qed.
Theorem gen_irv_fixer_shift : gen_irv_fixer false = S (gen_irv_fixer true). Proof. reflexivity. Qed.
Print Assumptions unshift. Print Assumptions unshift_some. Print Assumptions gen_irv_scf_is_model. Print Assumptions gen_irv_fixer_shift.
