(* Irving.find_maximum_weight_closed_subset regenerated from the Python source (MwcsGen.v: the network filled key by key in a dict, sets as
   duplicate-free lists, the closure loop with its flag) equals Mwcs.mwcs, the object of C03's closed-subset theorems (MwcsProof.v / MwcsFinal.v:
   the returned set is predecessor-closed and of maximum weight) - and of C17's, which runs the same stage on simulated values. *)
From Coq Require Import Arith ZArith List Bool Lia.
Import ListNotations.
From SCK Require Import FlowModel Mwcs.
From SCKGen Require Import MwcsGen.
Local Open Scope Z_scope.

(* ---- dict insertion ---- *)
Lemma dsetg_absent (G : graph) k a : ~ In k (map fst G) -> dsetg G k a = G ++ [(k, a)].
Proof.
  induction G as [|[k0 a0] r IH]; intros H; [reflexivity|]. cbn [dsetg]. destruct (Z.eqb_spec k0 k) as [E|E]; [exfalso; apply H; left; exact E|].
  cbn [app]. rewrite IH; [reflexivity|]. intros Hin. apply H. right. exact Hin.
Qed.
Lemma dsetg_last (G : graph) k a a' : ~ In k (map fst G) -> dsetg (G ++ [(k, a)]) k a' = G ++ [(k, a')].
Proof.
  induction G as [|[k0 a0] r IH]; intros H; [cbn; rewrite Z.eqb_refl; reflexivity|]. cbn [app dsetg]. destruct (Z.eqb_spec k0 k) as [E|E]; [exfalso; apply H; left; exact E|].
  rewrite IH; [reflexivity|]. intros Hin. apply H. right. exact Hin.
Qed.
Lemma lookup_last (G : graph) k a : ~ In k (map fst G) -> lookup (G ++ [(k, a)]) k = a.
Proof.
  induction G as [|[k0 a0] r IH]; intros H; [cbn; rewrite Z.eqb_refl; reflexivity|]. cbn [app lookup]. destruct (Z.eqb_spec k0 k) as [E|E]; [exfalso; apply H; left; exact E|].
  apply IH. intros Hin. apply H. right. exact Hin.
Qed.

(* ---- the network ---- *)
Section Build.
Variables (P : list (list nat)) (ws : list Z).
Definition node (pi : nat) : Z * adjl := (Z.of_nat pi, node_adj P ws pi).
Definition bstep (st_ : graph * list nat) (pi : nat) : graph * list nat :=
  let '(network, temp) := st_ in
  let network := dsetg network (Z.of_nat pi) (map (fun rho_ : nat => (Z.of_nat rho_, maxsize)) (nthl P pi)) in
  let w := wt ws pi in
  if w >? 0 then (dsetg network (Z.of_nat pi) (lookup network (Z.of_nat pi) ++ [(-2, w)]), temp ++ [pi])
  else if w <? 0 then (dsetg network (-1) (lookup network (-1) ++ [(Z.of_nat pi, - w)]), temp)
  else (network, temp).

Lemma build_inv : forall ids S nodes T, NoDup ids -> (forall pi, In pi ids -> ~ In pi nodes) ->
  fold_left bstep ids ((-1, S) :: (-2, []) :: map node nodes, T) =
  ((-1, S ++ src_adj ws ids) :: (-2, []) :: map node (nodes ++ ids), T ++ filter (fun pi => wt ws pi >? 0) ids).
Proof.
  induction ids as [|pi ids IH]; intros S nodes T Hnd Hfresh; [cbn; rewrite !app_nil_r; reflexivity|].
  inversion Hnd as [|? ? Hpi Hnd']; subst. cbn [fold_left]. unfold bstep at 2.
  assert (Habs : ~ In (Z.of_nat pi) (map fst ((-1, S) :: (-2, []) :: map node nodes))).
  { cbn [map fst]. intros [H|[H|H]]; [lia|lia|]. rewrite map_map in H. cbn [node fst] in H. apply in_map_iff in H as [x [E Hx]]. apply Nat2Z.inj in E. subst x. exact (Hfresh pi (or_introl eq_refl) Hx). }
  rewrite (dsetg_absent _ _ _ Habs). cbv zeta.
  assert (Hnext : forall pi', In pi' ids -> ~ In pi' (nodes ++ [pi])).
  { intros pi' H' Hin. apply in_app_iff in Hin as [Hin|[<-|[]]]; [exact (Hfresh pi' (or_intror H') Hin)|exact (Hpi H')]. }
  unfold src_adj. cbn [flat_map filter]. fold (src_adj ws ids).
  assert (Hmap : forall x, map node nodes ++ [node x] = map node (nodes ++ [x])) by (intros x; rewrite map_app; reflexivity).
  destruct (wt ws pi >? 0) eqn:Epos.
  - assert (Hneg : wt ws pi <? 0 = false) by (apply Z.ltb_ge; apply Z.gtb_lt in Epos; lia). rewrite Hneg.
    rewrite (lookup_last _ _ _ Habs), (dsetg_last _ _ _ _ Habs).
    match goal with |- context [(?G0 ++ [?p], _)] => replace p with (node pi) by (unfold node, node_adj; rewrite Epos; reflexivity) end.
    cbn [app]. rewrite Hmap.
    etransitivity; [exact (IH S (nodes ++ [pi]) (T ++ [pi]) Hnd' Hnext)|]. rewrite <- !app_assoc. reflexivity.
  - match goal with |- context [?G0 ++ [?p]] => replace p with (node pi) by (unfold node, node_adj; rewrite Epos, app_nil_r; reflexivity) end.
    destruct (wt ws pi <? 0) eqn:Eneg.
    + cbn [app dsetg lookup]. rewrite Z.eqb_refl. rewrite Hmap.
      etransitivity; [exact (IH (S ++ [(Z.of_nat pi, - wt ws pi)]) (nodes ++ [pi]) T Hnd' Hnext)|]. rewrite <- !app_assoc. reflexivity.
    + cbn [app]. rewrite Hmap.
      etransitivity; [exact (IH S (nodes ++ [pi]) T Hnd' Hnext)|]. rewrite <- !app_assoc. reflexivity.
Qed.

Theorem gen_mw_build_eq : gen_mw_build P ws = (cnet P ws, filter (fun pi => wt ws pi >? 0) (seq 0 (length P))).
Proof.
  unfold gen_mw_build. change (fold_left _ (seq 0 (length P)) ([(-1, []); (-2, [])], [])) with (fold_left bstep (seq 0 (length P)) ((-1, []) :: (-2, []) :: map node [], [])).
  rewrite (build_inv (seq 0 (length P)) [] [] [] (seq_NoDup _ _)) by (intros pi _ []). reflexivity.
Qed.
End Build.

(* ---- the seed ---- *)
Lemma memZ_removeZ x c : x <> -1 -> memZ x (removeZ (-1) c) = memZ x c.
Proof.
  intros Hx. unfold memZ. induction c as [|y c IH]; [reflexivity|]. cbn [removeZ existsb]. destruct (Z.eqb_spec (-1) y) as [<-|E].
  - rewrite IH. replace (x =? -1) with false by (symmetry; apply Z.eqb_neq; exact Hx). reflexivity.
  - cbn [existsb]. rewrite IH. reflexivity.
Qed.
Lemma filter_filter' {A} (f g : A -> bool) l : filter g (filter f l) = filter (fun x => f x && g x) l.
Proof. induction l as [|x l IH]; [reflexivity|]. cbn [filter]. destruct (f x); cbn [filter andb]; [destruct (g x); rewrite IH; reflexivity|exact IH]. Qed.

(* ---- the closure loop ---- *)
Section Close.
Variable P : list (list nat).
Definition sstep (st_ : list nat * bool) (rho : nat) : list nat * bool :=
  let '(cs, flag) := st_ in
  if memn rho cs then (cs, flag) else if existsb (fun x_ => memn x_ cs) (nthl P rho) then (rho :: cs, true) else (cs, flag).
Definition pstep (cs : list nat) (rho : nat) : list nat :=
  if memn rho cs then cs else if existsb (fun x => memn x cs) (nthl P rho) then rho :: cs else cs.
Lemma sweep_spec : forall ids cs fl,
  let r := fold_left sstep ids (cs, fl) in
  fst r = fold_left pstep ids cs /\ (length cs <= length (fst r))%nat /\ snd r = (fl || negb (length (fst r) =? length cs)%nat) /\ (snd r = false -> fst r = cs).
Proof.
  induction ids as [|rho ids IH]; intros cs fl; cbv zeta.
  - cbn [fold_left fst snd]. rewrite Nat.eqb_refl, orb_false_r. repeat split; auto.
  - cbn [fold_left].
    destruct (memn rho cs) eqn:Em.
    { replace (sstep (cs, fl) rho) with (cs, fl) by (unfold sstep; rewrite Em; reflexivity).
      replace (pstep cs rho) with cs by (unfold pstep; rewrite Em; reflexivity). apply IH. }
    destruct (existsb (fun x_ => memn x_ cs) (nthl P rho)) eqn:Ee.
    2:{ replace (sstep (cs, fl) rho) with (cs, fl) by (unfold sstep; rewrite Em, Ee; reflexivity).
        replace (pstep cs rho) with cs by (unfold pstep; rewrite Em, Ee; reflexivity). apply IH. }
    replace (sstep (cs, fl) rho) with (rho :: cs, true) by (unfold sstep; rewrite Em, Ee; reflexivity).
    replace (pstep cs rho) with (rho :: cs) by (unfold pstep; rewrite Em, Ee; reflexivity).
    destruct (IH (rho :: cs) true) as [E1 [E2 [E3 E4]]]. cbv zeta in *. cbn [length] in E2. split; [exact E1|]. split; [lia|]. split.
    + rewrite E3. cbn [orb]. replace (length (fst (fold_left sstep ids (rho :: cs, true))) =? length cs)%nat with false by (symmetry; apply Nat.eqb_neq; lia).
      destruct fl; reflexivity.
    + intros H. rewrite E3 in H. discriminate.
Qed.
Theorem gen_mw_close_eq : forall fuel cs, gen_mw_close fuel P cs = close P (seq 0 (length P)) fuel cs.
Proof.
  induction fuel as [|f IH]; intros cs; [reflexivity|]. cbn [gen_mw_close close]. unfold gen_mw_sweep, pass.
  change (fold_left _ (seq 0 (length P)) (cs, false)) with (fold_left sstep (seq 0 (length P)) (cs, false)).
  change (fold_left (fun cs0 rho => if memn rho cs0 then cs0 else if existsb (fun x => memn x cs0) (nthl P rho) then rho :: cs0 else cs0) (seq 0 (length P)) cs) with (fold_left pstep (seq 0 (length P)) cs).
  destruct (sweep_spec (seq 0 (length P)) cs false) as [E1 [E2 [E3 E4]]]. cbv zeta in *.
  destruct (fold_left sstep (seq 0 (length P)) (cs, false)) as [cs' flag]. cbn [fst snd orb] in *. subst cs'. rewrite E3.
  destruct (length (fold_left pstep (seq 0 (length P)) cs) =? length cs)%nat eqn:El; cbn [negb].
  - apply E4. rewrite E3. reflexivity.
  - apply IH.
Qed.
End Close.

Theorem gen_mwcs_eq fuel P ws : gen_mwcs fuel P ws = mwcs fuel P ws.
Proof.
  unfold gen_mwcs, mwcs. rewrite gen_mw_build_eq. destruct (ford_fulkerson fuel (cnet P ws) (-1) (-2)) as [[fl cut]|]; [|reflexivity]. cbv zeta. f_equal.
  rewrite gen_mw_close_eq. f_equal. rewrite filter_filter'. apply filter_ext. intros x. rewrite memZ_removeZ by lia. reflexivity.
Qed.
Print Assumptions gen_mwcs_eq. Print Assumptions gen_mw_build_eq. Print Assumptions gen_mw_close_eq.
Print Assumptions dsetg_absent. Print Assumptions dsetg_last. Print Assumptions lookup_last. Print Assumptions build_inv. Print Assumptions memZ_removeZ.
Print Assumptions filter_filter'. Print Assumptions sweep_spec.
