(* Irving.find_initial_preference_lists regenerated from the source (IrvInitGen.v, KeyError / IndexError as None): for a matching in which no man and no woman
   occurs twice, whenever it returns the two dictionaries of shortlists they are the model's Irving.new_pl1 / new_pl2 (on the proved stable argsort). *)
From Coq Require Import Arith ZArith List Bool Lia.
Import ListNotations.
From SCK Require Import Argsort FlowModel Mwcs Irving.
From SCKGen Require Import IrvInitGen.

Definition asort (row : list nat) : list nat := argsort (map Some row).

Lemma omap_map {A B} (f : A -> option B) (g : A -> B) : forall l r, (forall x y, In x l -> f x = Some y -> y = g x) -> gen_omap f l = Some r -> r = map g l.
Proof.
  induction l as [|x t IH]; intros r H E; cbn [gen_omap] in E; [injection E as <-; reflexivity|].
  destruct (f x) as [y|] eqn:Ex; [|discriminate]. destruct (gen_omap f t) as [r'|] eqn:Et; [|discriminate]. injection E as <-. cbn [map]. f_equal.
  - apply (H x y (or_introl eq_refl) Ex).
  - apply IH; [intros x' y' Hin; apply H; right; exact Hin|reflexivity].
Qed.
Lemma ofilter_filter {A} (f : A -> option bool) (g : A -> bool) : forall l r, (forall x b, In x l -> f x = Some b -> b = g x) -> gen_ofilter f l = Some r -> r = filter g l.
Proof.
  induction l as [|x t IH]; intros r H E; cbn [gen_ofilter] in E; [injection E as <-; reflexivity|].
  destruct (f x) as [b|] eqn:Ex; [|discriminate]. destruct (gen_ofilter f t) as [r'|] eqn:Et; [|discriminate]. injection E as <-. cbn [filter].
  rewrite <- (H x b (or_introl eq_refl) Ex). rewrite (IH r' (fun x' b' Hin => H x' b' (or_intror Hin)) eq_refl). reflexivity.
Qed.
Lemma dget_in {V} (d : list (nat * V)) k v : gen_dget d k = Some v -> In (k, v) d.
Proof.
  unfold gen_dget. destruct (find (fun p => (fst p =? k)%nat) (rev d)) as [[k' v']|] eqn:E; [|discriminate]. cbn [option_map snd]. intro H. injection H as <-.
  apply find_some in E. destruct E as [Hin Hk]. cbn [fst] in Hk. apply Nat.eqb_eq in Hk. subst. apply in_rev. exact Hin.
Qed.
Lemma find_fst_unique (M : list (nat * nat)) i j : NoDup (map fst M) -> In (i, j) M -> find (fun p => (fst p =? i)%nat) M = Some (i, j).
Proof.
  induction M as [|[a b] t IH]; intros Hnd Hin; [destruct Hin|]. cbn [map fst] in Hnd. inversion Hnd as [|? ? Hna Hnd']; subst. cbn [find fst].
  destruct Hin as [E|Hin].
  - injection E as -> ->. rewrite Nat.eqb_refl. reflexivity.
  - destruct (Nat.eqb_spec a i) as [->|_]; [exfalso; apply Hna; apply in_map_iff; exists (i, j); split; [reflexivity|exact Hin]|apply IH; assumption].
Qed.
Lemma find_snd_unique (M : list (nat * nat)) i j : NoDup (map snd M) -> In (i, j) M -> find (fun p => (snd p =? j)%nat) M = Some (i, j).
Proof.
  induction M as [|[a b] t IH]; intros Hnd Hin; [destruct Hin|]. cbn [map snd] in Hnd. inversion Hnd as [|? ? Hna Hnd']; subst. cbn [find snd].
  destruct Hin as [E|Hin].
  - injection E as -> ->. rewrite Nat.eqb_refl. reflexivity.
  - destruct (Nat.eqb_spec b j) as [->|_]; [exfalso; apply Hna; apply in_map_iff; exists (i, j); split; [reflexivity|exact Hin]|apply IH; assumption].
Qed.
Lemma at_nth P a b r : gen_init_at P a b = Some r -> r = nthn (nthl P a) b.
Proof.
  unfold gen_init_at, nthn, nthl. destruct (nth_error P a) as [row|] eqn:E; [|discriminate]. intro H. rewrite (nth_error_nth P a [] E). symmetry. apply nth_error_nth. exact H.
Qed.

Section I.
Variables (M : list (nat * nat)) (P1 P2 : list (list nat)).
Hypothesis men_once : NoDup (map fst M).
Hypothesis women_once : NoDup (map snd M).

Lemma pl1_spec d i l : gen_init_pl1 asort M P1 = Some d -> gen_dget d i = Some l -> l = pl1_0 P1 M i.
Proof.
  intros Hd Hg. unfold gen_init_pl1 in Hd.
  apply (omap_map _ (fun ij : nat * nat => (fst ij, skipn (nthn (nthl P1 (fst ij)) (snd ij)) (nthl (map asort P1) (fst ij))))) in Hd.
  - subst d. apply dget_in in Hg. apply in_map_iff in Hg. destruct Hg as [[i' j] [E Hin]]. cbn [fst snd] in E. injection E as -> <-.
    unfold pl1_0, wife. rewrite (find_fst_unique M i j men_once Hin). reflexivity.
  - intros [i' j] y _ E. cbn [fst snd] in *. destruct (gen_init_at P1 i' j) as [r|] eqn:Ea; [|discriminate]. injection E as <-. rewrite (at_nth _ _ _ _ Ea). reflexivity.
Qed.
Lemma pl2_spec d j l : gen_init_pl2 asort M P2 = Some d -> gen_dget d j = Some l -> l = pl2_0 P2 M j.
Proof.
  intros Hd Hg. unfold gen_init_pl2 in Hd.
  apply (omap_map _ (fun ij : nat * nat => (snd ij, firstn (nthn (nthl P2 (snd ij)) (fst ij) + 1) (nthl (map asort P2) (snd ij))))) in Hd.
  - subst d. apply dget_in in Hg. apply in_map_iff in Hg. destruct Hg as [[i j'] [E Hin]]. cbn [fst snd] in E. injection E as -> <-.
    unfold pl2_0, husband. rewrite (find_snd_unique M i j women_once Hin). cbn [fst]. rewrite Nat.add_1_r. reflexivity.
  - intros [i j'] y _ E. cbn [fst snd] in *. destruct (gen_init_at P2 j' i) as [r|] eqn:Ea; [|discriminate]. injection E as <-. rewrite (at_nth _ _ _ _ Ea). reflexivity.
Qed.

Theorem gen_initial_lists_is_model a b : gen_initial_lists asort M P1 P2 = Some (a, b) -> a = new_pl1 P1 P2 M /\ b = new_pl2 P1 P2 M.
Proof.
  unfold gen_initial_lists. cbv zeta. destruct (gen_init_pl1 asort M P1) as [d1|] eqn:E1; [|discriminate]. destruct (gen_init_pl2 asort M P2) as [d2|] eqn:E2; [|discriminate].
  match goal with |- match ?x with _ => _ end = _ -> _ => destruct x as [n1|] eqn:En1; [|discriminate] end.
  match goal with |- match ?x with _ => _ end = _ -> _ => destruct x as [n2|] eqn:En2; [|discriminate] end.
  intro H. injection H as <- <-.
  assert (Ha : n1 = new_pl1 P1 P2 M).
  { unfold new_pl1. cbv zeta. apply (omap_map _ _ _ _ ) with (2 := En1). intros i y _ Ei.
    destruct (gen_dget d1 i) as [l|] eqn:Eg; [|discriminate]. rewrite <- (pl1_spec d1 i l E1 Eg).
    apply (ofilter_filter _ _ _ _) with (2 := Ei). intros j bb _ Ej. destruct (gen_dget d2 j) as [l2|] eqn:Eg2; [|discriminate]. cbn [option_map] in Ej. injection Ej as <-.
    rewrite (pl2_spec d2 j l2 E2 Eg2). reflexivity. }
  split; [exact Ha|]. unfold new_pl2. cbv zeta. apply (omap_map _ _ _ _) with (2 := En2). intros j y _ Ej.
  destruct (gen_dget d2 j) as [l|] eqn:Eg; [|discriminate]. rewrite <- (pl2_spec d2 j l E2 Eg).
  apply (ofilter_filter _ _ _ _) with (2 := Ej). intros i bb _ Ei. destruct (nth_error n1 i) as [row|] eqn:En; [|discriminate]. cbn [option_map] in Ei. injection Ei as <-.
  rewrite <- Ha. unfold nthl. rewrite (nth_error_nth n1 i [] En). reflexivity.
Qed.
End I.

Example gen_initial_lists_example :
  gen_initial_lists asort [(0, 0); (1, 1)]%nat [[0; 1]; [1; 0]]%nat [[1; 0]; [0; 1]]%nat = Some ([[0; 1]; [1; 0]], [[1; 0]; [0; 1]])%nat.
Proof. vm_compute. reflexivity. Qed.
Print Assumptions omap_map. Print Assumptions ofilter_filter. Print Assumptions dget_in. Print Assumptions find_fst_unique. Print Assumptions find_snd_unique. Print Assumptions at_nth.
Print Assumptions pl1_spec. Print Assumptions pl2_spec. Print Assumptions gen_initial_lists_is_model.
