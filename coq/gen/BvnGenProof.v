(* birkhoff_von_neumann regenerated from the source (BvnGen.v, on the regenerated positivity_graph of PosGraphGen.v) IS the exact model BvN2.bvn - the
   object of C06's theorems - on every run whose matrices are never "almost zero" (an entry with 0 < |x| < 1e-9, which the code treats as zero and the exact
   process does not) and always have a positive entry in every row and column (otherwise the matching routine's validator raises; the model returns None). *)
From Coq Require Import Arith ZArith QArith Qabs List Bool Lia.
Import ListNotations.
From SCK Require Import FlowModel BipModel BvN2.
From SCK Require Import BvNSnap.
From SCKGen Require Import PosGraphGen PosGraphGenProof BvnGen.

Lemma gen_bvn_done_eq X : nosmall_b X = true -> gen_bvn_done X = forallb (forallb (fun x => Qeq_bool x 0)) X.
Proof.
  intro H. unfold gen_bvn_done, nosmall_b in *. induction X as [|row X IH]; [reflexivity|]. cbn [forallb] in *. apply andb_prop in H. destruct H as [Hr HX].
  rewrite (IH HX). f_equal. clear IH HX. induction row as [|x row IH]; [reflexivity|]. cbn [forallb] in *. apply andb_prop in Hr. destruct Hr as [Hx Hr].
  rewrite (IH Hr). f_equal. fold thr_bvn. destruct (Qeq_bool x 0) eqn:E.
  - apply Qeq_bool_iff in E. assert (Hlt : Qle_bool thr_bvn (Qabs x) = false).
    { apply not_true_is_false. intro Hle. apply Qle_bool_iff in Hle. rewrite E in Hle. revert Hle. unfold thr_bvn, Qle. simpl. lia. }
    rewrite Hlt. reflexivity.
  - cbn [orb] in Hx. rewrite Hx. reflexivity.
Qed.

Lemma seq_shift_map n : forall k s, map Z.of_nat (seq (s + n) k) = map (fun j => Z.of_nat (j + n)) (seq s k).
Proof. induction k as [|k IH]; intro s; [reflexivity|]. cbn [seq map]. f_equal. exact (IH (S s)). Qed.
Lemma ys_range n : map Z.of_nat (seq n (n * 2 - n)) = ys n.
Proof. replace (n * 2 - n)%nat with n by lia. unfold ys. exact (seq_shift_map n n 0%nat). Qed.
Lemma xs_range n : map Z.of_nat (seq 0 n) = xs n. Proof. reflexivity. Qed.

Lemma read_off_posgraph X n fl : read_off (gen_posgraph X n) (xs n) fl = read_off (posgraph X n) (xs n) fl.
Proof.
  unfold read_off, xs. rewrite !flat_map_concat_map. f_equal. rewrite !map_map. apply map_ext_in. intros i Hi. apply in_seq in Hi.
  rewrite gen_posgraph_row, posgraph_row by lia. reflexivity.
Qed.
Lemma max_matching_posgraph fuel X n : max_matching fuel (gen_posgraph X n) (xs n) (ys n) = max_matching fuel (posgraph X n) (xs n) (ys n).
Proof. unfold max_matching. rewrite gen_posgraph_net. destruct (ff_loop _ _ _ _) as [[? fl]|]; [|reflexivity]. rewrite read_off_posgraph. reflexivity. Qed.

Lemma gen_bvn_z_eq X n M : gen_bvn_z X n M = zmin X n M. Proof. reflexivity. Qed.
Lemma gen_bvn_sub_eq X n M z : gen_bvn_sub X n M z = sub_step X n M z. Proof. reflexivity. Qed.

(* a whole run of the model stays in the domain: BvNSnap.bvn_run_ok (decidable, evaluated by the kernel) *)
Theorem gen_bvn_loop_eq ffuel n : forall fuel X acc, bvn_run_ok fuel ffuel n X = true ->
  gen_bvn_loop (max_matching ffuel) fuel n X acc = bvn_loop fuel ffuel n X acc.
Proof.
  induction fuel as [|f IH]; intros X acc Hok; [reflexivity|]. cbn [gen_bvn_loop bvn_loop bvn_run_ok] in *.
  apply andb_prop in Hok. destruct Hok as [Hns Hok]. rewrite (gen_bvn_done_eq X Hns).
  destruct (forallb (forallb (fun x => Qeq_bool x 0)) X); [reflexivity|].
  apply andb_prop in Hok. destruct Hok as [Hk Hok]. rewrite Hk. cbn [negb]. cbv zeta.
  rewrite ys_range, xs_range, max_matching_posgraph.
  destruct (max_matching ffuel (posgraph X n) (xs n) (ys n)) as [M|]; [|reflexivity].
  rewrite gen_bvn_z_eq. destruct (zmin X n M) as [z|]; [|reflexivity]. rewrite gen_bvn_sub_eq. apply IH. exact Hok.
Qed.

Theorem gen_bvn_is_model ffuel X : bvn_run_ok (length X * length X + 2) ffuel (length X) X = true -> gen_bvn (max_matching ffuel) X = bvn ffuel X.
Proof. intro H. unfold gen_bvn, bvn. cbv zeta. apply gen_bvn_loop_eq. exact H. Qed.

(* non-vacuity: 1/2 (identity) + 1/4 (a 3-cycle) + 1/4 (the other 3-cycle) *)
Example bvn_run_ok_example :
  let X := [[1 # 2; 1 # 4; 1 # 4]; [1 # 4; 1 # 2; 1 # 4]; [1 # 4; 1 # 4; 1 # 2]]%Q in
  bvn_run_ok 11 20 3 X = true /\ gen_bvn (max_matching 20) X <> None.
Proof. vm_compute. split; [reflexivity|discriminate]. Qed.

Print Assumptions gen_bvn_done_eq.
Print Assumptions seq_shift_map.
Print Assumptions ys_range.
Print Assumptions xs_range.
Print Assumptions read_off_posgraph.
Print Assumptions max_matching_posgraph.
Print Assumptions gen_bvn_z_eq.
Print Assumptions gen_bvn_sub_eq.
Print Assumptions gen_bvn_loop_eq.
Print Assumptions gen_bvn_is_model.
