(* The STV loop GENERATED from the current Python source (StvGen.v, rebuilt on every run by harness/translate.py;
   it calls the generated Plurality score and the generated break_tie) equals the hand-written model Voting.stv_loop
   that C11 / C12's theorems are about: for every profile, every fuel and every sequence of tie-break draws. *)
From Coq Require Import ZArith QArith List Bool Lia String.
Import ListNotations.
From SCK Require Import Voting VotingProof ScoreProof GenLib GenStv.
From SCKGen Require Import ScoringGen StvGen.
Local Open Scope Z_scope.

Lemma gen_plurality_counts : forall P m, rect P m -> gen_score_Plurality 0 P = map inject_Z (plurality_counts P m).
Proof.
  intros P m HR. unfold gen_score_Plurality. cbv zeta. rewrite (ncols_rect P m HR). f_equal. apply plurality_counts_gen.
  intros x. repeat match goal with
  | |- context [?a =? ?b] => destruct (Z.eqb_spec a b)
  | |- context [?a <? ?b] => destruct (Z.ltb_spec a b)
  | |- context [?a <=? ?b] => destruct (Z.leb_spec a b)
  end; try reflexivity; exfalso; lia.
Qed.
Print Assumptions gen_plurality_counts.
Lemma gen_stv_f_spec : forall x r, gen_stv_f x r = if x >? r then x - 1 else x.
Proof.
  intros x r. unfold gen_stv_f. rewrite ?Z.gtb_ltb, ?Z.geb_leb.
  repeat match goal with
  | |- context [?a <? ?b] => destruct (Z.ltb_spec a b)
  | |- context [?a <=? ?b] => destruct (Z.leb_spec a b)
  | |- context [?a =? ?b] => destruct (Z.eqb_spec a b)
  end; lia.
Qed.
Print Assumptions gen_stv_f_spec.

Theorem gen_stv_random_is_model : forall fuel P alts oracle, rect P (List.length alts) ->
  stv_iter gen_stv_done (gen_stv_next "random") fuel (P, alts) oracle = stv_loop fuel P alts oracle.
Proof.
  intros fuel P alts oracle HR.
  exact (stv_shape_is_model (gen_score_Plurality 0) gen_stv_f gen_plurality_counts gen_stv_f_spec fuel P alts oracle HR).
Qed.
Print Assumptions gen_stv_random_is_model.

Theorem gen_stv_first_is_model : forall fuel P alts oracle, rect P (List.length alts) ->
  stv_iter gen_stv_done (gen_stv_next "first") fuel (P, alts) oracle = stv_loop fuel P alts (map (fun _ => O) oracle).
Proof.
  intros fuel P alts oracle HR.
  exact (stv_shape_first_is_model (gen_score_Plurality 0) gen_stv_f gen_plurality_counts gen_stv_f_spec fuel P alts oracle HR).
Qed.
Print Assumptions gen_stv_first_is_model.

(* the initial state is the model's: all alternatives numbered with the index convention; 'accept' is not a valid
   tie-breaker for STV: the loop body fails *)
Theorem gen_stv_init_is_model : forall zi P, gen_stv_init zi P =
  (P, map (fun j => Z.of_nat j + (if zi then 0 else 1)) (seq 0 (List.length (nth 0 P [])))).
Proof. intros zi P. unfold gen_stv_init, ncols. rewrite Nat2Z.id. destruct zi; reflexivity. Qed.
Print Assumptions gen_stv_init_is_model.
Theorem gen_stv_accept_rejected : forall o st, (List.length (snd st) <> 1)%nat -> gen_stv_next "accept" o st = None.
Proof. intros o [P alts] H. reflexivity. Qed.
Print Assumptions gen_stv_accept_rejected.
