(* SimultaneousEating.bistochastic regenerated from the source (EatLoopGen.v, one definition per statement of the loop body, numpy expressions compiled
   pointwise) IS the exact eating model Eat3 - the object of C05's theorems - on every run that never lands in the two snapping windows of the code
   (a remaining fraction in (0, 1e-9], an eaten amount in [1 - 1e-9, 1)): the code clears such values, the exact process does not.  snapfree_b decides
   that for one pass, run_ok_b along a whole run. *)
From Coq Require Import Arith ZArith QArith List Bool Lia.
Import ListNotations.
From SCK Require Import Argsort GSInst Eat3 Eat3Proof Eat3Term EatFinal GenNp EatSnap.
From SCKGen Require Import EatLoopGen.
Local Open Scope Q_scope.

Section G.
Variable n : nat.
Variable item : nat -> nat -> nat.
Variable sp : nat -> Q.
Hypothesis sp_pos : forall i, 0 < sp i.
Let ids := seq 0 n.

Lemma in_ids_lt i : In i (seq 0 n) -> (i < n)%nat. Proof. intro H. apply in_seq in H. lia. Qed.

Lemma gen_advance_eq rem' i : forall fuel p, gen_eat_advance n item rem' i fuel p = advance n item rem' i fuel p.
Proof.
  induction fuel as [|f IH]; intro p; [reflexivity|]. cbn [gen_eat_advance advance].
  destruct (p <? n)%nat; cbn [andb]; [|reflexivity]. destruct (nth (item i p) rem' None); cbn [isnan]; [reflexivity|apply IH].
Qed.

Lemma g_current_item st : gen_eat_set_current_item n item (pos st) = map (cur item st) (seq 0 n).
Proof. unfold gen_eat_set_current_item. apply map_ext. intro i. unfold cur. destruct (nth i (pos st) None); reflexivity. Qed.

Lemma g_total_speeds st : gen_eat_set_total_speeds n sp (map (cur item st) (seq 0 n)) = map (tot n item sp st) (seq 0 n).
Proof.
  unfold gen_eat_set_total_speeds. apply map_ext. intro j. unfold tot. f_equal. f_equal. apply filter_ext_in. intros i Hi.
  rewrite (nth_map_seq (cur item st) n i None (in_ids_lt i Hi)). unfold eats, oeqn. reflexivity.
Qed.

Lemma g_time_agents st : gen_eat_set_time_until_agent_finished n sp (eaten st) = cand_agents n sp st.
Proof.
  unfold gen_eat_set_time_until_agent_finished, cand_agents. apply map_ext. intro i. destruct (nth i (eaten st) None) as [e|]; [|reflexivity].
  cbn [osub odiv]. assert (H : Qeq_bool (sp i) 0 = false). { apply not_true_is_false. intro H. apply Qeq_bool_iff in H. pose proof (sp_pos i) as Hp. rewrite H in Hp. apply (Qlt_irrefl 0 Hp). }
  rewrite H. reflexivity.
Qed.

Lemma tot_nonneg st j : 0 <= tot n item sp st j.
Proof.
  rewrite (tot_sum n item sp st j).
  assert (H0 : sumQ (fun _ => 0) (seq 0 n) == 0). { rewrite sumQ_const. ring. }
  rewrite <- H0. apply sumQ_le. intros i _. destruct (eats item st i j); [apply Qlt_le_weak, sp_pos|apply Qle_refl].
Qed.

Lemma g_time_items st : gen_eat_set_time_until_item_finished n (rem st) (map (tot n item sp st) (seq 0 n)) = cand_items n item sp st.
Proof.
  unfold gen_eat_set_time_until_item_finished, cand_items. apply map_ext_in. intros j Hj. rewrite (nth_map_seq (tot n item sp st) n j 0 (in_ids_lt j Hj)).
  destruct (nth j (rem st) None) as [r|]; [|reflexivity]. cbn [odiv].
  assert (H : Qeq_bool (tot n item sp st j) 0 = Qle_bool (tot n item sp st j) 0).
  { pose proof (tot_nonneg st j) as Hn. destruct (Qle_bool (tot n item sp st j) 0) eqn:E.
    - apply Qle_bool_iff in E. apply Qeq_bool_iff. apply Qle_antisym; assumption.
    - apply not_true_is_false. intro H. apply Qeq_bool_iff in H. assert (Hl : Qle_bool (tot n item sp st j) 0 = true) by (apply Qle_bool_iff; rewrite H; apply Qle_refl). congruence. }
  rewrite H. reflexivity.
Qed.

Lemma g_matrix st t : gen_eat_set_bistochastic n sp (X st) (map (cur item st) (seq 0 n)) t = X_next n item sp st t.
Proof.
  unfold gen_eat_set_bistochastic, X_next. apply map_ext_in. intros i Hi. rewrite (nth_map_seq (cur item st) n i None (in_ids_lt i Hi)). reflexivity.
Qed.

(* the two snapping windows: EatSnap.thr_rem, thr_eat, snapfree_b (thresholds as they stand in the generated text: 1e-9 and 1 - 1e-9 evaluated in binary64) *)
Local Notation snapfree_b := (EatSnap.snapfree_b n item sp).

Lemma g_rem st t : snapfree_b st t = true ->
  gen_eat_set_item_fraction_remaining_2 n (gen_eat_set_item_fraction_remaining_1 n (rem st) (map (tot n item sp st) (seq 0 n)) t) = rem_next n item sp st t.
Proof.
  intro Hs. unfold EatSnap.snapfree_b in Hs. apply andb_prop in Hs. destruct Hs as [Hs _]. rewrite forallb_forall in Hs.
  unfold gen_eat_set_item_fraction_remaining_2, gen_eat_set_item_fraction_remaining_1, rem_next. apply map_ext_in. intros j Hj. pose proof (in_ids_lt j Hj) as Hlt.
  rewrite (nth_map_seq _ n j None Hlt). rewrite (nth_map_seq (tot n item sp st) n j 0 Hlt). specialize (Hs j Hj).
  destruct (nth j (rem st) None) as [r|]; [|reflexivity]. cbn [omul osub ogtq]. cbv zeta in Hs.
  destruct (Qle_bool (qsub r (qmul (tot n item sp st j) t)) 0) eqn:E0.
  - assert (Hle : Qle_bool (qsub r (qmul (tot n item sp st j) t)) thr_rem = true).
    { apply Qle_bool_iff. apply Qle_bool_iff in E0. eapply Qle_trans; [exact E0|]. unfold thr_rem, Qle. simpl. lia. }
    fold thr_rem. rewrite Hle. reflexivity.
  - cbn [orb] in Hs. fold thr_rem. rewrite Hs. reflexivity.
Qed.

Lemma g_eaten st t : snapfree_b st t = true ->
  gen_eat_set_agent_amount_eaten_2 n (gen_eat_set_agent_amount_eaten_1 n sp (eaten st) t) = eaten_next n sp st t.
Proof.
  intro Hs. unfold EatSnap.snapfree_b in Hs. apply andb_prop in Hs. destruct Hs as [_ Hs]. rewrite forallb_forall in Hs.
  unfold gen_eat_set_agent_amount_eaten_2, gen_eat_set_agent_amount_eaten_1, eaten_next. apply map_ext_in. intros i Hi. pose proof (in_ids_lt i Hi) as Hlt.
  rewrite (nth_map_seq _ n i None Hlt). specialize (Hs i Hi).
  destruct (nth i (eaten st) None) as [e|]; [|reflexivity]. cbn [omul oadd oltq]. cbv zeta in Hs.
  destruct (Qle_bool 1 (qadd e (qmul (sp i) t))) eqn:E1.
  - assert (Hle : Qle_bool thr_eat (qadd e (qmul (sp i) t)) = true).
    { apply Qle_bool_iff. apply Qle_bool_iff in E1. eapply Qle_trans; [|exact E1]. unfold thr_eat, Qle. simpl. lia. }
    fold thr_eat. rewrite Hle. reflexivity.
  - cbn [orb] in Hs. fold thr_eat. rewrite Hs. reflexivity.
Qed.

Lemma g_pos st t : gen_eat_set_current_position n item (pos st) (rem_next n item sp st t) (eaten_next n sp st t) = pos_next n item sp st t.
Proof.
  unfold gen_eat_set_current_position, pos_next. apply map_ext. intro i. destruct (nth i (pos st) None) as [p|]; [|reflexivity].
  rewrite gen_advance_eq. cbv zeta. destruct (advance n item (rem_next n item sp st t) i (S n) p =? n)%nat; cbn [orb]; [reflexivity|].
  destruct (nth i (eaten_next n sp st t) None); reflexivity.
Qed.

Theorem gen_eat_step_eq st : (forall t, step_time n item sp st = Some t -> snapfree_b st t = true) -> gen_eat_step n item sp st = estep n item sp st.
Proof.
  intro Hs. unfold gen_eat_step, estep. cbv zeta. rewrite g_current_item, g_total_speeds, g_time_agents, g_time_items.
  unfold nanmin. unfold step_time in *.
  destruct (fold_left qminO (cand_agents n sp st) None) as [ta|]; [|reflexivity].
  destruct (qminO (Some ta) (fold_left qminO (cand_items n item sp st) None)) as [t|]; [|reflexivity].
  specialize (Hs t eq_refl). rewrite g_matrix, (g_rem st t Hs), (g_eaten st t Hs), g_pos. reflexivity.
Qed.

(* the exit test: the second disjunct (every agent full, as a NUMBER >= 1) never fires, because full agents are NaN *)
Definition EatenLt1 (st : est) : Prop := forall i e, (i < n)%nat -> nth i (eaten st) None = Some e -> e < 1.
Lemma g_finished st : EatenLt1 st -> gen_eat_finished n st = finished n st.
Proof.
  intro He. unfold gen_eat_finished, finished. cbv zeta.
  assert (H1 : forallb (fun i => isnan (nth i (rem st) None)) (seq 0 n) = forallb (fun j => match nth j (rem st) None with None => true | Some _ => false end) (seq 0 n)).
  { reflexivity. }
  destruct n as [|k] eqn:En; [reflexivity|].
  assert (H2 : forallb (fun i => oleq (Some (1 # 1)) (nth i (eaten st) None)) (seq 0 (S k)) = false).
  { apply not_true_is_false. intro H. rewrite forallb_forall in H. specialize (H O). assert (Hin : In O (seq 0 (S k))) by (apply in_seq; lia). specialize (H Hin).
    destruct (nth 0 (eaten st) None) as [e|] eqn:E0; [|discriminate]. cbn [oleq] in H. apply Qle_bool_iff in H. pose proof (He O e ltac:(lia) E0) as Hlt.
    exact (Qlt_not_le _ _ Hlt H). }
  rewrite H2, orb_false_r. exact H1.
Qed.
Lemma eaten_lt1_init : EatenLt1 (einit n).
Proof. intros i e Hi H. unfold einit in H. cbn [eaten] in H. rewrite (nth_repeat (Some 0) None n i Hi) in H. injection H as <-. reflexivity. Qed.
Lemma eaten_lt1_step st st' : estep n item sp st = Some st' -> EatenLt1 st'.
Proof.
  unfold estep. destruct (step_time n item sp st) as [t|]; [|discriminate]. intro H. injection H as <-. intros i e Hi. cbn [eaten]. unfold eaten_next.
  rewrite (nth_map_seq _ n i None Hi). destruct (nth i (eaten st) None) as [e0|]; [|discriminate].
  destruct (Qle_bool 1 (qadd e0 (qmul (sp i) t))) eqn:E; [discriminate|]. intro H. injection H as <-.
  apply Qnot_le_lt. intro Hle. apply Qle_bool_iff in Hle. congruence.
Qed.

(* a whole run stays outside the snapping windows: EatSnap.run_ok_b (decidable, evaluated by the kernel) *)
Local Notation run_ok_b := (EatSnap.run_ok_b n item sp).

Theorem gen_eat_loop_eq : forall fuel st, EatenLt1 st -> run_ok_b fuel st = true -> gen_eat_loop n item sp fuel st = eloop n item sp fuel st.
Proof.
  induction fuel as [|f IH]; intros st He Hok; [reflexivity|]. cbn [gen_eat_loop eloop]. rewrite (g_finished st He). cbn [EatSnap.run_ok_b] in Hok.
  destruct (finished n st) eqn:Ef; [reflexivity|]. cbn [orb] in Hok.
  assert (Hs : forall t, step_time n item sp st = Some t -> snapfree_b st t = true).
  { intros t Ht. revert Hok. generalize (estep n item sp st). rewrite Ht. intros o Hok. apply andb_prop in Hok. exact (proj1 Hok). }
  rewrite (gen_eat_step_eq st Hs). destruct (estep n item sp st) as [st'|] eqn:Es; [|reflexivity].
  apply IH; [exact (eaten_lt1_step st st' Es)|].
  destruct (step_time n item sp st) as [t|] eqn:Et; [|unfold estep in Es; rewrite Et in Es; discriminate].
  apply andb_prop in Hok. exact (proj2 Hok).
Qed.

(* the inner while loop: S n tests are enough - the value returned is one at which the loop condition is false *)
Lemma gen_eat_advance_exit rem' i : forall fuel p, (p <= n)%nat -> (n - p < fuel)%nat ->
  let p' := gen_eat_advance n item rem' i fuel p in ((p' <? n)%nat && isnan (nth (item i p') rem' None)) = false.
Proof.
  induction fuel as [|f IH]; intros p Hp Hf; [lia|]. cbn [gen_eat_advance].
  destruct ((p <? n)%nat && isnan (nth (item i p) rem' None)) eqn:E; [|exact E].
  apply andb_prop in E. destruct E as [E _]. apply Nat.ltb_lt in E. apply IH; lia.
Qed.
End G.

Lemma gen_eat_init_eq n : gen_eat_init n = einit n. Proof. reflexivity. Qed.
Lemma gen_eat_ranked_eq P : gen_eat_ranked argsort P = eat_item P. Proof. reflexivity. Qed.

(* the whole method, on the proved stable argsort, is EatFinal.eating_run: the object of C05_run_bistochastic, C05_run_terminates, C05_run_eats_in_order, C05_run_sd_envy_free *)
Theorem gen_eat_is_model P speeds : (forall s, In s speeds -> 0 < s) ->
  EatSnap.run_ok_b (length P) (eat_item P) (eat_speed speeds) (2 * length P + 2) (einit (length P)) = true ->
  gen_eat_bistochastic argsort P (eat_speed speeds) = eating_run P speeds.
Proof.
  intros Hsp Hok. unfold gen_eat_bistochastic, eating_run. cbv zeta. rewrite gen_eat_ranked_eq, gen_eat_init_eq.
  rewrite (gen_eat_loop_eq (length P) (eat_item P) (eat_speed speeds) (eat_speed_pos speeds Hsp) _ _ (eaten_lt1_init _) Hok). reflexivity.
Qed.
Corollary gen_eat_bistochastic_sums P speeds Xm : let n := length P in
  (1 <= n)%nat -> (forall row, In row P -> length row = n) -> (forall s, In s speeds -> 0 < s) ->
  EatSnap.run_ok_b n (eat_item P) (eat_speed speeds) (2 * n + 2) (einit n) = true ->
  gen_eat_bistochastic argsort P (eat_speed speeds) = Some Xm ->
  (forall j, (j < n)%nat -> sumQ (fun i => nth j (nth i Xm []) 0) (seq 0 n) == 1) /\
  (forall i, (i < n)%nat -> sumQ (fun j => nth j (nth i Xm []) 0) (seq 0 n) == 1).
Proof. intros n Hn Hrows Hsp Hok Hrun. rewrite (gen_eat_is_model P speeds Hsp Hok) in Hrun. exact (C05_run_bistochastic P speeds Xm Hn Hrows Hsp Hrun). Qed.
(* probabilistic serial = unit speeds *)
Theorem gen_ps_is_unit_speeds P : gen_ps_bistochastic argsort P = gen_eat_bistochastic argsort P (fun _ => 1). Proof. reflexivity. Qed.

(* non-vacuity: a 3 x 3 profile with speeds 1, 2, 3 on which the run never enters a snapping window *)
Example run_ok_example :
  let P := [[Some 0; Some 1; Some 2]; [Some 0; Some 2; Some 1]; [Some 1; Some 0; Some 2]]%nat in
  EatSnap.run_ok_b 3 (eat_item P) (eat_speed [1; 2 # 1; 3 # 1]) 8 (einit 3) = true /\ gen_eat_bistochastic argsort P (eat_speed [1; 2 # 1; 3 # 1]) <> None.
Proof. vm_compute. split; [reflexivity|discriminate]. Qed.

Print Assumptions in_ids_lt.
Print Assumptions gen_advance_eq.
Print Assumptions g_current_item.
Print Assumptions g_total_speeds.
Print Assumptions g_time_agents.
Print Assumptions tot_nonneg.
Print Assumptions g_time_items.
Print Assumptions g_matrix.
Print Assumptions g_rem.
Print Assumptions g_eaten.
Print Assumptions g_pos.
Print Assumptions gen_eat_step_eq.
Print Assumptions g_finished.
Print Assumptions eaten_lt1_init.
Print Assumptions eaten_lt1_step.
Print Assumptions gen_eat_loop_eq.
Print Assumptions gen_eat_advance_exit.
Print Assumptions gen_eat_init_eq.
Print Assumptions gen_eat_ranked_eq.
Print Assumptions gen_eat_is_model.
Print Assumptions gen_eat_bistochastic_sums.
Print Assumptions gen_ps_is_unit_speeds.
