(* incomplete_profile_to_complete_profile regenerated from profile_utils.py (CompleteGen.v: NaN positions found with np.where, ranks scattered
   with one assignment) equals the counting model ProfModel.complete_row that C18's theorems are about, for 'accept' and for 'first'. *)
From Coq Require Import Arith ZArith QArith List Bool Lia.
Import ListNotations.
From SCK Require Import ProfModel.
From SCKGen Require Import CompleteGen.
Local Open Scope nat_scope.

Definition isnone (o : oq) : bool := match o with None => true | Some _ => false end.
Fixpoint nans (row : list oq) : nat := match row with [] => O | None :: r => S (nans r) | Some _ :: r => nans r end.
(* the row with its NaNs numbered from `base` on (all `base` under 'accept') *)
Fixpoint spec (accept : bool) (base : nat) (row : list oq) : list oq :=
  match row with
  | [] => []
  | Some x :: r => Some x :: spec accept base r
  | None :: r => Some (qnat base) :: spec accept (if accept then base else S base) r
  end.

Lemma somes_nans row : (somes row + nans row = length row)%nat.
Proof. unfold somes, countb. induction row as [|[x|] r IH]; cbn [filter length nans]; lia. Qed.
Lemma somes_app a b : somes (a ++ b) = (somes a + somes b)%nat.
Proof. unfold somes, countb. rewrite filter_app, app_length. reflexivity. Qed.
Lemma nans_app a b : nans (a ++ b) = (nans a + nans b)%nat.
Proof. induction a as [|[x|] a IH]; cbn [app nans]; [reflexivity|exact IH|rewrite IH; reflexivity]. Qed.

(* ---- the generated scatter ---- *)
Lemma filter_map_S (f : nat -> bool) : forall l, filter f (map S l) = map S (filter (fun j => f (S j)) l).
Proof. induction l as [|j l IH]; [reflexivity|]. cbn [map filter]. destruct (f (S j)); cbn [map]; rewrite IH; reflexivity. Qed.
Lemma nan_where_cons x r : nan_where (x :: r) = (if isnone x then [O] else []) ++ map S (nan_where r).
Proof.
  unfold nan_where. cbn [length seq]. rewrite <- seq_shift. cbn [filter]. rewrite filter_map_S. cbn [nth]. destruct x; reflexivity.
Qed.
Lemma nan_where_length row : length (nan_where row) = nans row.
Proof. induction row as [|x r IH]; [reflexivity|]. rewrite nan_where_cons, app_length, map_length, IH. destruct x; reflexivity. Qed.

Definition step2 (r0 : list oq) (jv : nat * nat) : list oq := updq r0 (fst jv) (Some (qnat (snd jv))).
Lemma fold_shift2 : forall (pv : list (nat * nat)) x r,
  fold_left step2 (map (fun jv => (S (fst jv), snd jv)) pv) (x :: r) = x :: fold_left step2 pv r.
Proof. induction pv as [|[j v] pv IH]; intros x r; [reflexivity|]. cbn [map fold_left]. unfold step2 at 2 4. cbn [fst snd updq]. apply IH. Qed.
Lemma combine_map_S (pos vals : list nat) : combine (map S pos) vals = map (fun jv => (S (fst jv), snd jv)) (combine pos vals).
Proof. revert vals. induction pos as [|p pos IH]; intros [|v vals]; cbn [map combine]; try reflexivity. rewrite IH. reflexivity. Qed.
Lemma scatter_first : forall row base, fold_left step2 (combine (nan_where row) (seq base (nans row))) row = spec false base row.
Proof.
  induction row as [|[x|] r IH]; intros base; [reflexivity| |]; rewrite nan_where_cons; cbn [isnone app nans spec].
  - rewrite combine_map_S, fold_shift2, IH. reflexivity.
  - cbn [seq combine fold_left]. unfold step2 at 2. cbn [fst snd updq]. rewrite combine_map_S, fold_shift2, IH. reflexivity.
Qed.
Definition step1 (v : Q) (r0 : list oq) (j : nat) : list oq := updq r0 j (Some v).
Lemma fold_shift1 v : forall (pos : list nat) x r, fold_left (step1 v) (map S pos) (x :: r) = x :: fold_left (step1 v) pos r.
Proof. induction pos as [|j pos IH]; intros x r; [reflexivity|]. cbn [map fold_left]. unfold step1 at 2 4. cbn [updq]. apply IH. Qed.
Lemma scatter_accept base : forall row, fold_left (step1 (qnat base)) (nan_where row) row = spec true base row.
Proof.
  induction row as [|[x|] r IH]; [reflexivity| |]; rewrite nan_where_cons; cbn [isnone app spec].
  - rewrite fold_shift1, IH. reflexivity.
  - cbn [fold_left]. unfold step1 at 2. cbn [updq]. rewrite fold_shift1, IH. reflexivity.
Qed.

(* ---- the counting model ---- *)
Lemma model_spec (accept : bool) (row : list oq) (B : nat) : forall row' pre, row = pre ++ row' ->
  map (fun jo : nat * oq => match snd jo with
                 | Some x => Some x
                 | None => Some (inject_Z (Z.of_nat (B + (if accept then 0 else (fst jo - somes (firstn (fst jo) row)))))) end)
      (combine (seq (length pre) (length row')) row') =
  spec accept (B + (if accept then 0 else nans pre)) row'.
Proof.
  induction row' as [|[x|] r IH]; intros pre Hrow; [reflexivity| |]; cbn [length seq combine map snd fst spec].
  - f_equal. specialize (IH (pre ++ [Some x])). rewrite app_length, Nat.add_1_r in IH. rewrite IH by (rewrite <- app_assoc; exact Hrow).
    rewrite nans_app. cbn [nans]. rewrite Nat.add_0_r. reflexivity.
  - f_equal.
    + unfold qnat. do 3 f_equal. destruct accept; [reflexivity|]. f_equal. rewrite Hrow, firstn_app, Nat.sub_diag, firstn_all. cbn [firstn]. rewrite app_nil_r.
      pose proof (somes_nans pre). lia.
    + specialize (IH (pre ++ [None])). rewrite app_length, Nat.add_1_r in IH. rewrite IH by (rewrite <- app_assoc; exact Hrow).
      rewrite nans_app. cbn [nans]. destruct accept; [reflexivity|]. f_equal. lia.
Qed.
Lemma complete_row_spec (accept : bool) row : complete_row accept row = spec accept (somes row + 1) row.
Proof.
  unfold complete_row. cbv zeta. pose proof (somes_nans row) as Hs.
  replace (length row - (length row - somes row))%nat with (somes row) by lia.
  pose proof (model_spec accept row (somes row + 1) row [] eq_refl) as H. cbn [length nans] in H.
  replace (somes row + 1 + (if accept then 0 else 0))%nat with (somes row + 1)%nat in H by (destruct accept; lia).
  rewrite <- H. apply map_ext. intros [j o]. cbn [snd fst]. destruct o; [reflexivity|].
  first [reflexivity | do 3 f_equal; destruct accept; lia | do 2 f_equal; destruct accept; lia | f_equal; destruct accept; lia].
Qed.

Theorem gen_complete_row_accept shuf row : gen_complete_row CAccept shuf row = complete_row true row.
Proof.
  unfold gen_complete_row. cbv zeta. rewrite nan_where_length, complete_row_spec. pose proof (somes_nans row).
  replace (length row - nans row + 1)%nat with (somes row + 1)%nat by lia. apply (scatter_accept (somes row + 1)).
Qed.
Theorem gen_complete_row_first shuf row : gen_complete_row CFirst shuf row = complete_row false row.
Proof.
  unfold gen_complete_row. cbv zeta. rewrite nan_where_length, complete_row_spec. pose proof (somes_nans row).
  replace (length row - nans row + 1)%nat with (somes row + 1)%nat by lia. apply (scatter_first row (somes row + 1)).
Qed.
Theorem gen_complete_eq shuf P : gen_complete CAccept shuf P = map (complete_row true) P /\ gen_complete CFirst shuf P = map (complete_row false) P.
Proof. unfold gen_complete. split; apply map_ext; intros row; [apply gen_complete_row_accept|apply gen_complete_row_first]. Qed.
Print Assumptions gen_complete_row_accept. Print Assumptions gen_complete_row_first. Print Assumptions gen_complete_eq.
Print Assumptions filter_map_S. Print Assumptions somes_nans. Print Assumptions somes_app. Print Assumptions nans_app. Print Assumptions nan_where_cons. Print Assumptions nan_where_length.
Print Assumptions fold_shift2. Print Assumptions combine_map_S. Print Assumptions scatter_first. Print Assumptions fold_shift1. Print Assumptions scatter_accept.
Print Assumptions model_spec. Print Assumptions complete_row_spec.
