(* Equivalence of the model regenerated from flow.py's current source (FlowGen.v) with the hand-written FlowModel.v that the
   theorems of C08 / C09 / C06 (and the flow step of C03 / C17) are about. *)
From Coq Require Import Arith ZArith List Bool Lia.
Import ListNotations.
From SCK Require Import FlowModel.
From SCKGen Require Import FlowGen.
Local Open Scope Z_scope.

(* ---- initialisation ---- *)
Lemma gen_init_edge_eq i st e :
  (let '(G_f, flow) := st in let j := fst e in
   let flow := fset flow (i, j) 0 in let flow := fset flow (j, i) 0 in
   if forallb (fun e_ : Z * Z => let v := fst e_ in negb (v =? i)) (lookup G_f j)
   then let G_f := set_adj G_f j (lookup G_f j ++ [(i, 0)]) in (G_f, flow) else (G_f, flow)) = init_edge i st e.
Proof. destruct st as [Gf fl]. unfold init_edge. cbv zeta. destruct (forallb _ _); reflexivity. Qed.

Lemma fold_left_ext {A B} (f g : A -> B -> A) : (forall a b, f a b = g a b) -> forall l a, fold_left f l a = fold_left g l a.
Proof. intros H l. induction l as [|b l IH]; intros a; [reflexivity|]. cbn [fold_left]. rewrite H. apply IH. Qed.

Theorem gen_init_eq G : gen_init G = init G.
Proof.
  unfold gen_init, init. cbv zeta. apply fold_left_ext. intros [Gf fl] ka. apply fold_left_ext. intros st e. apply gen_init_edge_eq.
Qed.
Print Assumptions gen_init_eq.

(* ---- dfs_path ---- *)
Definition pack (bp : option (list Z)) (bc : Z) : option (list Z * Z) := match bp with Some p => Some (p, bc) | None => None end.
Definition gstep (rec : Z -> list Z -> dres) (current : Z) (st_ : option (list Z * option (list Z) * Z)) (e_ : Z * Z) :=
  match st_ with None => None | Some (visited, best_path, best_capacity) =>
    let v := fst e_ in let c := snd e_ in
    if memZ v visited then Some (visited, best_path, best_capacity)
    else if c >? 0 then let visited := v :: visited in
      match rec v visited with None => None | Some (visited, subpath) =>
        match subpath with
        | Some subpath_v => let '(path, capacity) := subpath_v in
            if Z.min capacity c >? best_capacity then Some (visited, Some ([current] ++ path), Z.min capacity c) else Some (visited, best_path, best_capacity)
        | None => Some (visited, best_path, best_capacity)
        end end
    else Some (visited, best_path, best_capacity) end.
Lemma gstep_none rec cur cands : fold_left (gstep rec cur) cands None = None.
Proof. induction cands as [|e r IH]; [reflexivity|exact IH]. Qed.
Lemma gloop_eq rec cur : forall cands vis bp bc, (bp = None -> bc = 0) ->
  match fold_left (gstep rec cur) cands (Some (vis, bp, bc)) with
  | None => dfs_loop rec cur cands vis (pack bp bc) = None
  | Some (vis', bp', bc') => dfs_loop rec cur cands vis (pack bp bc) = Some (vis', pack bp' bc') /\ (bp' = None -> bc' = 0)
  end.
Proof.
  induction cands as [|[v c] r IH]; intros vis bp bc Hb; [cbn; auto|].
  cbn [fold_left dfs_loop]. unfold gstep at 2. cbn [fst snd]. cbv zeta.
  destruct (memZ v vis); [apply IH; exact Hb|].
  destruct (c >? 0); [|apply IH; exact Hb].
  destruct (rec v (v :: vis)) as [[vis1 [[path cap]|]]|]; [| apply IH; exact Hb | rewrite gstep_none; reflexivity].
  assert (Hbc : match pack bp bc with Some (_, b) => b | None => 0 end = bc) by (destruct bp; [reflexivity|symmetry; auto]).
  rewrite Hbc. destruct (Z.min cap c >? bc).
  - specialize (IH vis1 (Some ([cur] ++ path)) (Z.min cap c) ltac:(discriminate)). exact IH.
  - apply IH; exact Hb.
Qed.

Theorem gen_dfs_eq : forall fuel G sink cur vis, gen_dfs fuel G sink cur vis = dfs fuel G sink cur vis.
Proof.
  induction fuel as [|f IH]; intros G sink cur vis; [reflexivity|].
  cbn [gen_dfs dfs]. destruct (cur =? sink); [reflexivity|]. cbv zeta.
  change (fold_left _ (lookup G cur) (Some (vis, None, 0))) with (fold_left (gstep (gen_dfs f G sink) cur) (lookup G cur) (Some (vis, @None (list Z), 0))).
  assert (Hrec : fold_left (gstep (gen_dfs f G sink) cur) (lookup G cur) (Some (vis, None, 0)) = fold_left (gstep (dfs f G sink) cur) (lookup G cur) (Some (vis, None, 0))).
  { generalize (Some (vis, @None (list Z), 0)). induction (lookup G cur) as [|e r IHr]; intros st; [reflexivity|]. cbn [fold_left]. rewrite <- IHr. f_equal.
    unfold gstep. destruct st as [[[vs bp] bc]|]; [|reflexivity]. cbv zeta. destruct (memZ (fst e) vs); [reflexivity|]. destruct (snd e >? 0); [|reflexivity]. rewrite IH. reflexivity. }
  rewrite Hrec. pose proof (gloop_eq (dfs f G sink) cur (lookup G cur) vis None 0 (fun _ => eq_refl)) as H. cbn [pack] in H.
  destruct (fold_left (gstep (dfs f G sink) cur) (lookup G cur) (Some (vis, None, 0))) as [[[vs bp] bc]|].
  - destruct H as [H _]. rewrite H. destruct bp; reflexivity.
  - rewrite H. reflexivity.
Qed.
Print Assumptions gen_dfs_eq.

(* ---- augmentation along the path ---- *)
Lemma bump_sub a w c : map (fun e_ : Z * Z => let w0 := fst e_ in let c_f := snd e_ in if w0 =? w then (w0, c_f - c) else (w0, c_f)) a = bump a w (- c).
Proof. unfold bump. apply map_ext. intros [x y]. cbn [fst snd]. destruct (x =? w); [f_equal; lia|reflexivity]. Qed.
Lemma bump_add a w c : map (fun e_ : Z * Z => let w0 := fst e_ in let c_f := snd e_ in if w0 =? w then (w0, c_f + c) else (w0, c_f)) a = bump a w c.
Proof. unfold bump. apply map_ext. intros [x y]. cbn [fst snd]. destruct (x =? w); reflexivity. Qed.

Definition astep (path : list Z) (c : Z) (st_ : graph * flowmap) (i : nat) : graph * flowmap :=
  push st_ (nth i path 0) (nth (i + 1)%nat path 0) c.
Lemma gen_augment_unfold path c st : gen_augment path c st = fold_left (astep path c) (seq 0 (length path - 1)) st.
Proof.
  unfold gen_augment. revert st. induction (seq 0 (length path - 1)) as [|i r IH]; intros st; [reflexivity|]. cbn [fold_left]. rewrite <- IH. f_equal.
  destruct st as [Gf fl]. unfold astep, push. cbv zeta. rewrite bump_sub. rewrite bump_add. reflexivity.
Qed.
Lemma astep_shift x path c : forall l st, fold_left (astep (x :: path) c) (map S l) st = fold_left (astep path c) l st.
Proof. induction l as [|i r IH]; intros st; [reflexivity|]. cbn [map fold_left]. rewrite IH. reflexivity. Qed.
Theorem gen_augment_eq c : forall path st, gen_augment path c st = augment path c st.
Proof.
  intros path st. rewrite gen_augment_unfold. revert st. induction path as [|u rest IH]; intros st; [reflexivity|].
  destruct rest as [|v rest']; [reflexivity|].
  replace (length (u :: v :: rest') - 1)%nat with (S (length rest')) by (simpl; lia).
  cbn [seq fold_left]. rewrite <- seq_shift, astep_shift.
  replace (length rest') with (length (v :: rest') - 1)%nat by (simpl; lia). rewrite IH. reflexivity.
Qed.
Print Assumptions gen_augment_eq.

(* ---- the main loop ---- *)
Theorem gen_ff_loop_eq : forall fuel st s t, gen_ff_loop fuel st s t = ff_loop fuel st s t.
Proof.
  induction fuel as [|f IH]; intros [Gf fl] s t; [reflexivity|]. cbn [gen_ff_loop ff_loop fst]. rewrite gen_dfs_eq.
  destruct (dfs (length Gf + 2) Gf t s [s]) as [[vs [[path c]|]]|]; [|reflexivity|reflexivity]. rewrite gen_augment_eq. apply IH.
Qed.
Print Assumptions gen_ff_loop_eq.
(* auxiliary lemmas *)
Print Assumptions gen_init_edge_eq.
Print Assumptions fold_left_ext.
Print Assumptions gstep_none.
Print Assumptions gloop_eq.
Print Assumptions bump_sub.
Print Assumptions bump_add.
Print Assumptions gen_augment_unfold.
Print Assumptions astep_shift.
