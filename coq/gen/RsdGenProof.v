(* RandomSerialDictatorship.scf regenerated from the source (RsdGen.v) equals the model RSD.rsd that C07's serial-dictatorship theorems are
   about: the code blanks the column of every taken item in a working copy of the profile, the model carries the list of taken items. *)
From Coq Require Import Arith ZArith List Bool Lia.
Import ListNotations.
From SCK Require Import RSD.
From SCKGen Require Import RsdGen.
Local Open Scope Z_scope.

Fixpoint blank_from (row : list (option Z)) (taken : list nat) (j : nat) : list (option Z) :=
  match row with [] => [] | r :: t => (if memn j taken then None else r) :: blank_from t taken (S j) end.
Definition blank (P : list (list (option Z))) (taken : list nat) := map (fun row => blank_from row taken 0) P.

Lemma scan_eq : forall row taken j best, nanargmin_from (blank_from row taken j) j best = best_from row taken j best.
Proof.
  induction row as [|r t IH]; intros taken j best; [reflexivity|]. cbn [blank_from nanargmin_from best_from]. rewrite IH. f_equal.
  destruct r as [rk|]; [|destruct (memn j taken); reflexivity]. destruct (memn j taken); reflexivity.
Qed.
Lemma best_from_some : forall row taken j b, best_from row taken j (Some b) <> None.
Proof.
  induction row as [|r t IH]; intros taken j b; [discriminate|]. cbn [best_from]. destruct r as [rk|]; [|apply IH].
  destruct (memn j taken); [apply IH|]. destruct b as [bj rb]. destruct (rk <? rb); apply IH.
Qed.
Lemma allnan_none : forall row taken j, allnan (blank_from row taken j) = true <-> best_from row taken j None = None.
Proof.
  induction row as [|r t IH]; intros taken j; [cbn; tauto|]. cbn [blank_from best_from]. unfold allnan in *. cbn [forallb].
  destruct r as [rk|]; [|destruct (memn j taken); cbn [andb]; apply IH]. destruct (memn j taken); cbn [andb]; [apply IH|].
  split; [discriminate|]. intros H. exfalso. exact (best_from_some _ _ _ _ H).
Qed.
Lemma memn_cons x y l : memn x (y :: l) = (x =? y)%nat || memn x l.
Proof. reflexivity. Qed.
Lemma blank_from_extra : forall row taken x j, (x < j)%nat -> blank_from row (x :: taken) j = blank_from row taken j.
Proof.
  induction row as [|r t IH]; intros taken x j Hx; [reflexivity|]. cbn [blank_from]. rewrite memn_cons.
  replace (j =? x)%nat with false by (symmetry; apply Nat.eqb_neq; lia). cbn [orb]. f_equal. apply IH. lia.
Qed.
Lemma upd_blank : forall row taken j k, upd (blank_from row taken j) k None = blank_from row ((j + k)%nat :: taken) j.
Proof.
  induction row as [|r t IH]; intros taken j k; [destruct k; reflexivity|]. cbn [blank_from]. rewrite memn_cons. destruct k as [|k]; cbn [upd].
  - rewrite Nat.add_0_r, Nat.eqb_refl. cbn [orb]. f_equal. symmetry. apply blank_from_extra. lia.
  - replace (j =? j + S k)%nat with false by (symmetry; apply Nat.eqb_neq; lia). cbn [orb]. f_equal. rewrite IH. f_equal. f_equal. lia.
Qed.
Lemma nth_blank P taken a : nth a (blank P taken) [] = blank_from (nth a P []) taken 0.
Proof. unfold blank. revert a. induction P as [|row P IH]; intros [|a]; cbn [map nth]; try reflexivity. apply IH. Qed.

Lemma steps_agree fixer P : forall order alloc taken,
  fold_left (fun (st_ : list (option Z) * list (list (option Z))) (agent : nat) => let '(allocation, pref) := st_ in
      if allnan (nth agent pref []) then (allocation, pref) else
      let item := nanargmin (nth agent pref []) in
      (upd allocation agent (Some (Z.of_nat item + fixer)), map (fun row_ => upd row_ item None) pref)) order (alloc, blank P taken) =
  let '(a', t') := fold_left (rsd_step P fixer) order (alloc, taken) in (a', blank P t').
Proof.
  induction order as [|a order IH]; intros alloc taken; [reflexivity|]. cbn [fold_left]. unfold rsd_step at 2. unfold best_remaining.
  rewrite nth_blank. destruct (allnan (blank_from (nth a P []) taken 0)) eqn:E.
  - apply allnan_none in E. rewrite E. cbn [option_map]. apply IH.
  - unfold nanargmin. rewrite scan_eq. destruct (best_from (nth a P []) taken 0 None) as [[j rk]|] eqn:Eb.
    + cbn [option_map fst]. replace (map (fun row_ => upd row_ j None) (blank P taken)) with (blank P (j :: taken)); [apply IH|].
      unfold blank. rewrite map_map. apply map_ext. intros row. rewrite upd_blank. reflexivity.
    + exfalso. apply allnan_none in Eb. rewrite Eb in E. discriminate.
Qed.
Lemma blank_nil P : blank P [] = P.
Proof.
  unfold blank. rewrite <- (map_id P) at 2. apply map_ext. intros row. generalize 0%nat. induction row as [|r t IH]; intros j; [reflexivity|]. cbn. f_equal. apply IH.
Qed.
Theorem gen_rsd_eq fixer P order : gen_rsd fixer P order = rsd P order fixer.
Proof.
  unfold gen_rsd, rsd. cbv zeta. rewrite <- (blank_nil P) at 2. rewrite steps_agree.
  destruct (fold_left (rsd_step P fixer) order (repeat None (length P), [])) as [a' t']. reflexivity.
Qed.
Theorem gen_rsd_fixer_eq zi : gen_rsd_fixer zi = if zi then 0 else 1.
Proof. reflexivity. Qed.
Print Assumptions gen_rsd_eq. Print Assumptions gen_rsd_fixer_eq.
Print Assumptions scan_eq. Print Assumptions best_from_some. Print Assumptions allnan_none. Print Assumptions memn_cons. Print Assumptions blank_from_extra.
Print Assumptions upd_blank. Print Assumptions nth_blank. Print Assumptions steps_agree. Print Assumptions blank_nil.
