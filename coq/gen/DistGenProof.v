(* distortion.distortion regenerated from the source (DistGen.v, on top of the regenerated SocialWelfare.score of ScoringGen.v): the value returned is
   max welfare / welfare of the chosen alternative (the normalisation by the total cancels, unlisted alternatives count 0), and it is never below 1. *)
From Coq Require Import Arith ZArith QArith List Bool Lia Lqa.
Import ListNotations.
From SCK Require Import Voting VoteExt ScoreProof GenLib GenUtil.
From SCKGen Require Import ScoringGen DistGen.
Local Open Scope Q_scope.

Lemma nz_fill x : nz (match x with None => Some (0 # 1) | Some _ => x end) = nz x.
Proof. destruct x; reflexivity. Qed.
Lemma nz_nth_fill row : forall j, nz (nth j (map (fun x : option Q => match x with None => Some (0 # 1) | Some _ => x end) row) None) = nz (nth j row None).
Proof. induction row as [|x t IH]; intros [|j]; cbn [map nth]; [reflexivity|reflexivity|apply nz_fill|apply IH]. Qed.

Lemma gen_complete_colsum m V : nancolsum m (gen_complete_vp V) = nancolsum m V.
Proof.
  unfold nancolsum, gen_complete_vp. apply map_ext. intro j. f_equal. rewrite map_map. apply map_ext. intro row. apply nz_nth_fill.
Qed.
Lemma gen_complete_total V : nansum_all (gen_complete_vp V) = nansum_all V.
Proof.
  unfold nansum_all, gen_complete_vp. f_equal. rewrite map_map. apply map_ext. intro row. f_equal. rewrite map_map. apply map_ext. intro x. apply nz_fill.
Qed.
Lemma gen_complete_ncols V : qncols (gen_complete_vp V) = qncols V.
Proof. unfold qncols, gen_complete_vp. destruct V as [|r t]; [reflexivity|]. cbn [map nth]. apply map_length. Qed.
Theorem gen_complete_score V : gen_score_SocialWelfare (gen_complete_vp V) = gen_score_SocialWelfare V.
Proof. unfold gen_score_SocialWelfare. rewrite gen_complete_ncols, gen_complete_colsum, gen_complete_total. reflexivity. Qed.

Lemma amaxQ_ge l i : (i < length l)%nat -> nth i l 0 <= amaxQ l.
Proof.
  destruct l as [|x t]; cbn [length]; [lia|]. intro Hi. unfold amaxQ. destruct (maxQ_spec t x) as [Hd [Hin _]].
  destruct i as [|i]; [exact Hd|]. cbn [nth]. apply Hin. apply nth_In. lia.
Qed.
Lemma aminQ_fold t : forall a, In (fold_left (fun a y => if Qle_bool a y then a else y) t a) (a :: t).
Proof.
  induction t as [|y t IH]; intro a; cbn [fold_left]; [left; reflexivity|].
  destruct (IH (if Qle_bool a y then a else y)) as [H|H]; [|right; right; exact H].
  rewrite <- H. destruct (Qle_bool a y); [left; reflexivity|right; left; reflexivity].
Qed.
Lemma aminQ_in l : l <> [] -> In (gen_aminQ l) l.
Proof. destruct l as [|x t]; [congruence|]. intros _. apply aminQ_fold. Qed.

Theorem gen_distortion_int_ge_1 c V : let score := gen_score_SocialWelfare V in
  (c - 1 < length score)%nat -> 0 < nth (c - 1) score 0 -> 1 <= gen_distortion_int c V.
Proof.
  intros score Hc Hp. unfold gen_distortion_int. cbv zeta. rewrite gen_complete_score. fold score.
  apply Qle_shift_div_l; [exact Hp|]. rewrite Qmult_1_l. apply amaxQ_ge. exact Hc.
Qed.
Theorem gen_distortion_arr_ge_1 cs V : let score := gen_score_SocialWelfare V in
  cs <> [] -> (forall c, In c cs -> (c - 1 < length score)%nat /\ 0 < nth (c - 1) score 0) -> 1 <= gen_distortion_arr cs V.
Proof.
  intros score Hne Hall. unfold gen_distortion_arr. cbv zeta. rewrite gen_complete_score. fold score.
  assert (Hm : map (fun c => nth (c - 1) score 0) cs <> []) by (destruct cs; [congruence|discriminate]).
  pose proof (aminQ_in _ Hm) as Hin. apply in_map_iff in Hin. destruct Hin as [c [Hc Hcin]]. rewrite <- Hc.
  destruct (Hall c Hcin) as [Hlt Hp]. apply Qle_shift_div_l; [exact Hp|]. rewrite Qmult_1_l. apply amaxQ_ge. exact Hlt.
Qed.

(* the normalisation cancels *)
Lemma maxQ_scale T t : 0 < T -> forall d, maxQ (map (fun c => c / T) t) (d / T) = maxQ t d / T.
Proof.
  intro HT. induction t as [|x t IH]; intro d; cbn [map maxQ]; [reflexivity|].
  assert (Hb : Qle_bool (d / T) (x / T) = Qle_bool d x).
  { destruct (Qle_bool d x) eqn:E.
    - apply Qle_bool_iff. apply Qle_bool_iff in E. unfold Qdiv. apply Qmult_le_compat_r; [exact E|]. apply Qlt_le_weak, Qinv_lt_0_compat, HT.
    - apply not_true_is_false. intro H. apply Qle_bool_iff in H. assert (Hle : d <= x).
      { unfold Qdiv in H. apply (Qmult_le_r _ _ (/ T)); [apply Qinv_lt_0_compat, HT|exact H]. }
      apply Qle_bool_iff in Hle. congruence. }
  rewrite Hb. destruct (Qle_bool d x); apply IH.
Qed.
Lemma amaxQ_scale T v : 0 < T -> v <> [] -> amaxQ (divvec v T) = amaxQ v / T.
Proof. intros HT Hne. destruct v as [|x t]; [congruence|]. unfold divvec, amaxQ. cbn [map]. apply maxQ_scale. exact HT. Qed.
Lemma nth_divvec T v i : (i < length v)%nat -> nth i (divvec v T) 0 = nth i v 0 / T.
Proof. intro Hi. unfold divvec. rewrite (nth_map_lt (fun c => c / T) v i 0 0 Hi). reflexivity. Qed.

Theorem gen_distortion_is_welfare_ratio c V : let w := nancolsum (qncols V) V in
  0 < nansum_all V -> (c - 1 < qncols V)%nat -> 0 < nth (c - 1) w 0 ->
  gen_distortion_int c V == amaxQ w / nth (c - 1) w 0.
Proof.
  intros w HT Hc Hp. unfold gen_distortion_int. cbv zeta. rewrite gen_complete_score. unfold gen_score_SocialWelfare. fold w.
  assert (Hlen : length w = qncols V) by (unfold w, nancolsum; rewrite map_length, seq_length; reflexivity).
  assert (Hne : w <> []) by (intro E; rewrite E in Hlen; cbn in Hlen; lia).
  rewrite (amaxQ_scale _ w HT Hne). rewrite (nth_divvec _ w (c - 1)) by (rewrite Hlen; exact Hc).
  field. split; intro E; [rewrite E in Hp|rewrite E in HT]; apply (Qlt_irrefl 0); assumption.
Qed.

(* the array form: the WORST chosen alternative is the one the ratio is taken against *)
Lemma aminQ_fold_scale T t : 0 < T -> forall d, fold_left (fun a y => if Qle_bool a y then a else y) (map (fun c => c / T) t) (d / T) = fold_left (fun a y => if Qle_bool a y then a else y) t d / T.
Proof.
  intro HT. induction t as [|x t IH]; intro d; cbn [map fold_left]; [reflexivity|].
  assert (Hb : Qle_bool (d / T) (x / T) = Qle_bool d x).
  { destruct (Qle_bool d x) eqn:E.
    - apply Qle_bool_iff. apply Qle_bool_iff in E. unfold Qdiv. apply Qmult_le_compat_r; [exact E|]. apply Qlt_le_weak, Qinv_lt_0_compat, HT.
    - apply not_true_is_false. intro H. apply Qle_bool_iff in H. assert (Hle : d <= x).
      { unfold Qdiv in H. apply (Qmult_le_r _ _ (/ T)); [apply Qinv_lt_0_compat, HT|exact H]. }
      apply Qle_bool_iff in Hle. congruence. }
  rewrite Hb. destruct (Qle_bool d x); apply IH.
Qed.
Lemma aminQ_scale T l : 0 < T -> l <> [] -> gen_aminQ (map (fun c => c / T) l) = gen_aminQ l / T.
Proof. intros HT Hne. destruct l as [|x t]; [congruence|]. unfold gen_aminQ. cbn [map]. apply aminQ_fold_scale. exact HT. Qed.
Lemma aminQ_fold_le t : forall a y, In y (a :: t) -> fold_left (fun a y => if Qle_bool a y then a else y) t a <= y.
Proof.
  induction t as [|x t IH]; intros a y Hin; cbn [fold_left].
  - destruct Hin as [<-|[]]. apply Qle_refl.
  - destruct (Qle_bool a x) eqn:E.
    + destruct Hin as [<-|[<-|Hin]]; [apply IH; left; reflexivity| |apply IH; right; exact Hin].
      apply Qle_trans with a; [apply IH; left; reflexivity|apply Qle_bool_iff; exact E].
    + assert (Hxa : x <= a).
      { destruct (Qlt_le_dec x a) as [H|H]; [apply Qlt_le_weak; exact H|]. apply Qle_bool_iff in H. congruence. }
      destruct Hin as [<-|[<-|Hin]]; [|apply IH; left; reflexivity|apply IH; right; exact Hin].
      apply Qle_trans with x; [apply IH; left; reflexivity|exact Hxa].
Qed.
Lemma aminQ_le l y : In y l -> gen_aminQ l <= y.
Proof. destruct l as [|x t]; [intros []|]. intro Hin. unfold gen_aminQ. apply aminQ_fold_le. exact Hin. Qed.

Theorem gen_distortion_arr_is_worst_welfare_ratio cs V : let w := nancolsum (qncols V) V in
  0 < nansum_all V -> cs <> [] -> (forall c, In c cs -> (c - 1 < qncols V)%nat /\ 0 < nth (c - 1) w 0) ->
  gen_distortion_arr cs V == amaxQ w / gen_aminQ (map (fun c => nth (c - 1) w 0) cs)
  /\ In (gen_aminQ (map (fun c => nth (c - 1) w 0) cs)) (map (fun c => nth (c - 1) w 0) cs)
  /\ (forall c, In c cs -> gen_aminQ (map (fun c => nth (c - 1) w 0) cs) <= nth (c - 1) w 0).
Proof.
  intros w HT Hne Hall.
  assert (Hm : map (fun c => nth (c - 1) w 0) cs <> []) by (destruct cs; [congruence|discriminate]).
  pose proof (aminQ_in _ Hm) as Hin.
  split; [|split; [exact Hin|]].
  2:{ intros c Hc. apply aminQ_le. apply in_map_iff. exists c. split; [reflexivity|exact Hc]. }
  unfold gen_distortion_arr. cbv zeta. rewrite gen_complete_score. unfold gen_score_SocialWelfare. fold w.
  assert (Hlen : length w = qncols V) by (unfold w, nancolsum; rewrite map_length, seq_length; reflexivity).
  assert (Hw : w <> []).
  { intro E. destruct cs as [|c0 cs']; [congruence|]. destruct (Hall c0 (or_introl eq_refl)) as [Hlt _]. rewrite E in Hlen. cbn in Hlen. lia. }
  rewrite (amaxQ_scale _ w HT Hw).
  assert (Hmap : map (fun c => nth (c - 1) (divvec w (nansum_all V)) 0) cs = map (fun c => c / nansum_all V) (map (fun c => nth (c - 1) w 0) cs)).
  { rewrite map_map. apply map_ext_in. intros c Hc. apply nth_divvec. rewrite Hlen. apply Hall. exact Hc. }
  rewrite Hmap. rewrite (aminQ_scale _ _ HT Hm).
  assert (Hpos : 0 < gen_aminQ (map (fun c => nth (c - 1) w 0) cs)).
  { apply in_map_iff in Hin. destruct Hin as [c [Hc Hcin]]. rewrite <- Hc. apply Hall. exact Hcin. }
  field. split; intro E; [rewrite E in Hpos|rewrite E in HT]; apply (Qlt_irrefl 0); assumption.
Qed.

(* the array form depends on the SET of chosen alternatives only: order and repetitions in the choice array do not matter *)
Lemma aminQ_same_set l l' : l <> [] -> l' <> [] -> incl l l' -> incl l' l -> gen_aminQ l == gen_aminQ l'.
Proof.
  intros Hl Hl' H1 H2. apply Qle_antisym.
  - apply aminQ_le. apply H2. apply aminQ_in. exact Hl'.
  - apply aminQ_le. apply H1. apply aminQ_in. exact Hl.
Qed.
Theorem gen_distortion_arr_depends_on_chosen_set cs cs' V : cs <> [] -> cs' <> [] -> (forall c, In c cs <-> In c cs') ->
  gen_distortion_arr cs V == gen_distortion_arr cs' V.
Proof.
  intros Hne Hne' Hset. unfold gen_distortion_arr. cbv zeta. apply Qdiv_comp; [reflexivity|].
  apply aminQ_same_set.
  - destruct cs; [congruence|discriminate].
  - destruct cs'; [congruence|discriminate].
  - intros x Hx. apply in_map_iff in Hx. destruct Hx as [c [Hc Hin]]. apply in_map_iff. exists c. split; [exact Hc|apply Hset; exact Hin].
  - intros x Hx. apply in_map_iff in Hx. destruct Hx as [c [Hc Hin]]. apply in_map_iff. exists c. split; [exact Hc|apply Hset; exact Hin].
Qed.

(* one chosen alternative passed as an array: the two branches of the helper agree *)
Theorem gen_distortion_arr_singleton c V : gen_distortion_arr [c] V = gen_distortion_int c V.
Proof. reflexivity. Qed.

(* non-vacuity: alternatives 2 and 3 passed; 2 is the worse one (welfare 1/2 against 1/2 .. 3/4) *)
Example gen_distortion_arr_example :
  gen_distortion_arr [3; 2]%nat [[Some (1 # 2); Some (1 # 4); None]; [Some (1 # 4); Some (1 # 4); Some (1 # 2)]] == 3 # 2.
Proof. vm_compute. reflexivity. Qed.

(* non-vacuity: two agents, three alternatives, one unlisted; alternative 2 chosen *)
Example gen_distortion_example :
  gen_distortion_int 2 [[Some (1 # 2); Some (1 # 4); None]; [Some (1 # 4); Some (1 # 4); Some (1 # 2)]] == 3 # 2.
Proof. vm_compute. reflexivity. Qed.

Print Assumptions nz_fill.
Print Assumptions nz_nth_fill.
Print Assumptions gen_complete_colsum.
Print Assumptions gen_complete_total.
Print Assumptions gen_complete_ncols.
Print Assumptions gen_complete_score.
Print Assumptions amaxQ_ge.
Print Assumptions aminQ_fold.
Print Assumptions aminQ_in.
Print Assumptions gen_distortion_int_ge_1.
Print Assumptions gen_distortion_arr_ge_1.
Print Assumptions maxQ_scale.
Print Assumptions amaxQ_scale.
Print Assumptions nth_divvec.
Print Assumptions gen_distortion_is_welfare_ratio.
Print Assumptions aminQ_fold_scale.
Print Assumptions aminQ_scale.
Print Assumptions aminQ_fold_le.
Print Assumptions aminQ_le.
Print Assumptions gen_distortion_arr_is_worst_welfare_ratio.
Print Assumptions gen_distortion_arr_singleton.
Print Assumptions aminQ_same_set.
Print Assumptions gen_distortion_arr_depends_on_chosen_set.
