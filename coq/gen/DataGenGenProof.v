(* The two valuation generators regenerated from the source (DataGenGen.v) ARE the model ProfModel.gen_row - the object of C18's generator theorems (NaN kept,
   rank r gets the r-th largest normalised draw, weakly decreasing along the ranking, non-negative, sums to one, accepted by the consistency predicate) -
   for every strict row and every ordering `ranked` that numpy's argsort may return for it: the ranked alternatives first, by rank, then the unranked ones.
   The draws are an oracle (recorded per case by the harness). *)
From Coq Require Import Arith ZArith QArith Qround List Bool Lia.
Import ListNotations.
From SCK Require Import Eat3 Eat3Proof ProfModel.
From SCKGen Require Import DataGenGen.

Lemma gen_dg_utilities_eq clip draws :
  gen_dg_utilities clip draws = (let u := if clip then clip0 draws else draws in map (fun x => Qred (x / ProfModel.sumq u)) (sort_desc u)).
Proof.
  unfold gen_dg_utilities. cbv zeta. destruct clip; [|reflexivity].
  replace (map (fun x : Q => if negb (Qle_bool 0 x) then 0%Q else x) draws) with (clip0 draws); [reflexivity|].
  unfold clip0. apply map_ext. intro x. destruct (Qle_bool 0 x); reflexivity.
Qed.

Lemma nth_map_d {A B} (f : A -> B) l j d d' : (j < length l)%nat -> nth j (map f l) d' = f (nth j l d).
Proof. revert j. induction l as [|a t IH]; intros [|j] H; cbn in *; try lia; [reflexivity|apply IH; lia]. Qed.

Fixpoint find_pos (j : nat) (l : list nat) : option nat :=
  match l with [] => None | x :: r => if (j =? x)%nat then Some O else option_map S (find_pos j r) end.
Lemma find_pos_none j l : ~ In j l -> find_pos j l = None.
Proof. induction l as [|x r IH]; intro H; [reflexivity|]. cbn [find_pos]. destruct (Nat.eqb_spec j x) as [->|_]; [exfalso; apply H; left; reflexivity|]. rewrite IH; [reflexivity|]. intro Hin. apply H. right. exact Hin. Qed.
Lemma find_pos_nth l : NoDup l -> forall t, (t < length l)%nat -> find_pos (nth t l O) l = Some t.
Proof.
  induction 1 as [|x r Hnin Hnd IH]; intros t Ht; [cbn in Ht; lia|]. destruct t as [|t]; cbn [nth find_pos]; [rewrite Nat.eqb_refl; reflexivity|].
  cbn [length] in Ht. destruct (Nat.eqb_spec (nth t r O) x) as [E|_]; [exfalso; apply Hnin; rewrite <- E; apply nth_In; lia|]. rewrite IH by lia. reflexivity.
Qed.
Fixpoint live_prefix (row : list (option Q)) (rs : list nat) : list nat :=
  match rs with [] => [] | x :: r => match nth x row None with None => [] | Some _ => x :: live_prefix row r end end.
Lemma live_prefix_incl row rs x : In x (live_prefix row rs) -> In x rs.
Proof. induction rs as [|y r IH]; [intros []|]. cbn [live_prefix]. destruct (nth y row None); [|intros []]. intros [->|H]; [left; reflexivity|right; apply IH, H]. Qed.
Lemma live_prefix_app row live dead : (forall x, In x live -> nth x row None <> None) -> (dead = [] \/ nth (hd O dead) row None = None) -> live_prefix row (live ++ dead) = live.
Proof.
  intros Hl Hd. induction live as [|x r IH]; cbn [app live_prefix].
  - destruct dead as [|d ds]; [reflexivity|]. destruct Hd as [Hd|Hd]; [discriminate|]. cbn [hd] in Hd. cbn [live_prefix]. rewrite Hd. reflexivity.
  - destruct (nth x row None) eqn:E; [|exfalso; apply (Hl x); [left; reflexivity|exact E]]. rewrite IH; [reflexivity|]. intros y Hy. apply Hl. right. exact Hy.
Qed.

Lemma NoDup_app_l {A} (l1 l2 : list A) : NoDup (l1 ++ l2) -> NoDup l1.
Proof. induction l1 as [|a t IH]; intro H; [constructor|]. cbn [app] in H. inversion H as [|? ? Hn Hd]; subst. constructor; [intro Hin; apply Hn; apply in_or_app; left; exact Hin|apply IH, Hd]. Qed.

Lemma fill_length row U : forall rs p ans, length (gen_dg_fill row rs U p ans) = length ans.
Proof. induction rs as [|x r IH]; intros p ans; [reflexivity|]. cbn [gen_dg_fill]. destruct (nth x row None); [|reflexivity]. rewrite IH. apply length_upd. Qed.
Lemma fill_nth row U : forall rs p ans j, NoDup rs -> (forall x, In x rs -> (x < length ans)%nat) ->
  nth j (gen_dg_fill row rs U p ans) None = match find_pos j (live_prefix row rs) with Some t => Some (nth (p + t) U 0%Q) | None => nth j ans None end.
Proof.
  induction rs as [|x r IH]; intros p ans j Hnd Hlt; [reflexivity|]. cbn [gen_dg_fill live_prefix]. inversion Hnd as [|? ? Hnin Hnd']; subst.
  destruct (nth x row None) eqn:Ex; [|reflexivity]. cbn [find_pos].
  rewrite IH; [|exact Hnd'|intros y Hy; rewrite length_upd; apply Hlt; right; exact Hy].
  destruct (Nat.eqb_spec j x) as [->|Hne].
  - rewrite find_pos_none by (intro Hin; apply Hnin; apply (live_prefix_incl row r x Hin)). rewrite nth_upd_same by (apply Hlt; left; reflexivity). rewrite Nat.add_0_r. reflexivity.
  - destruct (find_pos j (live_prefix row r)) as [t|]; cbn [option_map]; [f_equal; f_equal; lia|]. apply nth_upd_other. intro E. apply Hne. symmetry. exact E.
Qed.

Theorem gen_dg_row_is_model clip row live dead draws :
  NoDup (live ++ dead) -> (forall x, In x (live ++ dead) -> (x < length row)%nat) ->
  (forall t, (t < length live)%nat -> nth (nth t live O) row None = Some (inject_Z (Z.of_nat (S t)))) ->      (* the alternative at position t has rank t + 1 *)
  (forall j, nth j row None <> None -> In j live) ->                                                              (* every ranked alternative is listed *)
  (dead = [] \/ nth (hd O dead) row None = None) ->                                                               (* then the unranked ones *)
  gen_dg_row clip row (live ++ dead) draws = gen_row clip row draws.
Proof.
  intros Hnd Hlt Hrank Hcov Hdead. unfold gen_dg_row, gen_row. rewrite gen_dg_utilities_eq. cbv zeta.
  set (sorted := map (fun x => Qred (x / ProfModel.sumq (if clip then clip0 draws else draws))) (sort_desc (if clip then clip0 draws else draws))).
  set (ans0 := map (fun x : option Q => match x with Some _ => Some 0%Q | None => None end) row).
  assert (Hlive : forall x, In x live -> nth x row None <> None).
  { intros x Hx. destruct (In_nth live x O Hx) as [t [Ht Et]]. rewrite <- Et, (Hrank t Ht). discriminate. }
  apply (nth_ext _ _ None None); [rewrite fill_length; unfold ans0; rewrite !map_length; reflexivity|].
  intros j Hj. rewrite fill_length in Hj. unfold ans0 in Hj. rewrite map_length in Hj.
  rewrite fill_nth; [|exact Hnd|intros x Hx; unfold ans0; rewrite map_length; apply Hlt, Hx].
  rewrite (live_prefix_app row live dead Hlive Hdead).
  rewrite (nth_map_d _ row j None None Hj).
  destruct (nth j row None) as [r|] eqn:Ej.
  - assert (Hin : In j live) by (apply Hcov; rewrite Ej; discriminate). destruct (In_nth live j O Hin) as [t [Ht Et]].
    pose proof (NoDup_app_l live dead Hnd) as Hndl.
    rewrite <- Et at 1. rewrite (find_pos_nth live Hndl t Ht). pose proof (Hrank t Ht) as Hr. rewrite Et, Ej in Hr. injection Hr as ->.
    rewrite Qfloor_Z. cbn [plus]. f_equal. f_equal. lia.
  - rewrite find_pos_none.
    + unfold ans0. rewrite (nth_map_d _ row j None None Hj), Ej. reflexivity.
    + intro Hin. apply (Hlive j Hin). exact Ej.
Qed.
(* which generator clips: the normal one (negative draws become 0), not the uniform one *)
Theorem gen_dg_clip_flags : gen_dg_uniform_clips = false /\ gen_dg_normal_clips = true. Proof. split; reflexivity. Qed.

(* non-vacuity: ranks 2, NaN, 1, 3 ; numpy's order 2, 0, 3, 1 *)
Example gen_dg_example :
  let row := [Some (2 # 1); None; Some (1 # 1); Some (3 # 1)]%Q in
  gen_dg_row false row ([2; 0; 3] ++ [1])%nat [1 # 2; 1 # 4; 1 # 4]%Q = gen_row false row [1 # 2; 1 # 4; 1 # 4]%Q /\ gen_dg_row false row [2; 0; 3; 1]%nat [1 # 2; 1 # 4; 1 # 4]%Q = [Some (1 # 4); None; Some (1 # 2); Some (1 # 4)]%Q.
Proof. vm_compute. split; reflexivity. Qed.

Print Assumptions gen_dg_utilities_eq.
Print Assumptions nth_map_d.
Print Assumptions find_pos_none.
Print Assumptions find_pos_nth.
Print Assumptions live_prefix_incl.
Print Assumptions live_prefix_app.
Print Assumptions NoDup_app_l.
Print Assumptions fill_length.
Print Assumptions fill_nth.
Print Assumptions gen_dg_row_is_model.
Print Assumptions gen_dg_clip_flags.
