(* reachable_vertices regenerated from the source (ReachGen.v): whichever element set.pop() returns each time, the set returned contains s, is closed under
   arcs of positive capacity and is contained in every such set - it is the least one, hence (as a set) the model's FlowModel.closure, the cut side of C08. *)
From Coq Require Import Arith ZArith List Bool Lia.
Import ListNotations.
From SCK Require Import FlowModel FlowProof FlowCut.
From SCKGen Require Import ReachGen.
Local Open Scope Z_scope.

Lemma set_add_in x l y : In y (gen_set_add x l) <-> y = x \/ In y l.
Proof.
  unfold gen_set_add. destruct (memZ x l) eqn:E.
  - apply memZ_In in E. split; [intro H; right; exact H|intros [->|H]; assumption].
  - rewrite in_app_iff. cbn [In]. split; [intros [H|[H|[]]]; [right; exact H|left; symmetry; exact H]|intros [->|H]; [right; left; reflexivity|left; exact H]].
Qed.
Definition fstep (frontier : list Z) (vc : Z * Z) : list Z := if snd vc >? 0 then gen_set_add (fst vc) frontier else frontier.
Lemma fold_in l : forall fr y, In y (fold_left fstep l fr) <-> In y fr \/ exists c, In (y, c) l /\ c > 0.
Proof.
  induction l as [|[v c] t IH]; intros fr y; cbn [fold_left].
  - split; [intro H; left; exact H|intros [H|[c [[] _]]]; exact H].
  - rewrite IH. unfold fstep at 1. cbn [fst snd]. destruct (Z.gtb_spec c 0) as [Hc|Hc].
    + rewrite set_add_in. split.
      * intros [[->|H]|[c' [H Hc']]]; [right; exists c; split; [left; reflexivity|lia]|left; exact H|right; exists c'; split; [right; exact H|exact Hc']].
      * intros [H|[c' [[E|H] Hc']]]; [left; right; exact H|injection E as -> ->; left; left; reflexivity|right; exists c'; split; assumption].
    + split.
      * intros [H|[c' [H Hc']]]; [left; exact H|right; exists c'; split; [right; exact H|exact Hc']].
      * intros [H|[c' [[E|H] Hc']]]; [left; exact H|injection E as _ ->; lia|right; exists c'; split; assumption].
Qed.

Section R.
Variables (pop : list Z -> Z) (G : graph) (s : Z).
Hypothesis pop_in : forall l, l <> [] -> In (pop l) l.

Definition Inv (fr A : list Z) : Prop :=
  (forall x, In x fr \/ In x A -> forall C : Z -> Prop, closedP G C -> C s -> C x) /\
  (forall u v c, In u A -> In (v, c) (lookup G u) -> c > 0 -> In v A \/ In v fr) /\
  (In s A \/ In s fr).

Lemma loop_inv : forall fuel fr A R, Inv fr A -> gen_reach_loop pop G fuel fr A = Some R ->
  In s R /\ closedP G (fun x => In x R) /\ (forall C : Z -> Prop, closedP G C -> C s -> forall x, In x R -> C x).
Proof.
  induction fuel as [|f IH]; intros fr A R [Hl [Hp Hs]] H; [discriminate|]. cbn [gen_reach_loop] in H.
  destruct fr as [|a fr0] eqn:Efr.
  - cbn in H. injection H as <-. split; [destruct Hs as [Hs|[]]; exact Hs|]. split.
    + intros u v c Hu Hin Hc. destruct (Hp u v c Hu Hin Hc) as [Hv|[]]. exact Hv.
    + intros C HC Cs x Hx. apply (Hl x (or_intror Hx) C HC Cs).
  - rewrite <- Efr in *. assert (Hne : fr <> []) by (rewrite Efr; discriminate). assert (Hlen : (length fr =? 0)%nat = false) by (rewrite Efr; reflexivity).
    rewrite Hlen in H. clear Hlen. pose proof (pop_in fr Hne) as Hcur. set (cur := pop fr) in *.
    assert (Hrem : forall x, In x fr -> x = cur \/ In x (remove Z.eq_dec cur fr)).
    { intros x Hx. destruct (Z.eq_dec x cur) as [E|E]; [left; exact E|right; apply in_in_remove; assumption]. }
    assert (Hrem2 : forall x, In x (remove Z.eq_dec cur fr) -> In x fr) by (intros x Hx; apply in_remove in Hx; exact (proj1 Hx)).
    destruct (memZ cur A) eqn:EA; cbn [negb] in H.
    + apply memZ_In in EA. eapply IH; [split; [|split]|exact H].
      * intros x [Hx|Hx]; [apply Hl; left; apply Hrem2, Hx|apply Hl; right; exact Hx].
      * intros u v c Hu Hin Hc. destruct (Hp u v c Hu Hin Hc) as [Hv|Hv]; [left; exact Hv|]. destruct (Hrem v Hv) as [->|Hv']; [left; exact EA|right; exact Hv'].
      * destruct Hs as [Hs|Hs]; [left; exact Hs|]. destruct (Hrem s Hs) as [E|Hs']; [left; rewrite E; exact EA|right; exact Hs'].
    + destruct (memZ cur (keys G)); cbn [negb] in H; [|discriminate]. fold fstep in H.
      eapply IH; [split; [|split]|exact H].
      * intros x [Hx|Hx] C HC Cs.
        -- apply fold_in in Hx. destruct Hx as [Hx|[c [Hin Hc]]]; [apply (Hl x (or_introl (Hrem2 x Hx)) C HC Cs)|].
           apply (HC cur x c); [apply (Hl cur (or_introl Hcur) C HC Cs)|exact Hin|exact Hc].
        -- apply set_add_in in Hx. destruct Hx as [->|Hx]; [apply (Hl cur (or_introl Hcur) C HC Cs)|apply (Hl x (or_intror Hx) C HC Cs)].
      * intros u v c Hu Hin Hc. apply set_add_in in Hu. destruct Hu as [->|Hu].
        -- right. apply fold_in. right. exists c. split; assumption.
        -- destruct (Hp u v c Hu Hin Hc) as [Hv|Hv]; [left; apply set_add_in; right; exact Hv|].
           destruct (Hrem v Hv) as [->|Hv']; [left; apply set_add_in; left; reflexivity|right; apply fold_in; left; exact Hv'].
      * destruct Hs as [Hs|Hs]; [left; apply set_add_in; right; exact Hs|]. destruct (Hrem s Hs) as [E|Hs']; [left; apply set_add_in; left; exact E|right; apply fold_in; left; exact Hs'].
Qed.

Theorem gen_reachable_least fuel R : gen_reachable_vertices pop G fuel s = Some R ->
  In s R /\ closedP G (fun x => In x R) /\ (forall C : Z -> Prop, closedP G C -> C s -> forall x, In x R -> C x).
Proof.
  unfold gen_reachable_vertices. apply loop_inv. split; [|split].
  - intros x [[<-|[]]|[]] C _ Cs. exact Cs.
  - intros u v c [].
  - right. left. reflexivity.
Qed.

(* as a set it is the model's closure (the cut reported by ford_fulkerson) *)
Theorem gen_reachable_is_closure fuel R : NoDup (keys G) -> In s (keys G) -> (forall u v c, In (v, c) (lookup G u) -> In v (keys G)) ->
  gen_reachable_vertices pop G fuel s = Some R -> forall x, In x R <-> In x (closure (S (length G)) G [s]).
Proof.
  intros Hnd Hs HK Hr x. destruct (gen_reachable_least fuel R Hr) as [Rs [Rc Rl]].
  assert (Hcc : closedP G (fun y => In y (closure (S (length G)) G [s]))).
  { apply (closure_closed G (keys G) HK Hnd); [constructor; [intros []|constructor]|intros y [<-|[]]; exact Hs|unfold keys; rewrite map_length; cbn [length]; lia]. }
  destruct (closure_props G (fun y => In y R) Rc (S (length G)) [s]) as [A [_ B]]; [constructor; [intros []|constructor]|intros y [<-|[]]; exact Rs|].
  split.
  - apply (Rl (fun y => In y (closure (S (length G)) G [s])) Hcc). apply A. left. reflexivity.
  - apply B.
Qed.
End R.

(* non-vacuity: a four-vertex residual network, popping the first or the last element *)
Example gen_reach_example :
  let G := [(0, [(1, 2); (2, 0)]); (1, [(3, 1); (0, 1)]); (2, [(3, 3)]); (3, [])] in
  gen_reachable_vertices (fun l => hd 0 l) G 20 0 = Some [0; 1; 3] /\ gen_reachable_vertices (fun l => last l 0) G 20 0 = Some [0; 1; 3].
Proof. vm_compute. split; reflexivity. Qed.
Print Assumptions set_add_in. Print Assumptions fold_in. Print Assumptions loop_inv. Print Assumptions gen_reachable_least. Print Assumptions gen_reachable_is_closure.
