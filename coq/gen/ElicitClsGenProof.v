(* The rest of elicitation_utils.py regenerated from the source (ElicitClsGen.v): elicit_multiple asks its questions one by one, in order, through elicit - so the
   "favourites in one batch" of the rule models (ElicitRules.askfav mapped over the agents) is literally this method; the integer elicitors accept exactly the whole
   answers; the index conventions the answering subclasses pass on. *)
From Coq Require Import Arith ZArith QArith Qround List Bool Lia.
Import ListNotations.
From SCK Require Import ElicitM ElicitRun ElicitRules.
From SCKGen Require Import ElicitClsGen.
Local Open Scope Z_scope.

Lemma mapP_map {A B C} (g : B -> prog C) (h : A -> B) : forall l, mapP g (map h l) = mapP (fun x => g (h x)) l.
Proof. induction l as [|x t IH]; [reflexivity|]. cbn [map mapP]. rewrite IH. reflexivity. Qed.
Lemma combine_map_same {A B C} (f : A -> B) (g : A -> C) : forall l, combine (map f l) (map g l) = map (fun x => (f x, g x)) l.
Proof. induction l as [|x t IH]; [reflexivity|]. cbn [map combine]. rewrite IH. reflexivity. Qed.

(* the batch of favourites used by every threshold rule and by Match-TwoQueries: elicit_multiple(np.arange(n), ranked_profile[:, 0]) *)
Theorem gen_elicit_multiple_is_favourites_batch ranked n :
  gen_elicit_multiple (map Z.of_nat (seq 0 n)) (map (fun i => rkat (nth i ranked []) 0) (seq 0 n)) = mapP (askfav ranked) (seq 0 n).
Proof. unfold gen_elicit_multiple. rewrite combine_map_same, mapP_map. reflexivity. Qed.

(* one question after the other, each through elicit (memo table, counter and forwarded questions evolve accordingly) *)
Theorem gen_elicit_multiple_run_cons mem fx V a b agents alternatives st :
  run mem fx V (gen_elicit_multiple (a :: agents) (b :: alternatives)) st =
  let '(st1, v) := elicit mem fx V st (a, b) in let '(vs, st2) := run mem fx V (gen_elicit_multiple agents alternatives) st1 in (v :: vs, st2).
Proof.
  unfold gen_elicit_multiple. cbn [combine]. rewrite run_mapP_cons. cbn [run]. destruct (elicit mem fx V st (a, b)) as [st1 v]. cbn [run]. reflexivity.
Qed.
Theorem gen_elicit_multiple_run_nil mem fx V st : run mem fx V (gen_elicit_multiple [] []) st = ([], st).
Proof. reflexivity. Qed.

(* integer elicitors: whole answers are converted, anything else is rejected *)
Theorem gen_int_answer_whole z : gen_int_answer (inject_Z z) = Some z.
Proof. unfold gen_int_answer. rewrite Qfloor_Z. assert (H : Qeq_bool (inject_Z z) (inject_Z z) = true) by (apply Qeq_bool_iff; reflexivity). rewrite H. reflexivity. Qed.
Theorem gen_int_answer_some v z : gen_int_answer v = Some z -> (v == inject_Z z)%Q.
Proof. unfold gen_int_answer. destruct (Qeq_bool v (inject_Z (Qfloor v))) eqn:E; [|discriminate]. intro H. injection H as <-. apply Qeq_bool_iff. exact E. Qed.
Theorem gen_int_multiple_stops_at_first_rejection mem fx V k ks st :
  let '(st1, v) := elicit mem fx V st k in gen_int_answer v = None -> run mem fx V (gen_int_elicit_multiple_keys (k :: ks)) st = (None, st1).
Proof. cbn [gen_int_elicit_multiple_keys run]. destruct (elicit mem fx V st k) as [st1 v]. intro H. rewrite H. reflexivity. Qed.

(* the index conventions: the two profile elicitors are zero-indexed by construction, the lambda elicitors by default, the stdin and the bare integer elicitor one-indexed by default *)
Theorem gen_zero_indexed_table :
  gen_zero_indexed_ValuationProfileElicitor = true /\ gen_zero_indexed_IntegerValuationProfileElicitor = true /\ gen_zero_indexed_LambdaElicitor = true /\
  gen_zero_indexed_IntegerLambdaElicitor = true /\ gen_zero_indexed_SynchronousStdInElicitor = false /\ gen_zero_indexed_IntegerSynchronousStdInElicitor = false /\
  gen_zero_indexed_IntegerElicitor = false.
Proof. repeat split; reflexivity. Qed.
Print Assumptions mapP_map. Print Assumptions combine_map_same. Print Assumptions gen_elicit_multiple_is_favourites_batch. Print Assumptions gen_elicit_multiple_run_cons.
Print Assumptions gen_elicit_multiple_run_nil. Print Assumptions gen_int_answer_whole. Print Assumptions gen_int_answer_some. Print Assumptions gen_int_multiple_stops_at_first_rejection.
Print Assumptions gen_zero_indexed_table.
