(* Irving.find_all_rotations_and_eliminations regenerated from the source (IrvAllGen.v): it keeps the dictionary preference_matrix_2, the model Irving.all_loop
   keeps the list of (woman, man) entries removed so far; under the simulation "matrix entry truthy <-> in the initial list and not removed" the two run in
   lockstep, so whenever the generated function returns (rotations, eliminating rotation of every pair) the model find_all returns the same pair. *)
From Coq Require Import Arith ZArith List Bool Lia.
Import ListNotations.
From SCK Require Import FlowModel Mwcs Irving.
From SCKGen Require Import IrvAllGen.

Lemma peq_eq a b : peq a b = true <-> a = b.
Proof.
  destruct a as [a1 a2], b as [b1 b2]. unfold peq. cbn [fst snd]. rewrite andb_true_iff, !Nat.eqb_eq. split; [intros [-> ->]; reflexivity|intro H; injection H as -> ->; split; reflexivity].
Qed.
Lemma peq_refl a : peq a a = true. Proof. apply peq_eq. reflexivity. Qed.
Lemma peq_sym a b : peq a b = peq b a.
Proof. destruct (peq a b) eqn:E. - apply peq_eq in E. subst. symmetry. apply peq_refl. - destruct (peq b a) eqn:E2; [|reflexivity]. apply peq_eq in E2. subst. rewrite peq_refl in E. discriminate. Qed.
Lemma aget_aset {V} (l : list ((nat * nat) * V)) k v k' : aget (aset l k v) k' = if peq k' k then Some v else aget l k'.
Proof.
  induction l as [|[k0 v0] t IH]; cbn [aset aget].
  - reflexivity.
  - destruct (peq k k0) eqn:E; cbn [aget].
    + apply peq_eq in E. subst k0. destruct (peq k' k); reflexivity.
    + destruct (peq k' k0) eqn:E2.
      * apply peq_eq in E2. subst k0. rewrite (peq_sym k' k), E. reflexivity.
      * exact IH.
Qed.

Section S.
Variable pl2_init : list (list nat).
Variable frot : list (list nat) -> list (list nat) -> option (list rot).
Hypothesis frot_spec : forall a b r, frot a b = Some r -> r = find_rotations a b.

Definition MInv (m2 : list ((nat * nat) * nat)) (dd : list (nat * nat)) : Prop := forall j i, gen_all_truthy (aget m2 (j, i)) = alive pl2_init dd j i.
Definition Rel (g : gen_all_state) (s : fstate) : Prop :=
  g_pl1 g = f1 s /\ g_pl2 g = f2 s /\ g_elim g = elim s /\ g_next g = nrot s /\ g_ans g = allrot s /\ MInv (g_m2 g) (dead s).

Lemma minv_step m2 dd w x : MInv m2 dd -> MInv (aset m2 (w, x) 0) ((w, x) :: dd).
Proof.
  intros H j i. rewrite aget_aset. unfold alive. cbn [memp existsb]. destruct (peq (j, i) (w, x)) eqn:E.
  - cbn [gen_all_truthy orb negb]. rewrite andb_false_r. reflexivity.
  - cbn [orb]. apply H.
Qed.
Lemma scan_sim : forall revl w mp cr m2 el dd, MInv m2 dd ->
  fst (fst (gen_all_scan revl w mp cr m2 el)) = fst (fst (trunc revl w mp cr dd el)) /\
  snd (gen_all_scan revl w mp cr m2 el) = snd (trunc revl w mp cr dd el) /\
  MInv (snd (fst (gen_all_scan revl w mp cr m2 el))) (snd (fst (trunc revl w mp cr dd el))).
Proof.
  induction revl as [|x r IH]; intros w mp cr m2 el dd H; cbn [gen_all_scan trunc]; [cbn; auto|].
  destruct (x =? mp)%nat; [cbn; auto|]. apply IH. apply minv_step. exact H.
Qed.
Lemma pair_sim rt cr g s i : Rel g s -> Rel (gen_all_pair rt cr g i) (elim_one rt cr s i).
Proof.
  intros [H1 [H2 [H3 [H4 [H5 H6]]]]]. unfold gen_all_pair, elim_one. rewrite H2, H3.
  set (w := snd (nth i rt (0%nat, 0%nat))). set (mp := fst (nth ((i + length rt - 1) mod length rt) rt (0%nat, 0%nat))).
  destruct (scan_sim (rev (nthl (f2 s) w)) w mp cr (g_m2 g) (elim s) (dead s) H6) as [A [B C]].
  destruct (gen_all_scan (rev (nthl (f2 s) w)) w mp cr (g_m2 g) (elim s)) as [[res m2'] el'].
  destruct (trunc (rev (nthl (f2 s) w)) w mp cr (dead s) (elim s)) as [[res2 dd'] el2]. cbn [fst snd] in A, B, C. subst res2 el2.
  unfold Rel. cbn [g_pl1 g_pl2 g_m2 g_elim g_next g_ans f1 f2 dead elim nrot allrot]. repeat split; assumption.
Qed.
Lemma fold_sim {A} (fg : gen_all_state -> A -> gen_all_state) (fs : fstate -> A -> fstate) : (forall g s x, Rel g s -> Rel (fg g x) (fs s x)) ->
  forall l g s, Rel g s -> Rel (fold_left fg l g) (fold_left fs l s).
Proof. intros H. induction l as [|x t IH]; intros g s R; [exact R|]. cbn [fold_left]. apply IH, H, R. Qed.
Lemma rotation_sim g s rt : Rel g s -> Rel (gen_all_rotation g rt) (elim_rot s rt).
Proof.
  intro R. unfold gen_all_rotation, elim_rot. destruct R as [H1 [H2 [H3 [H4 [H5 H6]]]]]. rewrite H4.
  pose proof (fold_sim (gen_all_pair rt (nrot s)) (elim_one rt (nrot s)) (fun g0 s0 x R0 => pair_sim rt (nrot s) g0 s0 x R0) (seq 0 (length rt)) g s (conj H1 (conj H2 (conj H3 (conj H4 (conj H5 H6)))))) as [K1 [K2 [K3 [K4 [K5 K6]]]]].
  unfold Rel. cbn [g_pl1 g_pl2 g_m2 g_elim g_next g_ans f1 f2 dead elim nrot allrot]. repeat split; assumption.
Qed.
Lemma drop_sim m2 dd i : MInv m2 dd -> forall l, gen_all_drop m2 i l = dropwhile (fun j => negb (alive pl2_init dd j i)) l.
Proof. intros H. induction l as [|j t IH]; [reflexivity|]. cbn [gen_all_drop dropwhile]. rewrite (H j i). destruct (alive pl2_init dd j i); cbn [negb]; [reflexivity|exact IH]. Qed.
Lemma man_sim m2 dd i l : MInv m2 dd -> gen_all_man m2 i l = fix_man pl2_init dd i l.
Proof. intro H. unfold gen_all_man, fix_man. rewrite (drop_sim m2 dd i H). destruct (dropwhile _ l) as [|x rest]; [reflexivity|]. rewrite (drop_sim m2 dd i H). reflexivity. Qed.

Lemma loop_sim : forall fuel g s g', Rel g s -> gen_all_loop frot fuel g = Some g' -> exists s', all_loop pl2_init fuel s = Some s' /\ Rel g' s'.
Proof.
  induction fuel as [|f IH]; intros g s g' R H; [discriminate|]. cbn [gen_all_loop all_loop] in *. destruct R as [H1 [H2 [H3 [H4 [H5 H6]]]]].
  destruct (frot (g_pl1 g) (g_pl2 g)) as [rots|] eqn:Ef; [|discriminate]. apply frot_spec in Ef. rewrite H1, H2 in Ef. rewrite <- Ef.
  destruct rots as [|r0 rt]; cbn [length Nat.eqb] in H.
  - injection H as <-. exists s. split; [reflexivity|]. repeat split; assumption.
  - match type of H with gen_all_loop _ _ ?gg = _ => set (g2 := gg) in H end.
    match goal with |- exists s', all_loop _ _ ?ss = _ /\ _ => set (s2 := ss) end.
    apply (IH g2 s2 g'); [|exact H]. unfold g2, s2.
    set (ga := {| g_pl1 := g_pl1 g; g_pl2 := g_pl2 g; g_m2 := g_m2 g; g_elim := g_elim g; g_next := g_next g; g_ans := g_ans g ++ r0 :: rt |}).
    set (sa := {| f1 := f1 s; f2 := f2 s; dead := dead s; elim := elim s; nrot := nrot s; allrot := allrot s ++ r0 :: rt |}).
    assert (Ra : Rel ga sa) by (unfold Rel, ga, sa; cbn [g_pl1 g_pl2 g_m2 g_elim g_next g_ans f1 f2 dead elim nrot allrot]; rewrite H5; repeat split; assumption).
    pose proof (fold_sim gen_all_rotation elim_rot (fun g0 s0 x R0 => rotation_sim g0 s0 x R0) (r0 :: rt) ga sa Ra) as [K1 [K2 [K3 [K4 [K5 K6]]]]].
    unfold Rel. cbn [g_pl1 g_pl2 g_m2 g_elim g_next g_ans f1 f2 dead elim nrot allrot]. rewrite K1. repeat split; try assumption.
    apply map_ext. intros [i l]. cbn [fst snd]. apply man_sim. exact K6.
Qed.
End S.

(* the initial matrix: {(j, i): 1 for j in range(n) for i in preference_lists_2[j]} *)
Lemma inner_build j0 : forall l m0 j i, gen_all_truthy (aget (fold_left (fun m i0 => aset m (j0, i0) 1) l m0) (j, i)) = gen_all_truthy (aget m0 (j, i)) || ((j =? j0)%nat && memn i l).
Proof.
  induction l as [|x t IH]; intros m0 j i; cbn [fold_left]; [cbn [memn existsb]; rewrite andb_false_r, orb_false_r; reflexivity|].
  rewrite IH, aget_aset. unfold memn. cbn [existsb]. fold (memn i t). unfold peq. cbn [fst snd].
  destruct (j =? j0)%nat; cbn [andb]; [|rewrite orb_false_r; reflexivity].
  destruct (i =? x)%nat; cbn [orb gen_all_truthy]; [rewrite orb_true_r; reflexivity|reflexivity].
Qed.
Lemma outer_build : forall rows start m0 j i,
  gen_all_truthy (aget (fold_left (fun m jl => fold_left (fun m i0 => aset m (fst jl, i0) 1) (snd jl) m) (combine (seq start (length rows)) rows) m0) (j, i)) =
  gen_all_truthy (aget m0 (j, i)) || ((start <=? j)%nat && (j <? start + length rows)%nat && memn i (nth (j - start) rows [])).
Proof.
  induction rows as [|row t IH]; intros start m0 j i; cbn [length seq combine fold_left].
  - replace (nth (j - start) (@nil (list nat)) []) with (@nil nat) by (destruct (j - start)%nat; reflexivity). unfold memn. cbn [existsb]. rewrite andb_false_r, orb_false_r. reflexivity.
  - rewrite IH. cbn [fst snd]. rewrite inner_build. rewrite <- orb_assoc. f_equal.
    destruct (Nat.eqb_spec j start) as [->|Hne].
    + rewrite Nat.sub_diag. cbn [nth andb]. replace (S start <=? start)%nat with false by (symmetry; apply Nat.leb_gt; lia). cbn [andb]. rewrite orb_false_r.
      rewrite Nat.leb_refl. replace (start <? start + S (length t))%nat with true by (symmetry; apply Nat.ltb_lt; lia). reflexivity.
    + cbn [andb orb]. destruct (Nat.leb_spec (S start) j) as [Hle|Hgt].
      * replace (start <=? j)%nat with true by (symmetry; apply Nat.leb_le; lia). replace (j - start)%nat with (S (j - S start)) by lia. cbn [nth].
        replace (j <? S start + length t)%nat with (j <? start + S (length t))%nat by (destruct (Nat.ltb_spec j (S start + length t)), (Nat.ltb_spec j (start + S (length t))); try reflexivity; lia). reflexivity.
      * replace (start <=? j)%nat with false by (symmetry; apply Nat.leb_gt; lia). reflexivity.
Qed.

Theorem gen_find_all_is_model frot pl1 pl2 res : (forall a b r, frot a b = Some r -> r = find_rotations a b) ->
  gen_find_all frot (length pl1 * length pl1 + 2) pl1 pl2 = Some res -> find_all pl1 pl2 = Some res.
Proof.
  intros Hf. unfold gen_find_all, find_all. cbv zeta. destruct (Nat.eqb_spec (length pl1) (length pl2)) as [Hlen|]; cbn [negb]; [|discriminate].
  match goal with |- match gen_all_loop _ _ ?gg with _ => _ end = _ -> _ => set (g0 := gg) end.
  destruct (gen_all_loop frot (length pl1 * length pl1 + 2) g0) as [g'|] eqn:El; [|discriminate]. intro H. injection H as <-.
  destruct (loop_sim pl2 frot Hf (length pl1 * length pl1 + 2) g0 {| f1 := pl1; f2 := pl2; dead := []; elim := []; nrot := 0; allrot := [] |} g') as [s' [Hs [_ [_ [K3 [_ [K5 _]]]]]]]; [|exact El|].
  - unfold Rel, g0. cbn [g_pl1 g_pl2 g_m2 g_elim g_next g_ans f1 f2 dead elim nrot allrot]. repeat split.
    intros j i. rewrite Hlen. rewrite outer_build. cbn [aget gen_all_truthy orb Nat.add]. unfold alive. cbn [memp existsb negb]. rewrite andb_true_r, Nat.sub_0_r. cbn [Nat.leb].
    destruct (Nat.ltb_spec j (length pl2)) as [Hlt|Hge]; cbn [andb]; [reflexivity|]. unfold nthl. rewrite (nth_overflow pl2 [] Hge). reflexivity.
  - rewrite Hs, K3, K5. reflexivity.
Qed.

Example gen_find_all_example : gen_find_all (fun a b => Some (find_rotations a b)) 6 [[0; 1]; [1; 0]]%nat [[1; 0]; [0; 1]]%nat = Some ([[(0, 0); (1, 1)]], [((0, 0), 0); ((1, 1), 0)])%nat.
Proof. vm_compute. reflexivity. Qed.

Print Assumptions peq_eq.
Print Assumptions peq_refl.
Print Assumptions peq_sym.
Print Assumptions aget_aset.
Print Assumptions minv_step.
Print Assumptions scan_sim.
Print Assumptions pair_sim.
Print Assumptions fold_sim.
Print Assumptions rotation_sim.
Print Assumptions drop_sim.
Print Assumptions man_sim.
Print Assumptions loop_sim.
Print Assumptions inner_build.
Print Assumptions outer_build.
Print Assumptions gen_find_all_is_model.
