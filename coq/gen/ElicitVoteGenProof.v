(* The winner selection shared by lambda-PRV and k-ARV (BaseElicitationVoting.scf), regenerated from elicitation_voting.py, is the model's
   winners / break_tie - the object of C13's tie-breaking and index-shift theorems - and coincides with the scoring rules' own selection. *)
From Coq Require Import ZArith QArith List Bool String.
Import ListNotations.
From SCK Require Import Voting GenLib.
From SCKGen Require Import ScoringGen ElicitVoteGen.

Theorem gen_ev_winners_is_model : forall s fixer, gen_ev_winners s fixer = winners s fixer.
Proof. exact GenLib.gen_winners_is_model. Qed.
Theorem gen_ev_winners_same_as_scoring : forall s fixer, gen_ev_winners s fixer = gen_winners s fixer.
Proof. reflexivity. Qed.
Theorem gen_ev_scf_same_as_scoring : forall s fixer tb o, gen_ev_scf s fixer tb o = gen_scf s fixer tb o.
Proof. reflexivity. Qed.
Theorem gen_ev_fixer_same : forall z, gen_ev_fixer z = gen_fixer z.
Proof. intros [|]; reflexivity. Qed.
Theorem gen_karv_score_length m vt : List.length (gen_karv_score m vt) = m.
Proof. unfold gen_karv_score. rewrite map_length, seq_length. reflexivity. Qed.
Print Assumptions gen_ev_winners_is_model. Print Assumptions gen_ev_winners_same_as_scoring. Print Assumptions gen_ev_scf_same_as_scoring.
Print Assumptions gen_ev_fixer_same. Print Assumptions gen_karv_score_length.
