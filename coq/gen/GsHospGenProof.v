(* The hospital-oriented Gale-Shapley loop regenerated from GaleShapley.scf's current source (GsHospGen.v) refines, step by step, the
   function-state model GS3.hosp_loop instantiated with the accessors of HInst.v - the object gs_hosp_run of C01 / C02's theorems. *)
From Coq Require Import Arith ZArith List Bool Lia.
Import ListNotations.
From SCK Require Import Argsort GS2 GS3 GSInst HInst GSFinal.
From SCKGen Require Import GsResGen GsHospGen.
Local Open Scope Z_scope.

Lemma fupd_s {A} (f : nat -> A) i x : fupd f i x i = x.
Proof. unfold fupd. rewrite Nat.eqb_refl. reflexivity. Qed.
Lemma fupd_o {A} (f : nat -> A) i x j : j <> i -> fupd f i x j = f j.
Proof. intros H. unfold fupd. destruct (Nat.eqb_spec j i); [contradiction|reflexivity]. Qed.
Definition flag_ok (f : nat -> Z) : Prop := forall p, f p = 0 \/ f p = 1 \/ f p = 2.
Lemma flag_ok_fupd f i v : flag_ok f -> (v = 0 \/ v = 1 \/ v = 2) -> flag_ok (fupd f i v).
Proof. intros Hf Hv q. unfold fupd. destruct (Nat.eqb q i); [exact Hv|apply Hf]. Qed.
Lemma flag_rel_fupd (fm : nat -> nat) (fg : nat -> Z) i v : (forall q, fm q = Z.to_nat (fg q)) -> forall q, fupd fm i (Z.to_nat v) q = Z.to_nat (fupd fg i v q).
Proof. intros Hf q. unfold fupd. destruct (Nat.eqb q i); [reflexivity|apply Hf]. Qed.
Definition held (z : Z) : option nat := if z =? -1 then None else Some (Z.to_nat z).

Section Refine.
Variables (R H : list (list okey)) (c : list nat).
Let n := length R.
Let m := length (nth 0 R []).
Hypothesis Hm : m = length H.
Hypothesis Hrows : forall h, (h < m)%nat -> length (nth h H []) = n.
Let cap := fun h => nth h c O.

Definition gst : Type := ((nat -> Z) * (nat -> Z) * (nat -> Z) * (nat -> Z))%type.
Definition Rel (g : gst) (st : hst) : Prop :=
  let '(ho, rw, hao, co) := g in
  (forall h, -1 <= ho h /\ offers st h = Z.to_nat (ho h + 1)) /\
  (forall r, -1 <= rw r /\ rwl st r = held (rw r)) /\
  (forall h, acc st h = hao h) /\
  (flag_ok co /\ forall h, cur st h = Z.to_nat (co h)).

Lemma prefH_spec h k : (h < m)%nat ->
  j_prefH H h k = if (n <=? k)%nat then None else
                  let r := nth k (argsort (nth h H [])) O in if isnan (nth r (nth h H []) None) then None else Some r.
Proof.
  intros Hh. unfold j_prefH, hrow. destruct (Nat.leb_spec n k) as [Hk|Hk].
  - replace (nth_error (argsort (nth h H [])) k) with (@None nat); [reflexivity|]. symmetry. apply nth_error_None. rewrite argsort_length, Hrows by exact Hh. exact Hk.
  - rewrite (nth_error_nth' _ O) by (rewrite argsort_length, Hrows by exact Hh; exact Hk). cbv zeta.
    destruct (nth (nth k (argsort (nth h H [])) O) (nth h H []) None); reflexivity.
Qed.

Lemma step_sim g st h : (h < m)%nat -> Rel g st -> Rel (gen_hosp_step R H g h) (hosp_step (j_prefH H) (j_rkR R) st h).
Proof.
  intros Hh HR. destruct g as [[[ho rw] hao] co]. destruct HR as [Hho [Hrw [Hacc [Hfo Hfl]]]].
  unfold gen_hosp_step, hosp_step. fold n.
  assert (Ecur : negb (Nat.eqb (cur st h) 1) = ((co h =? 0) || (co h =? 2))).
  { rewrite Hfl. destruct (Hfo h) as [E|[E|E]]; rewrite E; reflexivity. }
  rewrite Ecur. destruct ((co h =? 0) || (co h =? 2)); [split; [exact Hho|split; [exact Hrw|split; [exact Hacc|split; [exact Hfo|exact Hfl]]]]|]. cbv zeta.
  destruct (Hho h) as [Hge Hof]. rewrite (prefH_spec h _ Hh), Hof.
  replace (ho h >=? Z.of_nat n - 1) with (n <=? Z.to_nat (ho h + 1))%nat by (destruct (Nat.leb_spec n (Z.to_nat (ho h + 1))), (Z.geb_spec (ho h) (Z.of_nat n - 1)); try reflexivity; lia).
  assert (Hdone : Rel (ho, rw, hao, fupd co h 2) {| offers := offers st; rwl := rwl st; acc := acc st; cur := fupd (cur st) h 2%nat |}).
  { split; [exact Hho|split; [exact Hrw|split; [exact Hacc|split]]]; [apply flag_ok_fupd; [exact Hfo|right; right; reflexivity]|].
    intros q. cbn [cur]. change 2%nat with (Z.to_nat 2). apply flag_rel_fupd. exact Hfl. }
  destruct (n <=? Z.to_nat (ho h + 1))%nat; [exact Hdone|].
  cbv zeta. set (r := nth (Z.to_nat (ho h + 1)) (argsort (nth h H [])) O).
  destruct (isnan (nth r (nth h H []) None)); [exact Hdone|]. clear Hdone.
  assert (Hho' : forall q, -1 <= fupd ho h (ho h + 1) q /\ fupd (offers st) h (S (Z.to_nat (ho h + 1))) q = Z.to_nat (fupd ho h (ho h + 1) q + 1)).
  { intros q. unfold fupd. destruct (Nat.eqb q h); [split; lia|apply Hho]. }
  unfold j_rkR, rrow. destruct (nth h (nth r R []) None) as [rr|] eqn:Err; cbn [isnan okz].
  2:{ split; [exact Hho'|split; [exact Hrw|split; [exact Hacc|split; [exact Hfo|exact Hfl]]]]. }
  destruct (Hrw r) as [Hrge Hrh]. rewrite Hrh. unfold held. destruct (Z.eqb_spec (rw r) (-1)) as [E1|E1].
  - (* the resident holds nothing yet *)
    cbn [orb negb]. split; [exact Hho'|split; [|split; [|split; [exact Hfo|exact Hfl]]]].
    + intros q. cbn [rwl]. unfold fupd. destruct (Nat.eqb q r); [split; [lia|]|apply Hrw]. unfold held. destruct (Z.eqb_spec (Z.of_nat h) (-1)); [lia|]. rewrite Nat2Z.id. reflexivity.
    + intros q. cbn [acc]. unfold fupd. destruct (Nat.eqb q h); [rewrite Hacc; reflexivity|apply Hacc].
  - cbn [orb]. set (h0 := Z.to_nat (rw r)).
    assert (Etake : match nth h0 (nth r R []) None with Some r0 => (rr <? r0)%nat | None => false end = (Z.of_nat rr <? okz (nth h0 (nth r R []) None))).
    { destruct (nth h0 (nth r R []) None) as [r0|]; cbn [okz]; [|symmetry; apply Z.ltb_ge; lia].
      destruct (Nat.ltb_spec rr r0), (Z.ltb_spec (Z.of_nat rr) (Z.of_nat r0)); try reflexivity; lia. }
    rewrite Etake. destruct (Z.of_nat rr <? okz (nth h0 (nth r R []) None)).
    + cbn [negb]. split; [exact Hho'|split; [|split; [|split; [exact Hfo|exact Hfl]]]].
      * intros q. cbn [rwl]. unfold fupd. destruct (Nat.eqb q r); [split; [lia|]|apply Hrw]. unfold held. destruct (Z.eqb_spec (Z.of_nat h) (-1)); [lia|]. rewrite Nat2Z.id. reflexivity.
      * intros q. cbn [acc]. unfold fupd. rewrite !Hacc. destruct (Nat.eqb q h0), (Nat.eqb q h), (Nat.eqb h0 h); try rewrite !Hacc; reflexivity.
    + split; [exact Hho'|split; [exact Hrw|split; [exact Hacc|split; [exact Hfo|exact Hfl]]]].
Qed.

Lemma round_sim : forall hs g st, (forall h, In h hs -> (h < m)%nat) -> Rel g st ->
  Rel (fold_left (gen_hosp_step R H) hs g) (fold_left (hosp_step (j_prefH H) (j_rkR R)) hs st).
Proof.
  induction hs as [|h hs IH]; intros g st Hhs HR; [exact HR|]. cbn [fold_left]. apply IH; [intros q Hq; apply Hhs; right; exact Hq|].
  apply step_sim; [apply Hhs; left; reflexivity|exact HR].
Qed.

Lemma loop_sim : forall fuel g st, Rel g st ->
  match gen_hosp_loop R H c fuel g, hosp_loop (length H) (j_prefH H) (j_rkR R) cap fuel st with
  | Some g', Some st' => Rel g' st'
  | None, None => True
  | _, _ => False
  end.
Proof.
  induction fuel as [|f IH]; intros g st HR; [exact I|]. cbn [gen_hosp_loop hosp_loop]. destruct g as [[[ho rw] hao] co]. fold m. rewrite Hm. cbv zeta.
  pose proof HR as [Hho [Hrw [Hacc [Hfo Hfl]]]].
  set (co' := fun i_ : nat => if co i_ =? 2 then 2 else if Z.of_nat (nth i_ c 0%nat) =? hao i_ then 0 else 1).
  assert (Hfo' : flag_ok co') by (intros q; unfold co'; destruct (co q =? 2); [right; right; reflexivity|destruct (_ =? hao q); [left|right; left]; reflexivity]).
  assert (Hfl' : forall q, reflag cap st q = Z.to_nat (co' q)).
  { intros q. unfold reflag, co', cap. rewrite Hfl, Hacc. destruct (Hfo q) as [E|[E|E]]; rewrite E; cbn; try reflexivity; destruct (Z.of_nat (nth q c 0%nat) =? hao q); reflexivity. }
  assert (Et : forallb (fun i_ => negb (co' i_ =? 1)) (seq 0 (length H)) = forallb (fun q => negb (Nat.eqb (reflag cap st q) 1)) (seq 0 (length H))).
  { induction (seq 0 (length H)) as [|q l IHl]; [reflexivity|]. cbn [forallb]. rewrite IHl. f_equal. rewrite Hfl'. destruct (Hfo' q) as [E|[E|E]]; rewrite E; reflexivity. }
  cbv beta delta [co'] in Et. rewrite Et. destruct (forallb (fun q => negb (Nat.eqb (reflag cap st q) 1)) (seq 0 (length H))); [exact HR|].
  apply IH. apply round_sim; [intros q Hq; apply in_seq in Hq; rewrite Hm; lia|]. split; [exact Hho|split; [exact Hrw|split; [exact Hacc|split; [exact Hfo'|exact Hfl']]]].
Qed.

Lemma init_rel : Rel gen_hosp_init hosp_init.
Proof. unfold gen_hosp_init, hosp_init. repeat split; cbn; try lia. intros p. right; left; reflexivity. Qed.

Lemma out_rel g st : Rel g st -> gen_hosp_out R 0 g = map (fun pr => (Z.of_nat (fst pr), Z.of_nat (snd pr))) (hosp_out n st).
Proof.
  intros HR. destruct g as [[[ho rw] hao] co]. destruct HR as [_ [Hrw _]]. unfold gen_hosp_out, hosp_out. fold n.
  induction (seq 0 n) as [|r l IH]; [reflexivity|]. cbn [flat_map]. rewrite map_app, IH. f_equal.
  destruct (Hrw r) as [Hge ->]. unfold held. cbv zeta. destruct (Z.eqb_spec (rw r) (-1)); [reflexivity|]. cbn [map fst snd]. f_equal. f_equal; lia.
Qed.

Theorem gen_gs_hosp_refines fuel : length (nth 0 H []) = n ->
  gen_gs_hosp R H c 0 fuel = option_map (map (fun pr => (Z.of_nat (fst pr), Z.of_nat (snd pr)))) (gs_hosp_run R H cap fuel).
Proof.
  intros Hn. unfold gen_gs_hosp, gs_hosp_run. fold n. fold m. rewrite Hn, Hm, !Nat.eqb_refl. cbn [andb negb].
  pose proof (loop_sim fuel gen_hosp_init hosp_init init_rel) as Hl.
  destruct (gen_hosp_loop R H c fuel gen_hosp_init) as [g'|], (hosp_loop (length H) (j_prefH H) (j_rkR R) cap fuel hosp_init) as [st'|]; try contradiction; [|reflexivity].
  cbn [option_map]. f_equal. apply out_rel. exact Hl.
Qed.
End Refine.
Print Assumptions gen_gs_hosp_refines.
(* auxiliary lemmas *)
Print Assumptions fupd_s.
Print Assumptions fupd_o.
Print Assumptions flag_ok_fupd.
Print Assumptions flag_rel_fupd.
Print Assumptions prefH_spec.
Print Assumptions step_sim.
Print Assumptions round_sim.
Print Assumptions loop_sim.
Print Assumptions init_rel.
Print Assumptions out_rel.
