(* is_consistent_valuation_profile regenerated from the source (ConsGen.v): the rejection clause of C18 holds of the generated predicate itself - if a row is
   accepted then no alternative ranked lower is valued more than one ranked higher by more than the two tolerance bands at their positions. Assumed of numpy's
   argsort: the valuation-side order lists the values in non-increasing order (whatever it does with ties). The acceptance clause (a consistent profile is
   accepted) is proved for the hand-written model only (C18_predicate_accepts_generated) and decided per case by the oracle. NaN-free rows. *)
From Coq Require Import Arith ZArith QArith Qabs List Bool Lia Lqa.
Import ListNotations.
From SCKGen Require Import ConsGen.
Local Open Scope Q_scope.

Definition gen_band (x : Q) : Q := gen_atol + gen_rtol * Qabs x.
Lemma gen_band_nonneg x : 0 <= gen_band x.
Proof.
  unfold gen_band. assert (H1 : 0 <= gen_atol) by (unfold gen_atol, Qle; simpl; lia). assert (H2 : 0 <= gen_rtol) by (unfold gen_rtol, Qle; simpl; lia).
  pose proof (Qabs_nonneg x) as H3. pose proof (Qmult_le_0_compat _ _ H2 H3) as H4. lra.
Qed.
Lemma gen_position_close m v rv rp p : gen_consistent_row m v rv rp = true -> (p < m)%nat ->
  Qabs (nth (nth p rp 0%nat) v 0 - nth (nth p rv 0%nat) v 0) <= gen_band (nth (nth p rv 0%nat) v 0).
Proof.
  intros H Hp. unfold gen_consistent_row in H. rewrite forallb_forall in H. specialize (H p ltac:(apply in_seq; lia)). cbv zeta in H.
  destruct (Nat.eqb_spec (nth p rv 0%nat) (nth p rp 0%nat)) as [E|_].
  - rewrite E. setoid_replace (nth (nth p rp 0%nat) v 0 - nth (nth p rp 0%nat) v 0) with 0 by ring. cbn [Qabs Z.abs]. apply gen_band_nonneg.
  - destruct (gen_allclose _ _) eqn:Ea; [|discriminate]. unfold gen_allclose in Ea. apply Qle_bool_iff in Ea. exact Ea.
Qed.
Theorem gen_consistent_rejects_inversions m v rv rp p q : gen_consistent_row m v rv rp = true ->
  (forall a b, (a <= b)%nat -> (b < m)%nat -> nth (nth b rv 0%nat) v 0 <= nth (nth a rv 0%nat) v 0) ->
  (p <= q)%nat -> (q < m)%nat ->
  nth (nth q rp 0%nat) v 0 - nth (nth p rp 0%nat) v 0 <= gen_band (nth (nth p rv 0%nat) v 0) + gen_band (nth (nth q rv 0%nat) v 0).
Proof.
  intros H Hs Hpq Hq. pose proof (gen_position_close m v rv rp p H ltac:(lia)) as Cp. pose proof (gen_position_close m v rv rp q H Hq) as Cq.
  apply Qabs_Qle_condition in Cp. apply Qabs_Qle_condition in Cq. pose proof (Hs p q Hpq Hq) as Hle. destruct Cp as [Cp1 Cp2]. destruct Cq as [Cq1 Cq2]. lra.
Qed.
(* the whole predicate: accepted means every row is accepted *)
Theorem gen_consistent_rows n m V RV RP i : gen_consistent n m V RV RP = true -> (i < n)%nat -> gen_consistent_row m (nth i V []) (nth i RV []) (nth i RP []) = true.
Proof. intros H Hi. unfold gen_consistent in H. rewrite forallb_forall in H. apply H. apply in_seq. lia. Qed.
(* a clear inversion is rejected: values 3, 1, 2 for the alternatives ranked 1st, 2nd, 3rd (valuation order 0, 2, 1) *)
Example gen_consistent_example : gen_consistent 1 3 [[3; 1; 2]] [[0; 2; 1]%nat] [[0; 1; 2]%nat] = false /\ gen_consistent 1 3 [[3; 2; 1]] [[0; 1; 2]%nat] [[0; 1; 2]%nat] = true.
Proof. vm_compute. split; reflexivity. Qed.
Print Assumptions gen_band_nonneg. Print Assumptions gen_position_close. Print Assumptions gen_consistent_rejects_inversions. Print Assumptions gen_consistent_rows.
