(* MaximumWeightMatching.scf regenerated from the source (MwmGen.v) against the certificate checkers of C04 (MWMCheck.v): the matrix
   handed to the solver marks exactly the NaN pairs as forbidden and leaves every utility unchanged; the solver's answer is returned
   shifted by the index fixer and nothing else; a ValueError of the solver is the only way scf raises; and an answer that passes the
   proved certificate check is a welfare-maximal assignment of acceptable pairs. *)
From Coq Require Import Arith ZArith QArith List Bool Lia.
Import ListNotations.
From SCK Require Import MWMCert MWMCheck.
From SCKGen Require Import MwmGen.

Definition wext (W : list (list ext)) (i j : nat) : ext := nth j (nth i W []) NegInf.
Lemma nth_map_d {A B} (f : A -> B) l i d d' : f d = d' -> nth i (map f l) d' = f (nth i l d).
Proof. intros <-. apply map_nth. Qed.
Theorem gen_mwm_weights_spec V i j : wext (gen_mwm_weights V) i j = match wof V i j with None => NegInf | Some v => Fin v end.
Proof.
  unfold wext, wof, gen_mwm_weights. rewrite (nth_map_d _ V i [] []) by reflexivity. rewrite (nth_map_d _ (nth i V []) j None NegInf) by reflexivity. reflexivity.
Qed.
Theorem gen_mwm_scf_spec zi solver V :
  match solver (gen_mwm_weights V) with
  | None => gen_mwm_scf zi solver V = None
  | Some col => gen_mwm_scf zi solver V = Some (map (fun c => (Z.of_nat c + (if zi then 0 else 1))%Z) col)
  end.
Proof. unfold gen_mwm_scf, gen_mwm_fixer. destruct (solver (gen_mwm_weights V)); reflexivity. Qed.
Theorem gen_mwm_scf_shift solver V out0 out1 : gen_mwm_scf true solver V = Some out0 -> gen_mwm_scf false solver V = Some out1 -> out1 = map (fun z => (z + 1)%Z) out0.
Proof.
  unfold gen_mwm_scf, gen_mwm_fixer. destruct (solver (gen_mwm_weights V)) as [col|]; [|discriminate]. intros H0 H1. injection H0 as <-. injection H1 as <-.
  rewrite map_map. apply map_ext. intros c. lia.
Qed.
Theorem gen_mwm_scf_certified solver V col u v : solver (gen_mwm_weights V) = Some col -> cert_okb V col u v = true ->
  gen_mwm_scf true solver V = Some (map Z.of_nat col) /\
  let n := length V in
  MWMCert.assignment n col /\ MWMCert.acceptable n (wof V) col /\
  forall tau, MWMCert.assignment n tau -> MWMCert.acceptable n (wof V) tau -> (MWMCert.welfare n (wof V) tau <= MWMCert.welfare n (wof V) col)%Q.
Proof.
  intros Hs Hc. split.
  - unfold gen_mwm_scf, gen_mwm_fixer. rewrite Hs. f_equal. apply map_ext. intros c. lia.
  - apply cert_okb_sound with (u := u) (v := v). exact Hc.
Qed.
Print Assumptions nth_map_d. Print Assumptions gen_mwm_weights_spec. Print Assumptions gen_mwm_scf_spec. Print Assumptions gen_mwm_scf_shift. Print Assumptions gen_mwm_scf_certified.
