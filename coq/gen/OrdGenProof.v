(* compute_ordinal_profile regenerated from the source (OrdGen.v): the alternative numpy's descending argsort puts at position p gets rank p + 1 if it has
   a value and stays NaN otherwise; hence, whatever order the sort gives to equal values, a strictly larger value gets a strictly smaller rank (assumed of
   the sort: values do not increase along the order, NaN sorted last). *)
From Coq Require Import Arith ZArith QArith List Bool Lia Lqa.
Import ListNotations.
From SCK Require Import Eat3 Eat3Proof.
From SCKGen Require Import OrdGen.
Local Open Scope Q_scope.

Lemma ord_fill_length : forall rs p ans, length (gen_ord_fill rs p ans) = length ans.
Proof. induction rs as [|x r IH]; intros p ans; [reflexivity|]. cbn [gen_ord_fill]. rewrite IH. apply length_upd. Qed.
Lemma ord_fill_other : forall rs p ans j, ~ In j rs -> nth j (gen_ord_fill rs p ans) None = nth j ans None.
Proof.
  induction rs as [|x r IH]; intros p ans j H; [reflexivity|]. cbn [gen_ord_fill]. rewrite IH by (intro Hin; apply H; right; exact Hin).
  apply nth_upd_other. intro E. apply H. left. exact E.
Qed.
Lemma ord_fill_nth : forall rs p ans t, NoDup rs -> (forall x, In x rs -> (x < length ans)%nat) -> (t < length rs)%nat ->
  nth (nth t rs O) (gen_ord_fill rs p ans) None = gen_ord_add (nth (nth t rs O) ans None) (Some (inject_Z (Z.of_nat (p + t + 1)))).
Proof.
  induction rs as [|x r IH]; intros p ans t Hnd Hlt Ht; [cbn in Ht; lia|]. inversion Hnd as [|? ? Hnin Hnd']; subst. cbn [gen_ord_fill].
  destruct t as [|t]; cbn [nth].
  - rewrite ord_fill_other by exact Hnin. rewrite nth_upd_same by (apply Hlt; left; reflexivity). rewrite Nat.add_0_r. reflexivity.
  - cbn [length] in Ht. rewrite IH; [|exact Hnd'|intros y Hy; rewrite length_upd; apply Hlt; right; exact Hy|lia].
    rewrite nth_upd_other by (intro E; apply Hnin; rewrite E; apply nth_In; lia). do 3 f_equal. lia.
Qed.

Lemma nth_map_d {A B} (f : A -> B) l j d d' : (j < length l)%nat -> nth j (map f l) d' = f (nth j l d).
Proof. revert j. induction l as [|a t IH]; intros [|j] H; cbn in *; try lia; [reflexivity|apply IH; lia]. Qed.

(* position p of the order: rank p + 1 for a valued alternative, NaN stays NaN *)
Theorem gen_ord_row_position row ranked p : NoDup ranked -> (forall x, In x ranked -> (x < length row)%nat) -> (p < length ranked)%nat ->
  match nth (nth p ranked O) row None with
  | Some _ => exists r, nth (nth p ranked O) (gen_ord_row row ranked) None = Some r /\ r == inject_Z (Z.of_nat (p + 1))
  | None => nth (nth p ranked O) (gen_ord_row row ranked) None = None end.
Proof.
  intros Hnd Hlt Hp. unfold gen_ord_row. rewrite ord_fill_nth; [|exact Hnd|intros x Hx; rewrite map_length; apply Hlt, Hx|exact Hp].
  rewrite (nth_map_d _ row _ None None) by (apply Hlt, nth_In, Hp). cbn [plus].
  destruct (nth (nth p ranked O) row None) as [v|]; cbn [gen_ord_add]; [|reflexivity]. eexists. split; [reflexivity|]. ring.
Qed.
(* an alternative that is not listed keeps its entry of ans (0 or NaN): with ranked a permutation of all alternatives there is none *)
Theorem gen_ord_row_length row ranked : length (gen_ord_row row ranked) = length row.
Proof. unfold gen_ord_row. rewrite ord_fill_length. apply map_length. Qed.

(* a strictly larger value gets a strictly smaller rank, for every order in which values do not increase *)
Theorem gen_ord_higher_value_better_rank row ranked pa pb va vb : NoDup ranked -> (forall x, In x ranked -> (x < length row)%nat) ->
  (pa < length ranked)%nat -> (pb < length ranked)%nat ->
  nth (nth pa ranked O) row None = Some va -> nth (nth pb ranked O) row None = Some vb ->
  (forall p q v w, (p <= q)%nat -> (q < length ranked)%nat -> nth (nth p ranked O) row None = Some v -> nth (nth q ranked O) row None = Some w -> w <= v) ->
  vb < va ->
  exists ra rb, nth (nth pa ranked O) (gen_ord_row row ranked) None = Some ra /\ nth (nth pb ranked O) (gen_ord_row row ranked) None = Some rb /\ ra < rb.
Proof.
  intros Hnd Hlt Hpa Hpb Ea Eb Hs Hlt'. pose proof (gen_ord_row_position row ranked pa Hnd Hlt Hpa) as Ha. pose proof (gen_ord_row_position row ranked pb Hnd Hlt Hpb) as Hb.
  rewrite Ea in Ha. rewrite Eb in Hb. destruct Ha as [ra [Ha Ra]]. destruct Hb as [rb [Hb Rb]]. exists ra, rb. split; [exact Ha|]. split; [exact Hb|].
  assert (Hlt2 : (pa < pb)%nat).
  { destruct (Nat.lt_ge_cases pa pb) as [H|H]; [exact H|]. exfalso. pose proof (Hs pb pa vb va H Hpa Eb Ea) as Hle. apply (Qlt_irrefl va). eapply Qle_lt_trans; [exact Hle|exact Hlt']. }
  rewrite Ra, Rb. rewrite <- Zlt_Qlt. lia.
Qed.

Example gen_ord_example : gen_ord_row [Some (1 # 2); None; Some (3 # 4); Some (1 # 4)] [2; 0; 3; 1]%nat = [Some (0 + 2 # 1); None; Some (0 + 1 # 1); Some (0 + 3 # 1)]%Q.
Proof. vm_compute. reflexivity. Qed.
Print Assumptions ord_fill_length. Print Assumptions ord_fill_other. Print Assumptions ord_fill_nth. Print Assumptions nth_map_d. Print Assumptions gen_ord_row_position.
Print Assumptions gen_ord_row_length. Print Assumptions gen_ord_higher_value_better_rank.
