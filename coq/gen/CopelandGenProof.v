(* The Copeland score GENERATED from the current Python source (CopelandGen.v, rebuilt on every run by
   harness/translate.py) equals the hand-written model Voting.copeland that C11 / C12's theorems are about. *)
From Coq Require Import ZArith List Bool Lia.
Import ListNotations.
From SCK Require Import Voting VotingProof GenLib GenCop.
From SCKGen Require Import CopelandGen.
Local Open Scope Z_scope.

Ltac sgn_case :=
  cbv zeta; unfold sgn;
  repeat match goal with
  | |- context [?a >? ?b] => rewrite (Z.gtb_ltb a b)
  | |- context [?a >=? ?b] => rewrite (Z.geb_leb a b)
  | H : context [?a >? ?b] |- _ => rewrite (Z.gtb_ltb a b) in H
  | H : context [?a >=? ?b] |- _ => rewrite (Z.geb_leb a b) in H
  | |- context [if ?a <? ?b then _ else _] => destruct (Z.ltb_spec a b)
  | |- context [if ?a <=? ?b then _ else _] => destruct (Z.leb_spec a b)
  | |- context [if ?a =? ?b then _ else _] => destruct (Z.eqb_spec a b)
  | H : context [if ?a <? ?b then _ else _] |- _ => destruct (Z.ltb_spec a b)
  | H : context [if ?a <=? ?b then _ else _] |- _ => destruct (Z.leb_spec a b)
  | H : context [if ?a =? ?b then _ else _] |- _ => destruct (Z.eqb_spec a b)
  end; lia.

Theorem gen_cop_f_is_sign : forall t, gen_cop_f t = sgn t.
Proof. intros t. unfold gen_cop_f. sgn_case. Qed.
Print Assumptions gen_cop_f_is_sign.
Theorem gen_cop_g_is_sign : forall t, gen_cop_g t = sgn t.
Proof. intros t. unfold gen_cop_g. sgn_case. Qed.
Print Assumptions gen_cop_g_is_sign.

Theorem gen_copeland_is_model : forall P m, rect P m -> gen_copeland P = copeland P.
Proof. intros P m HR. exact (copeland_shape_is_model gen_cop_f gen_cop_g P m HR gen_cop_f_is_sign gen_cop_g_is_sign). Qed.
Print Assumptions gen_copeland_is_model.
