(* The memoising elicitor GENERATED from the current Python source (ElicitorGen.v, rebuilt on every run by
   harness/translate.py) equals the hand-written state machine ElicitM.elicit that C14 / C15's theorems are about. *)
From Coq Require Import ZArith QArith List Bool Lia.
Import ListNotations.
From SCK Require Import ElicitM.
From SCKGen Require Import ElicitorGen.
Local Open Scope Z_scope.

Theorem gen_elicit_is_model : forall memoize fixer V st k0, gen_elicit memoize fixer V st k0 = elicit memoize fixer V st k0.
Proof.
  intros memoize fixer V st k0. unfold gen_elicit, elicit. cbv zeta.
  destruct memoize; [destruct (mget (memo st) (fst k0 + fixer, snd k0 + fixer)); [reflexivity|]|]; cbn [memo cnt trace]; rewrite Nat.add_1_r; reflexivity.
Qed.
Print Assumptions gen_elicit_is_model.
Theorem gen_einit_is_model : gen_einit = einit.
Proof. reflexivity. Qed.
Print Assumptions gen_einit_is_model.
Theorem gen_index_fixer_is_model : gen_index_fixer true = 0 /\ gen_index_fixer false = 1.
Proof. split; reflexivity. Qed.
Print Assumptions gen_index_fixer_is_model.
