(* The validators of utils.py regenerated from the source (ValGen.v), as boolean functions (true = returns, false = raises ValueError):
   they accept every input of the properties' domains - complete strict profiles with ranks 1..m, valuation profiles, square matrices, the three
   tie-breakers, bipartite graphs satisfying the models' well-formedness predicate wfbb - and reject what the properties say must be rejected
   (an unknown tie-breaker; 'accept' where it is excluded). *)
From Coq Require Import ZArith QArith List Bool String Lia Lqa.
Import ListNotations.
From SCK Require Import FlowModel BipModel FlowWf BipProof BipFinal BipWf.
From SCKGen Require Import ValGen.

Theorem gen_check_tie_breaker_spec tb inc :
  gen_check_tie_breaker tb inc = true <-> tb = "random"%string \/ tb = "first"%string \/ (inc = true /\ tb = "accept"%string).
Proof.
  unfold gen_check_tie_breaker. cbn [existsb]. rewrite !orb_false_r.
  destruct (String.eqb_spec tb "random") as [->|H1]; [cbn; tauto|]. destruct (String.eqb_spec tb "first") as [->|H2]; [cbn; tauto|]. cbn [orb].
  destruct inc; cbn [andb]; [|split; [discriminate|intros [?|[?|[? ?]]]; congruence]].
  destruct (String.eqb_spec tb "accept") as [->|H3]; [tauto|]. split; [discriminate|intros [?|[?|[? ?]]]; congruence].
Qed.
Theorem gen_check_square_matrix_spec r c : gen_check_square_matrix r c = true <-> r = c.
Proof. unfold gen_check_square_matrix. apply Nat.eqb_eq. Qed.
Theorem gen_check_valuation_profile_spec P : gen_check_valuation_profile P false = true /\ (gen_check_valuation_profile P true = true <-> hasnan P = false).
Proof. unfold gen_check_valuation_profile. cbn [andb]. split; [reflexivity|]. destruct (hasnan P); split; congruence. Qed.

(* ---- np.nanmin / np.nanmax ---- *)
Lemma fold_min_spec : forall l x, let r := fold_left (fun a b => if Qle_bool b a then b else a) l x in In r (x :: l) /\ forall y, In y (x :: l) -> (r <= y)%Q.
Proof.
  induction l as [|b l IH]; intros x; cbv zeta; cbn [fold_left].
  - split; [left; reflexivity|]. intros y [<-|[]]. apply Qle_refl.
  - destruct (Qle_bool b x) eqn:E.
    + destruct (IH b) as [Hin Hle]. cbv zeta in *. split; [destruct Hin as [<-|Hin]; [right; left; reflexivity|right; right; exact Hin]|].
      intros y [<-|[<-|Hy]]; [apply Qle_bool_iff in E; apply (Qle_trans _ b); [apply Hle; left; reflexivity|exact E]|apply Hle; left; reflexivity|apply Hle; right; exact Hy].
    + destruct (IH x) as [Hin Hle]. cbv zeta in *. split; [destruct Hin as [<-|Hin]; [left; reflexivity|right; right; exact Hin]|].
      assert (Hxb : (x <= b)%Q) by (destruct (Qlt_le_dec x b) as [H|H]; [apply Qlt_le_weak; exact H|apply Qle_bool_iff in H; congruence]).
      intros y [<-|[<-|Hy]]; [apply Hle; left; reflexivity|apply (Qle_trans _ x); [apply Hle; left; reflexivity|exact Hxb]|apply Hle; right; exact Hy].
Qed.
Lemma fold_max_spec : forall l x, let r := fold_left (fun a b => if Qle_bool a b then b else a) l x in In r (x :: l) /\ forall y, In y (x :: l) -> (y <= r)%Q.
Proof.
  induction l as [|b l IH]; intros x; cbv zeta; cbn [fold_left].
  - split; [left; reflexivity|]. intros y [<-|[]]. apply Qle_refl.
  - destruct (Qle_bool x b) eqn:E.
    + destruct (IH b) as [Hin Hle]. cbv zeta in *. split; [destruct Hin as [<-|Hin]; [right; left; reflexivity|right; right; exact Hin]|].
      intros y [<-|[<-|Hy]]; [apply Qle_bool_iff in E; apply (Qle_trans _ b); [exact E|apply Hle; left; reflexivity]|apply Hle; left; reflexivity|apply Hle; right; exact Hy].
    + destruct (IH x) as [Hin Hle]. cbv zeta in *. split; [destruct Hin as [<-|Hin]; [left; reflexivity|right; right; exact Hin]|].
      assert (Hbx : (b <= x)%Q) by (destruct (Qlt_le_dec b x) as [H|H]; [apply Qlt_le_weak; exact H|apply Qle_bool_iff in H; congruence]).
      intros y [<-|[<-|Hy]]; [apply Hle; left; reflexivity|apply (Qle_trans _ x); [exact Hbx|apply Hle; left; reflexivity]|apply Hle; right; exact Hy].
Qed.
Lemma qmin_hits l lo : In lo l -> (forall y, In y l -> (lo <= y)%Q) -> oqeq (qmin l) lo = true.
Proof.
  intros Hin Hlo. destruct l as [|x r]; [destruct Hin|]. unfold qmin, oqeq. destruct (fold_min_spec r x) as [H1 H2]. cbv zeta in *.
  apply Qeq_bool_iff. apply Qle_antisym; [apply H2; exact Hin|apply Hlo; exact H1].
Qed.
Lemma qmax_hits l hi : In hi l -> (forall y, In y l -> (y <= hi)%Q) -> oqeq (qmax l) hi = true.
Proof.
  intros Hin Hhi. destruct l as [|x r]; [destruct Hin|]. unfold qmax, oqeq. destruct (fold_max_spec r x) as [H1 H2]. cbv zeta in *.
  apply Qeq_bool_iff. apply Qle_antisym; [apply Hhi; exact H1|apply H2; exact Hin].
Qed.
Lemma in_qvals P q : In q (qvals P) <-> exists row, In row P /\ In (Some q) row.
Proof.
  unfold qvals. rewrite in_flat_map. split.
  - intros [row [Hr Hq]]. exists row. split; [exact Hr|]. apply in_flat_map in Hq as [x [Hx Hq]]. destruct x as [q'|]; [destruct Hq as [<-|[]]; exact Hx|destruct Hq].
  - intros [row [Hr Hq]]. exists row. split; [exact Hr|]. apply in_flat_map. exists (Some q). split; [exact Hq|left; reflexivity].
Qed.

(* every complete profile whose ranks lie in 1..m and contain both 1 and m (in particular every complete strict profile with n >= 1) is accepted, under every flag *)
Theorem gen_check_profile_accepts m P c s :
  hasnan P = false -> (forall q, In q (qvals P) -> (1 <= q <= inject_Z (Z.of_nat m))%Q) -> In 1%Q (qvals P) -> In (inject_Z (Z.of_nat m)) (qvals P) ->
  gen_check_profile m P c s = true.
Proof.
  intros Hn Hr H1 Hm. unfold gen_check_profile. rewrite Hn, andb_false_r.
  rewrite (qmin_hits _ 1%Q H1) by (intros y Hy; apply Hr; exact Hy).
  rewrite (qmax_hits _ _ Hm) by (intros y Hy; apply Hr; exact Hy). rewrite orb_true_r. reflexivity.
Qed.
(* a profile with a NaN is rejected when completeness is demanded *)
Theorem gen_check_profile_rejects_nan m P s : hasnan P = true -> gen_check_profile m P true s = false.
Proof. intros H. unfold gen_check_profile. rewrite H. reflexivity. Qed.

(* ---- bipartite graphs ---- *)
Theorem gen_check_bipartite_graph_accepts G X Y x xs : X = x :: xs -> wfbb G X Y = true -> gen_check_graph G = true -> same_set (X ++ Y) (map fst G) = true ->
  gen_check_bipartite_graph G X Y = true.
Proof.
  intros -> Hwf Hg Hs. unfold gen_check_bipartite_graph. rewrite Hg, Hs. cbn [negb].
  unfold wfbb in Hwf. repeat match type of Hwf with (_ && _ = true) => let H2 := fresh "H" in apply andb_prop in Hwf as [Hwf H2] end.
  match goal with K : forallb (fun x => negb (memZ x Y)) (x :: xs) = true |- _ => cbn [forallb] in K; apply andb_prop in K as [K _]; apply negb_true_iff in K; rewrite K end.
  match goal with K : forallb (fun x => nodupZ (adj G x) && _) (x :: xs) = true |- _ => cbn [forallb] in K; apply andb_prop in K as [K _]; apply andb_prop in K as [_ K]; exact K end.
Qed.
Print Assumptions gen_check_tie_breaker_spec. Print Assumptions gen_check_square_matrix_spec. Print Assumptions gen_check_valuation_profile_spec.
Print Assumptions gen_check_profile_accepts. Print Assumptions gen_check_profile_rejects_nan. Print Assumptions gen_check_bipartite_graph_accepts.
Print Assumptions fold_min_spec. Print Assumptions fold_max_spec. Print Assumptions qmin_hits. Print Assumptions qmax_hits. Print Assumptions in_qvals.
