(* The bodies of k-ARV, lambda-TSF and the two-sided lambda-TSF regenerated from the Python source (ThrGen.v: a matrix v_tilde and a vector of
   previous cut-off positions, filled level by level) run, against EVERY elicitor state, exactly like the model ElicitRules.thrP (a list of
   (row, previous position) pairs per agent) that the theorems of C14 / C15 / C16 / C17 are about: same simulated profile, same resulting
   elicitor state (memo table, counter, forwarded questions). *)
From Coq Require Import Arith ZArith QArith List Bool Lia.
Import ListNotations.
From SCK Require Import ElicitM ElicitRun ElicitRules.
From SCKGen Require Import BsearchGen BsearchGenProof ThrGen.
Local Open Scope Z_scope.

Lemma run_mapP_ext {A B} m fx V (f g : A -> prog B) : (forall x st, run m fx V (f x) st = run m fx V (g x) st) ->
  forall l st, run m fx V (mapP f l) st = run m fx V (mapP g l) st.
Proof. intros H l. induction l as [|x t IH]; intros st; [reflexivity|]. rewrite !run_mapP_cons, H. destruct (run m fx V (g x) st) as [y st1]. rewrite IH. reflexivity. Qed.
Lemma run_mapP_length {A B} m fx V (f : A -> prog B) : forall l st, length (fst (run m fx V (mapP f l) st)) = length l.
Proof.
  induction l as [|x t IH]; intros st; [reflexivity|]. rewrite run_mapP_cons. destruct (run m fx V (f x) st) as [y st1]. specialize (IH st1).
  destruct (run m fx V (mapP f t) st1) as [ys st2]. cbn [fst length] in *. rewrite IH. reflexivity.
Qed.
Lemma combine_map_seq {A B} (f : nat -> A) (l : list B) (d : B) : forall s n, length l = n ->
  combine (map f (seq s n)) l = map (fun i => (f i, nth (i - s) l d)) (seq s n).
Proof.
  intros s n. revert s l. induction n as [|n IH]; intros s l Hl; [reflexivity|]. destruct l as [|b l]; [discriminate|]. cbn [seq map combine]. rewrite Nat.sub_diag. f_equal.
  rewrite (IH (S s) l) by (simpl in Hl; lia). apply map_ext_in. intros i Hi. apply in_seq in Hi. replace (i - s)%nat with (S (i - S s)) by lia. reflexivity.
Qed.
Lemma nth_combine {A B} (a : list A) (b : list B) da db : forall i, length a = length b -> nth i (combine a b) (da, db) = (nth i a da, nth i b db).
Proof. revert b. induction a as [|x a IH]; intros [|y b] i H; try discriminate; [destruct i; reflexivity|]. destruct i; [reflexivity|]. cbn [combine nth]. apply IH. simpl in H. lia. Qed.
Lemma map_fst_combine {A B} (a : list A) (b : list B) : length a = length b -> map fst (combine a b) = a.
Proof. revert b. induction a as [|x a IH]; intros [|y b] H; try discriminate; [reflexivity|]. cbn [combine map fst]. f_equal. apply IH. simpl in H. lia. Qed.

Lemma nth_map_seq {A} (f : nat -> A) d : forall k s i, (s <= i < s + k)%nat -> nth (i - s) (map f (seq s k)) d = f i.
Proof.
  induction k as [|k IH]; intros s i H; [lia|]. cbn [seq map]. destruct (Nat.eq_dec i s) as [->|Hne]; [rewrite Nat.sub_diag; reflexivity|].
  replace (i - s)%nat with (S (i - S s)) by lia. cbn [nth]. apply IH. lia.
Qed.
Lemma nth_map_seq0 {A} (f : nat -> A) d n i : (i < n)%nat -> nth i (map f (seq 0 n)) d = f i.
Proof. intros H. rewrite <- (Nat.sub_0_r i) at 1. apply nth_map_seq. lia. Qed.

Section Generic.
Variables (mem : bool) (fx : Z) (V : key -> Q).
Variable bs : nat -> list Z -> Z -> Z -> Z -> Q -> prog Z.
Hypothesis bs_ok : forall fuel rk i lo hi tau st, run mem fx V (bs fuel rk i lo hi tau) st = run mem fx V (bsearchP fuel rk i lo hi tau) st.
Variables (ranked : list (list Z)) (tau : list (list Q)) (byq : bool) (init : Q) (n : nat) (m : Z).

(* the shape of the three generated programs *)
Definition glevel (st_ : list (list Q) * list Z) (l : nat) : prog (list (list Q) * list Z) :=
  let '(vt, prev) := st_ in
  p_star <- mapP (fun i_ => bs (S (Z.to_nat m)) (nth i_ ranked []) (Z.of_nat i_) 0 m (tauof tau i_ l)) (seq 0 n) ;;
  if byq then
    memoized_v <- mapP (fun i_ => Ask (Z.of_nat i_, rkat (nth i_ ranked []) (nth i_ p_star 0)) (fun v_ => Ret v_)) (seq 0 n) ;;
    Ret (map (fun i_ => fill (nth i_ vt []) (nth i_ ranked []) (nth i_ prev 0) (nth i_ p_star 0) (nth i_ memoized_v 0%Q)) (seq 0 n), p_star)
  else Ret (map (fun i_ => fill (nth i_ vt []) (nth i_ ranked []) (nth i_ prev 0) (nth i_ p_star 0) (tauof tau i_ l)) (seq 0 n), p_star).
Definition gprog (k : nat) : prog (list (list Q)) :=
  vfav <- mapP (fun i_ => Ask (Z.of_nat i_, rkat (nth i_ ranked []) 0) (fun v_ => Ret v_)) (seq 0 n) ;;
  let vt := map (fun i_ : nat => repeat init (Z.to_nat m)) (seq 0 n) in
  let vt := map (fun i_ => updz (nth i_ vt []) (Z.to_nat (rkat (nth i_ ranked []) 0)) (nth i_ vfav 0%Q)) (seq 0 n) in
  st_ <- foldP glevel (seq 1 k) (vt, repeat 0 n) ;;
  Ret (fst st_).

Lemma level_sim vt prev l st : length vt = n -> length prev = n ->
  let r := run mem fx V (glevel (vt, prev) l) st in
  run mem fx V (levelP ranked tau byq n m (combine vt prev) l) st = (combine (fst (fst r)) (snd (fst r)), snd r) /\
  length (fst (fst r)) = n /\ length (snd (fst r)) = n.
Proof.
  intros Hv Hp. cbv zeta. unfold glevel, levelP. rewrite !run_bind.
  rewrite (run_mapP_ext mem fx V (fun i_ => bs (S (Z.to_nat m)) (nth i_ ranked []) (Z.of_nat i_) 0 m (tauof tau i_ l)) (fun i => bsearchP (S (Z.to_nat m)) (nth i ranked []) (Z.of_nat i) 0 m (tauof tau i l))) by (intros x s; apply bs_ok).
  pose proof (run_mapP_length mem fx V (fun i => bsearchP (S (Z.to_nat m)) (nth i ranked []) (Z.of_nat i) 0 m (tauof tau i l)) (seq 0 n) st) as Hlen.
  destruct (run mem fx V (mapP (fun i => bsearchP (S (Z.to_nat m)) (nth i ranked []) (Z.of_nat i) 0 m (tauof tau i l)) (seq 0 n)) st) as [ps st1].
  cbn [fst] in Hlen. rewrite seq_length in Hlen. rewrite !run_bind.
  assert (Hfin : forall (vals : list Q) (st2 : estate),
    (map (fun i => let rs := nth i (combine vt prev) ([], 0) in (fill (fst rs) (nth i ranked []) (snd rs) (nth i ps 0) (nth i vals 0%Q), nth i ps 0)) (seq 0 n), st2) =
    (combine (map (fun i_ => fill (nth i_ vt []) (nth i_ ranked []) (nth i_ prev 0) (nth i_ ps 0) (nth i_ vals 0%Q)) (seq 0 n)) ps, st2)).
  { intros vals st2. f_equal. rewrite (combine_map_seq _ ps 0 0%nat n Hlen). apply map_ext_in. intros i Hi. cbv zeta.
    rewrite nth_combine by lia. cbn [fst snd]. rewrite Nat.sub_0_r. reflexivity. }
  destruct byq.
  - rewrite !run_bind. destruct (run mem fx V (mapP (fun i_ => Ask (Z.of_nat i_, rkat (nth i_ ranked []) (nth i_ ps 0)) (fun v_ => Ret v_)) (seq 0 n)) st1) as [vals st2].
    cbn [run fst snd]. split; [apply Hfin|]. split; [rewrite map_length, seq_length; reflexivity|exact Hlen].
  - cbn [run fst snd]. split; [|split; [rewrite map_length, seq_length; reflexivity|exact Hlen]].
    etransitivity; [exact (Hfin (map (fun i => tauof tau i l) (seq 0 n)) st1)|]. f_equal. f_equal. apply map_ext_in. intros i Hi. f_equal.
    apply in_seq in Hi. apply (nth_map_seq0 (fun i0 => tauof tau i0 l)). lia.
Qed.

Lemma fold_sim : forall ls vt prev st, length vt = n -> length prev = n ->
  let r := run mem fx V (foldP glevel ls (vt, prev)) st in
  run mem fx V (foldP (levelP ranked tau byq n m) ls (combine vt prev)) st = (combine (fst (fst r)) (snd (fst r)), snd r) /\ length (fst (fst r)) = length (snd (fst r)).
Proof.
  induction ls as [|l ls IH]; intros vt prev st Hv Hp; cbv zeta.
  - cbn [foldP run fst snd]. split; [reflexivity|lia].
  - rewrite !run_foldP_cons. destruct (level_sim vt prev l st Hv Hp) as [E [L1 L2]]. cbv zeta in E. rewrite E.
    destruct (run mem fx V (glevel (vt, prev) l) st) as [[vt' prev'] st1]. cbn [fst snd] in *. apply IH; assumption.
Qed.

Theorem gprog_is_model k st : run mem fx V (gprog k) st = run mem fx V (thrP ranked tau byq n m k init) st.
Proof.
  unfold gprog, thrP. rewrite !run_bind. unfold askfav.
  destruct (run mem fx V (mapP (fun i_ => Ask (Z.of_nat i_, rkat (nth i_ ranked []) 0) (fun v_ => Ret v_)) (seq 0 n)) st) as [vfav st1]. cbv zeta. rewrite !run_bind.
  set (vt0 := map (fun i_ => updz (nth i_ (map (fun _ : nat => repeat init (Z.to_nat m)) (seq 0 n)) []) (Z.to_nat (rkat (nth i_ ranked []) 0)) (nth i_ vfav 0%Q)) (seq 0 n)).
  assert (E0 : map (fun i => (updz (repeat init (Z.to_nat m)) (Z.to_nat (rkat (nth i ranked []) 0)) (nth i vfav 0%Q), 0)) (seq 0 n) = combine vt0 (repeat 0 n)).
  { unfold vt0. rewrite (combine_map_seq _ (repeat 0 n) 0 0%nat n (repeat_length _ _)). apply map_ext_in. intros i Hi. apply in_seq in Hi. f_equal.
    - f_equal.
      symmetry. apply (nth_map_seq0 (fun _ : nat => repeat init (Z.to_nat m))). lia.
    - rewrite Nat.sub_0_r. symmetry. apply nth_repeat. }
  rewrite E0. assert (Lv : length vt0 = n) by (unfold vt0; rewrite map_length, seq_length; reflexivity).
  destruct (fold_sim (seq 1 k) vt0 (repeat 0 n) st1 Lv (repeat_length _ _)) as [E L]. cbv zeta in E. rewrite E.
  destruct (run mem fx V (foldP glevel (seq 1 k) (vt0, repeat 0 n)) st1) as [[vt' prev'] st2]. cbn [fst snd run] in *. rewrite map_fst_combine by exact L. reflexivity.
Qed.
End Generic.

Theorem gen_thr_KARV_is_model : forall mem fx V ranked tau eps n m k st,
  run mem fx V (gen_thr_KARV ranked tau eps n m k) st = run mem fx V (thrP ranked tau false n m k 0%Q) st.
Proof. intros. apply (gprog_is_model mem fx V gen_bsearch_KARV (gen_bsearch_KARV_is_model mem fx V) ranked tau false 0%Q n m k st). Qed.
Theorem gen_thr_TSF_is_model : forall mem fx V ranked tau eps n m k st,
  run mem fx V (gen_thr_TSF ranked tau eps n m k) st = run mem fx V (thrP ranked tau false n m k eps) st.
Proof. intros. apply (gprog_is_model mem fx V gen_bsearch_TSF (gen_bsearch_TSF_is_model mem fx V) ranked tau false eps n m k st). Qed.
Theorem gen_thr_Double_is_model : forall mem fx V ranked tau eps n m k st,
  run mem fx V (gen_thr_Double ranked tau eps n m k) st = run mem fx V (thrP ranked tau true n m k 0%Q) st.
Proof. intros. apply (gprog_is_model mem fx V gen_bsearch_Double (gen_bsearch_Double_is_model mem fx V) ranked tau true 0%Q n m k st). Qed.
Print Assumptions gen_thr_KARV_is_model. Print Assumptions gen_thr_TSF_is_model. Print Assumptions gen_thr_Double_is_model.
(* auxiliary lemmas *)
Print Assumptions run_mapP_ext.
Print Assumptions run_mapP_length.
Print Assumptions combine_map_seq.
Print Assumptions nth_combine.
Print Assumptions map_fst_combine.
Print Assumptions nth_map_seq.
Print Assumptions nth_map_seq0.
Print Assumptions level_sim.
Print Assumptions fold_sim.
Print Assumptions gprog_is_model.
