(* The wrapper classes of profile_utils.py regenerated from the source (WrapGen.v): which validator flags each `of` passes on. What the rules rely on: the class whose name says
   Strict validates strictness, the class whose name says Complete validates completeness, the generic ones validate neither, and every `of` returns a view (checked by the
   translator: a copy would break the aliasing behaviour the mutation monitor of C20 and the in-place histories of the other checks observe). *)
From Coq Require Import List Bool String.
Import ListNotations.
From SCKGen Require Import WrapGen.
Local Open Scope string_scope.

Definition flags (tbl : list (string * (bool * bool))) (cls : string) : option (bool * bool) := option_map snd (find (fun p => String.eqb (fst p) cls) tbl).

Theorem gen_profile_wrapper_flags :
  flags gen_profile_wrappers "StrictCompleteProfile" = Some (true, true) /\ flags gen_profile_wrappers "StrictIncompleteProfile" = Some (false, true) /\
  flags gen_profile_wrappers "StrictProfile" = Some (false, true) /\ flags gen_profile_wrappers "CompleteProfile" = Some (true, false) /\
  flags gen_profile_wrappers "CompleteProfileWithTies" = Some (true, false) /\ flags gen_profile_wrappers "Profile" = Some (false, false) /\
  flags gen_profile_wrappers "ProfileWithTies" = Some (false, false) /\ flags gen_profile_wrappers "IncompleteProfile" = Some (false, false) /\
  flags gen_profile_wrappers "IncompleteProfileWithTies" = Some (false, false).
Proof. repeat split; reflexivity. Qed.
Theorem gen_valuation_wrapper_flags :
  flags gen_valuation_wrappers "CompleteValuationProfile" = Some (true, false) /\ flags gen_valuation_wrappers "ValuationProfile" = Some (false, false) /\
  flags gen_valuation_wrappers "IncompleteValuationProfile" = Some (false, false) /\ flags gen_valuation_wrappers "IntegerValuationProfile" = Some (false, true).
Proof. repeat split; reflexivity. Qed.
(* a name that promises strictness / completeness delivers it, for every class of the table *)
Definition contains (sub s : string) : bool := existsb (fun i => match String.substring i (String.length sub) s with t => String.eqb t sub end) (seq 0 (S (String.length s))).
Theorem gen_wrapper_names_are_honest :
  forallb (fun p => let '(cls, (c, s)) := p in
                    Bool.eqb s (contains "Strict" cls) && Bool.eqb c (contains "Complete" cls && negb (contains "Incomplete" cls))) gen_profile_wrappers = true.
Proof. vm_compute. reflexivity. Qed.
Print Assumptions gen_profile_wrapper_flags. Print Assumptions gen_valuation_wrapper_flags. Print Assumptions gen_wrapper_names_are_honest.
