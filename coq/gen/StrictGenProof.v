(* profile_with_ties_to_strict_profile regenerated from the source (StrictGen.v). For every reordering of tied groups that is a permutation (np.sort, np.random.shuffle)
   and every order `ranked` numpy's argsort may return (a permutation of the columns along which ranks do not decrease, NaN last): the alternative the loop puts at
   position p gets rank p + 1, it has the same rank value in the input as the alternative argsort had put there, every other entry (the NaN ones) is left as it was,
   and therefore a strictly better input rank gives a strictly better output rank and the output ranks of a row are 1 .. k, each once. *)
From Coq Require Import Arith ZArith QArith List Bool Lia Permutation.
Import ListNotations.
From SCK Require Import Eat3 Eat3Proof.
From SCKGen Require Import StrictGen.

Section S.
Variable reorder : list nat -> list nat.
Hypothesis reorder_perm : forall l, Permutation (reorder l) l.
Variables (row : list (option Q)) (ranked : list nat).
Let m := length row.

(* ghost: the alternatives in the order in which the loop numbers them *)
Fixpoint sigma (fuel r : nat) : list nat :=
  match fuel with O => [] | S f =>
    if negb (r <? m)%nat then [] else
    let k := gen_strict_run row ranked m r (S m) 1 in
    match nth (nth r ranked O) row None with None => [] | Some _ =>
    let tied := map (fun j => nth (r + j) ranked O) (seq 0 k) in
    (if (1 <? k)%nat then reorder tied else tied) ++ sigma f (r + k) end
  end.
Definition rankq (p : nat) : option Q := Some (inject_Z (Z.of_nat p)).
Definition assign (s : list (option Q)) (l : list nat) (start : nat) : list (option Q) :=
  fold_left (fun s xj => upd s (fst xj) (rankq (snd xj))) (combine l (seq start (length l))) s.

Lemma combine_app' {A B} (l1 l2 : list A) (m1 m2 : list B) : length l1 = length m1 -> combine (l1 ++ l2) (m1 ++ m2) = combine l1 m1 ++ combine l2 m2.
Proof. revert m1. induction l1 as [|x t IH]; intros [|y u] H; cbn in *; try discriminate; [reflexivity|]. f_equal. apply IH. lia. Qed.
Lemma assign_eq s l r : gen_strict_assign s l r = assign s l (r + 1). Proof. reflexivity. Qed.
Lemma assign_app s l1 l2 start : assign s (l1 ++ l2) start = assign (assign s l1 start) l2 (start + length l1).
Proof.
  unfold assign. rewrite app_length, seq_app. rewrite combine_app' by (rewrite seq_length; reflexivity). rewrite fold_left_app. reflexivity.
Qed.
Lemma reorder_length l : length (reorder l) = length l. Proof. apply Permutation_length, reorder_perm. Qed.

Lemma loop_assign : forall fuel r s out, gen_strict_loop reorder row ranked m fuel r s = Some out -> out = assign s (sigma fuel r) (r + 1).
Proof.
  induction fuel as [|f IH]; intros r s out H; [discriminate|]. cbn [gen_strict_loop sigma] in *.
  destruct (negb (r <? m)%nat); [injection H as <-; reflexivity|].
  destruct (nth (nth r ranked O) row None) as [v|]; [|injection H as <-; reflexivity]. cbv zeta in *.
  set (k := gen_strict_run row ranked m r (S m) 1) in *. set (tied := map (fun j => nth (r + j) ranked O) (seq 0 k)) in *.
  set (g := if (1 <? k)%nat then reorder tied else tied) in *.
  assert (Hg : length g = k). { unfold g. destruct (1 <? k)%nat; [rewrite reorder_length|]; unfold tied; rewrite map_length, seq_length; reflexivity. }
  rewrite (IH _ _ _ H). rewrite assign_app, assign_eq, Hg. f_equal. lia.
Qed.

(* what a sequence of assignments does *)
Lemma assign_length s l start : length (assign s l start) = length s.
Proof. unfold assign. revert s start. induction l as [|x t IH]; intros s start; [reflexivity|]. cbn [length seq combine fold_left]. rewrite IH. apply length_upd. Qed.
Lemma assign_other : forall l s start x, ~ In x l -> nth x (assign s l start) None = nth x s None.
Proof.
  unfold assign. induction l as [|y t IH]; intros s start x Hn; [reflexivity|]. cbn [length seq combine fold_left fst snd].
  rewrite IH by (intro Hin; apply Hn; right; exact Hin). apply nth_upd_other. intro E. apply Hn. left. exact E.
Qed.
Lemma assign_nth : forall l s start p, NoDup l -> (forall x, In x l -> (x < length s)%nat) -> (p < length l)%nat -> nth (nth p l O) (assign s l start) None = rankq (start + p).
Proof.
  unfold assign. induction l as [|y t IH]; intros s start p Hnd Hlt Hp; [cbn in Hp; lia|]. inversion Hnd as [|? ? Hnin Hnd']; subst. cbn [length seq combine fold_left fst snd].
  destruct p as [|p]; cbn [nth].
  - fold (assign (upd s y (rankq start)) t (S start)). rewrite assign_other by exact Hnin. rewrite nth_upd_same by (apply Hlt; left; reflexivity). rewrite Nat.add_0_r. reflexivity.
  - cbn [length] in Hp. rewrite IH; [f_equal; lia|exact Hnd'|intros x Hx; rewrite length_upd; apply Hlt; right; exact Hx|lia].
Qed.

(* the run of equal ranks *)
Lemma run_spec r : forall fuel k, (1 <= k)%nat ->
  (forall j, (1 <= j < k)%nat -> gen_strict_eq (nth (nth (r + j) ranked O) row None) (nth (nth r ranked O) row None) = true) ->
  let k' := gen_strict_run row ranked m r fuel k in
  (k <= k')%nat /\ (k' <= Nat.max k (m - r))%nat /\ (forall j, (1 <= j < k')%nat -> gen_strict_eq (nth (nth (r + j) ranked O) row None) (nth (nth r ranked O) row None) = true).
Proof.
  induction fuel as [|f IH]; intros k Hk H; cbn [gen_strict_run]; [split; [lia|split; [lia|exact H]]|].
  destruct ((k <? m - r)%nat && gen_strict_eq (nth (nth (r + k) ranked O) row None) (nth (nth r ranked O) row None)) eqn:E; [|split; [lia|split; [lia|exact H]]].
  apply andb_prop in E. destruct E as [E1 E2]. apply Nat.ltb_lt in E1.
  destruct (IH (S k) ltac:(lia)) as [A [B C]].
  - intros j Hj. destruct (Nat.eq_dec j k) as [->|Hne]; [exact E2|apply H; lia].
  - split; [lia|]. split; [lia|exact C].
Qed.

(* ---- the order sigma ---- *)
Hypothesis ranked_perm : Permutation ranked (seq 0 m).
Lemma ranked_len : length ranked = m. Proof. rewrite (Permutation_length ranked_perm). apply seq_length. Qed.
Lemma ranked_nodup : NoDup ranked. Proof. apply (Permutation_NoDup (Permutation_sym ranked_perm)). apply seq_NoDup. Qed.
Lemma ranked_lt x : In x ranked -> (x < m)%nat. Proof. intro H. apply (Permutation_in _ ranked_perm) in H. apply in_seq in H. lia. Qed.

Lemma geq_refl a v : a = Some v -> gen_strict_eq a a = true. Proof. intros ->. cbn. apply Qeq_bool_iff. reflexivity. Qed.
Lemma geq_sym a b : gen_strict_eq a b = true -> gen_strict_eq b a = true.
Proof. destruct a, b; cbn; try discriminate. intro H. apply Qeq_bool_iff. apply Qeq_bool_iff in H. symmetry. exact H. Qed.
Lemma geq_trans a b c : gen_strict_eq a b = true -> gen_strict_eq b c = true -> gen_strict_eq a c = true.
Proof. destruct a, b, c; cbn; try discriminate. intros H1 H2. apply Qeq_bool_iff. apply Qeq_bool_iff in H1. apply Qeq_bool_iff in H2. rewrite H1. exact H2. Qed.

Lemma skipn_skipn' {A} (L : list A) : forall a r, skipn a (skipn r L) = skipn (r + a) L.
Proof. induction L as [|x t IH]; intros a r; [destruct a, r; reflexivity|]. destruct r as [|r]; [reflexivity|]. cbn [skipn plus]. apply IH. Qed.
Lemma firstn_add' {A} (X : list A) : forall a b, firstn (a + b) X = firstn a X ++ firstn b (skipn a X).
Proof. induction X as [|x t IH]; intros a b; [destruct a, b; reflexivity|]. destruct a as [|a]; [reflexivity|]. cbn [plus firstn skipn app]. f_equal. apply IH. Qed.
Lemma map_nth_firstn (L : list nat) : forall r k, (r + k <= length L)%nat -> map (fun j => nth (r + j) L O) (seq 0 k) = firstn k (skipn r L).
Proof.
  induction L as [|x t IH]; intros r k H; [cbn in H; assert (k = 0)%nat by lia; subst; destruct r; reflexivity|].
  destruct r as [|r].
  - cbn [skipn plus]. destruct k as [|k]; [reflexivity|]. cbn [seq map firstn nth]. f_equal. rewrite <- seq_shift, map_map. cbn [length] in H.
    specialize (IH 0%nat k ltac:(lia)). cbn [skipn plus] in IH. rewrite <- IH. apply map_ext. intro j. reflexivity.
  - cbn [skipn]. cbn [length] in H. rewrite <- (IH r k ltac:(lia)). apply map_ext. intro j. reflexivity.
Qed.
Lemma nth_firstn_skipn (L : list nat) r k p : (p < k)%nat -> (r + k <= length L)%nat -> nth p (firstn k (skipn r L)) O = nth (r + p) L O.
Proof. intros Hp H. rewrite <- (map_nth_firstn L r k H). rewrite (nth_map_seq (fun j => nth (r + j) L O) k p O Hp). reflexivity. Qed.

Lemma sigma_spec : forall fuel r, (r <= m)%nat -> let sg := sigma fuel r in
  (r + length sg <= m)%nat /\ Permutation sg (firstn (length sg) (skipn r ranked)) /\
  (forall p, (p < length sg)%nat -> exists v, nth (nth p sg O) row None = Some v /\ gen_strict_eq (nth (nth p sg O) row None) (nth (nth (r + p) ranked O) row None) = true).
Proof.
  induction fuel as [|f IH]; intros r Hr; cbn [sigma]; [cbn; split; [lia|split; [constructor|intros p Hp; lia]]|].
  destruct (Nat.ltb_spec r m) as [Hlt|Hge]; cbn [negb]; [|cbn; split; [lia|split; [constructor|intros p Hp; lia]]].
  destruct (nth (nth r ranked O) row None) as [v|] eqn:Ev; [|cbn; split; [lia|split; [constructor|intros p Hp; lia]]]. cbv zeta.
  set (k := gen_strict_run row ranked m r (S m) 1). set (tied := map (fun j => nth (r + j) ranked O) (seq 0 k)). set (g := if (1 <? k)%nat then reorder tied else tied).
  destruct (run_spec r (S m) 1 (le_n 1)) as [K1 [K2 K3]]; [intros j Hj; lia|]. fold k in K1, K2, K3.
  assert (Hk : (r + k <= m)%nat) by lia.
  assert (Htied : tied = firstn k (skipn r ranked)) by (unfold tied; apply map_nth_firstn; rewrite ranked_len; exact Hk).
  assert (Hgp : Permutation g tied) by (unfold g; destruct (1 <? k)%nat; [apply reorder_perm|apply Permutation_refl]).
  assert (Hgl : length g = k) by (rewrite (Permutation_length Hgp); unfold tied; rewrite map_length, seq_length; reflexivity).
  destruct (IH (r + k)%nat Hk) as [A [B C]]. set (sg' := sigma f (r + k)) in *.
  rewrite app_length, Hgl. split; [lia|]. split.
  - rewrite firstn_add'. apply Permutation_app; [rewrite <- Htied; exact Hgp|rewrite skipn_skipn'; exact B].
  - intros p Hp. destruct (Nat.lt_ge_cases p k) as [Hpk|Hpk].
    + rewrite app_nth1 by lia.
      assert (Hin : In (nth p g O) tied) by (apply (Permutation_in _ Hgp); apply nth_In; lia).
      unfold tied in Hin. apply in_map_iff in Hin. destruct Hin as [j [Ej Hj]]. apply in_seq in Hj. rewrite <- Ej.
      assert (Hhead : forall j0, (j0 < k)%nat -> gen_strict_eq (nth (nth (r + j0) ranked O) row None) (nth (nth r ranked O) row None) = true).
      { intros j0 Hj0. destruct j0 as [|j0]; [rewrite Nat.add_0_r; apply (geq_refl _ v Ev)|apply K3; lia]. }
      pose proof (Hhead j ltac:(lia)) as E1. pose proof (Hhead p Hpk) as E2.
      destruct (nth (nth (r + j) ranked O) row None) as [vj|] eqn:Evj; [|cbn in E1; discriminate].
      exists vj. split; [reflexivity|]. apply (geq_trans _ _ _ E1). apply geq_sym. exact E2.
    + rewrite app_nth2 by lia. rewrite Hgl. destruct (C (p - k)%nat ltac:(lia)) as [v' [E1 E2]]. exists v'. split; [exact E1|].
      replace (r + p)%nat with (r + k + (p - k))%nat by lia. exact E2.
Qed.

Definition sg0 : list nat := sigma (S m) 0.
Lemma in_firstn' {A} (x : A) : forall l k, In x (firstn k l) -> In x l.
Proof. induction l as [|y t IH]; intros [|k] H; cbn in *; try contradiction. destruct H as [H|H]; [left; exact H|right; apply (IH k H)]. Qed.
Lemma NoDup_firstn' {A} (l : list A) : NoDup l -> forall k, NoDup (firstn k l).
Proof. induction 1 as [|x t Hn Hd IH]; intro k; [destruct k; constructor|]. destruct k as [|k]; [constructor|]. cbn [firstn]. constructor; [intro Hin; apply Hn; apply (in_firstn' _ _ _ Hin)|apply IH]. Qed.

Lemma sg0_spec : (length sg0 <= m)%nat /\ Permutation sg0 (firstn (length sg0) ranked) /\
  (forall p, (p < length sg0)%nat -> exists v, nth (nth p sg0 O) row None = Some v /\ gen_strict_eq (nth (nth p sg0 O) row None) (nth (nth p ranked O) row None) = true).
Proof. destruct (sigma_spec (S m) 0 (Nat.le_0_l m)) as [A [B C]]. fold sg0 in A, B, C. cbn [skipn plus] in *. repeat split; assumption. Qed.
Lemma sg0_nodup : NoDup sg0.
Proof. destruct sg0_spec as [_ [B _]]. apply (Permutation_NoDup (Permutation_sym B)). apply NoDup_firstn', ranked_nodup. Qed.
Lemma sg0_lt x : In x sg0 -> (x < m)%nat.
Proof. destruct sg0_spec as [_ [B _]]. intro H. apply (Permutation_in _ B) in H. apply ranked_lt. exact (in_firstn' _ _ _ H). Qed.

(* position p of the loop's order gets rank p + 1; it carries the rank value the argsort position p carried; everything else is left alone *)
Theorem gen_strict_positions out p : gen_strict_row reorder row ranked = Some out -> (p < length sg0)%nat ->
  nth (nth p sg0 O) out None = rankq (p + 1) /\
  exists v, nth (nth p sg0 O) row None = Some v /\ gen_strict_eq (nth (nth p sg0 O) row None) (nth (nth p ranked O) row None) = true.
Proof.
  intros H Hp. unfold gen_strict_row in H. fold m in H. apply loop_assign in H. fold sg0 in H. subst out. split.
  - rewrite (assign_nth sg0 row (0 + 1) p sg0_nodup (fun x Hx => sg0_lt x Hx) Hp). f_equal. lia.
  - destruct sg0_spec as [_ [_ C]]. apply C. exact Hp.
Qed.
Theorem gen_strict_untouched out x : gen_strict_row reorder row ranked = Some out -> ~ In x sg0 -> nth x out None = nth x row None.
Proof. intros H Hn. unfold gen_strict_row in H. fold m in H. apply loop_assign in H. fold sg0 in H. subst out. apply assign_other. exact Hn. Qed.
Theorem gen_strict_length out : gen_strict_row reorder row ranked = Some out -> length out = m.
Proof. intros H. unfold gen_strict_row in H. fold m in H. apply loop_assign in H. subst out. apply assign_length. Qed.

(* the loop stops at the end of the row or at the first NaN of the order *)
Lemma sigma_done : forall fuel r, (r <= m)%nat -> (m - r < fuel)%nat ->
  let R := (r + length (sigma fuel r))%nat in R = m \/ ((R < m)%nat /\ nth (nth R ranked O) row None = None).
Proof.
  induction fuel as [|f IH]; intros r Hr Hf; [lia|]. cbn [sigma].
  destruct (Nat.ltb_spec r m) as [Hlt|Hge]; cbn [negb]; [|cbn [length]; left; lia].
  destruct (nth (nth r ranked O) row None) as [v|] eqn:Ev; [|cbn [length]; right; rewrite Nat.add_0_r; split; [exact Hlt|exact Ev]]. cbv zeta.
  set (k := gen_strict_run row ranked m r (S m) 1).
  destruct (run_spec r (S m) 1 (le_n 1)) as [K1 [K2 _]]; [intros j Hj; lia|]. fold k in K1, K2.
  set (tied := map (fun j => nth (r + j) ranked O) (seq 0 k)).
  assert (Hgl : length (if (1 <? k)%nat then reorder tied else tied) = k) by (destruct (1 <? k)%nat; [rewrite reorder_length|]; unfold tied; rewrite map_length, seq_length; reflexivity).
  rewrite app_length, Hgl. destruct (IH (r + k)%nat ltac:(lia) ltac:(lia)) as [E|E]; [left; lia|right]. rewrite Nat.add_assoc. exact E.
Qed.

(* numpy's argsort: ranks do not decrease along the order and the NaN entries come last *)
Hypothesis nan_last : forall p q, (p <= q)%nat -> (q < m)%nat -> nth (nth p ranked O) row None = None -> nth (nth q ranked O) row None = None.
Hypothesis sorted : forall p q x y, (p <= q)%nat -> (q < m)%nat -> nth (nth p ranked O) row None = Some x -> nth (nth q ranked O) row None = Some y -> (x <= y)%Q.

Theorem gen_strict_covers x v : (x < m)%nat -> nth x row None = Some v -> In x sg0.
Proof.
  intros Hx Hv. assert (Hin : In x ranked) by (apply (Permutation_in _ (Permutation_sym ranked_perm)); apply in_seq; lia).
  destruct (In_nth ranked x O Hin) as [q [Hq Eq]]. rewrite ranked_len in Hq.
  destruct sg0_spec as [_ [B _]]. apply (Permutation_in _ (Permutation_sym B)).
  destruct (sigma_done (S m) 0 (Nat.le_0_l m) ltac:(lia)) as [E|[E1 E2]]; fold sg0 in *; cbn [plus] in *.
  - rewrite E. rewrite <- ranked_len, firstn_all. exact Hin.
  - destruct (Nat.lt_ge_cases q (length sg0)) as [Hlt|Hge].
    + rewrite <- Eq. rewrite <- (firstn_skipn (length sg0) ranked) at 1. rewrite app_nth1 by (rewrite firstn_length, ranked_len; lia). apply nth_In. rewrite firstn_length, ranked_len. lia.
    + exfalso. pose proof (nan_last (length sg0) q Hge Hq E2) as Hn. rewrite Eq, Hv in Hn. discriminate.
Qed.

(* a strictly better (smaller) rank in the input gives a strictly better rank in the output *)
Theorem gen_strict_preserves_strict_comparisons out a b x y : gen_strict_row reorder row ranked = Some out -> (a < m)%nat -> (b < m)%nat ->
  nth a row None = Some x -> nth b row None = Some y -> (x < y)%Q ->
  exists ra rb, nth a out None = Some ra /\ nth b out None = Some rb /\ (ra < rb)%Q.
Proof.
  intros H Ha Hb Ea Eb Hxy.
  destruct (In_nth sg0 a O (gen_strict_covers a x Ha Ea)) as [pa [Hpa Epa]]. destruct (In_nth sg0 b O (gen_strict_covers b y Hb Eb)) as [pb [Hpb Epb]].
  destruct (gen_strict_positions out pa H Hpa) as [Ra [va [Eva Ga]]]. destruct (gen_strict_positions out pb H Hpb) as [Rb [vb [Evb Gb]]].
  rewrite Epa in *. rewrite Epb in *. exists (inject_Z (Z.of_nat (pa + 1))), (inject_Z (Z.of_nat (pb + 1))). split; [exact Ra|]. split; [exact Rb|].
  rewrite <- Zlt_Qlt. apply inj_lt. destruct (Nat.lt_ge_cases pa pb) as [Hlt|Hge]; [lia|exfalso].
  destruct sg0_spec as [Hlen _].
  rewrite Ea in Ga. rewrite Eb in Gb.
  destruct (nth (nth pa ranked O) row None) as [xa|] eqn:Exa; [|cbn in Ga; discriminate]. destruct (nth (nth pb ranked O) row None) as [yb|] eqn:Eyb; [|cbn in Gb; discriminate].
  cbn [gen_strict_eq] in Ga, Gb. apply Qeq_bool_iff in Ga. apply Qeq_bool_iff in Gb.
  pose proof (sorted pb pa yb xa Hge ltac:(lia) Eyb Exa) as Hle. rewrite <- Ga, <- Gb in Hle. apply (Qlt_irrefl x). eapply Qlt_le_trans; [exact Hxy|exact Hle].
Qed.
End S.

(* non-vacuity: ranks 2, 1, NaN, 1 with 'first' (sorting the tied columns 1, 3) *)
Example gen_strict_example :
  gen_strict_row (fun l => match l with [3; 1] => [1; 3] | _ => l end)%nat [Some (2 # 1); Some (1 # 1); None; Some (1 # 1)]%Q [3; 1; 0; 2]%nat = Some [Some (3 # 1); Some (1 # 1); None; Some (2 # 1)]%Q.
Proof. vm_compute. reflexivity. Qed.

Print Assumptions combine_app'.
Print Assumptions assign_eq.
Print Assumptions assign_app.
Print Assumptions reorder_length.
Print Assumptions loop_assign.
Print Assumptions assign_length.
Print Assumptions assign_other.
Print Assumptions assign_nth.
Print Assumptions run_spec.
Print Assumptions ranked_len.
Print Assumptions ranked_nodup.
Print Assumptions ranked_lt.
Print Assumptions geq_refl.
Print Assumptions geq_sym.
Print Assumptions geq_trans.
Print Assumptions skipn_skipn'.
Print Assumptions firstn_add'.
Print Assumptions map_nth_firstn.
Print Assumptions nth_firstn_skipn.
Print Assumptions sigma_spec.
Print Assumptions in_firstn'.
Print Assumptions NoDup_firstn'.
Print Assumptions sg0_spec.
Print Assumptions sg0_nodup.
Print Assumptions sg0_lt.
Print Assumptions gen_strict_positions.
Print Assumptions gen_strict_untouched.
Print Assumptions gen_strict_length.
Print Assumptions sigma_done.
Print Assumptions gen_strict_covers.
Print Assumptions gen_strict_preserves_strict_comparisons.
