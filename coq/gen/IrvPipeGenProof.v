(* The whole of Irving.scf with EVERY stage regenerated from the source - the glue (IrvScfGen.v), the shortlists (IrvInitGen.v), the level-wise rotation search
   with its bookkeeping (IrvAllGen.v on IrvRotGen.v), the sparse rotation poset (IrvPosetGen.v), the maximum-weight closed subset on the regenerated rotation
   weights (MwcsGen.v, IrvSmallGen.v) and the elimination (IrvSmallGen.v) - composed: whenever this pipeline returns a matching, the model Irving.irving returns
   the same one (shifted by the index fixer). Only the Gale-Shapley stage is taken from the model here; its own regeneration refines the model separately
   (GsResGenProof.v). *)
From Coq Require Import Arith ZArith List Bool Lia.
Import ListNotations.
From SCK Require Import Argsort FlowModel GSFinal Mwcs Irving.
From SCKGen Require Import IrvScfGen IrvScfGenProof IrvInitGen IrvInitGenProof IrvRotGen IrvRotGenProof IrvAllGen IrvAllGenProof IrvPosetGen IrvPosetGenProof MwcsGen MwcsGenProof IrvSmallGen IrvSmallGenProof.

Definition pipe_scf (ffuel fixer : nat) (V1 V2 : list (list Z)) (O1 O2 : list (list nat)) : option (list (nat * nat)) :=
  gen_irv_scf rot (list ((nat * nat) * nat)) (list (list nat)) (list (list Z)) inst_gs
    (fun M P1 P2 => gen_initial_lists asort M P1 P2)
    (fun l1 l2 => gen_find_all gen_find_rotations (length l1 * length l1 + 2) l1 l2)
    (fun rots l1 el => gen_poset rots l1 el)
    (fun P rots V1 V2 => gen_mwcs ffuel P (map (gen_rotation_weight V1 V2) rots)) sorted_nat gen_eliminate_rotations [] fixer V1 V2 O1 O2.

Lemma nodup_length_NoDup (l : list nat) : length (nodup Nat.eq_dec l) = length l -> NoDup l.
Proof.
  induction l as [|x t IH]; intro H; [constructor|]. cbn [nodup] in H. destruct (in_dec Nat.eq_dec x t) as [Hin|Hnin].
  - exfalso. assert (Hle : (length (nodup Nat.eq_dec t) <= length t)%nat).
    { clear. induction t as [|y r IHr]; [apply le_n|]. cbn [nodup]. destruct (in_dec Nat.eq_dec y r); cbn [length]; lia. }
    cbn [length] in H. lia.
  - cbn [length] in H. constructor; [exact Hnin|apply IH; lia].
Qed.

Theorem gen_irving_pipeline_is_model ffuel fixer V1 V2 P1 P2 out :
  pipe_scf ffuel fixer V1 V2 (map (map S) P1) (map (map S) P2) = Some out ->
  exists t res, irving P1 P2 V1 V2 ffuel = Some t /\ t_out t = Some res /\ out = map (fun ij : nat * nat => (fst ij + fixer, snd ij + fixer)%nat) res.
Proof.
  unfold pipe_scf, gen_irv_scf, inst_gs, irving. cbv zeta. rewrite !unshift_some, !unshift, !map_length.
  destruct (gs_res_run (map (map Some) P1) (map (map Some) P2) (fun _ => 1%nat) (length P1 * length P1 + 2)) as [M0|] eqn:Eg; [|discriminate].
  destruct (gen_irv_perfect M0 (length P1)) eqn:Ep; cbn [negb]; [|discriminate].
  unfold gen_irv_perfect in Ep. apply andb_prop in Ep. destruct Ep as [Ep Ew]. apply andb_prop in Ep. destruct Ep as [El Em].
  apply Nat.eqb_eq in El, Em, Ew.
  assert (Hm : NoDup (map fst M0)) by (apply nodup_length_NoDup; rewrite map_length; lia).
  assert (Hw : NoDup (map snd M0)) by (apply nodup_length_NoDup; rewrite map_length; lia).
  destruct (gen_initial_lists asort M0 P1 P2) as [[l1 l2]|] eqn:Ei; [|discriminate].
  destruct (gen_initial_lists_is_model M0 P1 P2 Hm Hw l1 l2 Ei) as [E1 E2]. subst l1 l2.
  destruct (gen_find_all gen_find_rotations _ (new_pl1 P1 P2 M0) (new_pl2 P1 P2 M0)) as [[rots el]|] eqn:Ea; [|discriminate].
  rewrite (gen_find_all_is_model gen_find_rotations _ _ _ (fun a b r E => gen_find_rotations_is_model a b r E) Ea).
  destruct (gen_poset rots (new_pl1 P1 P2 M0) el) as [Pp|] eqn:Epo; [|discriminate]. rewrite <- (gen_poset_is_model rots (new_pl1 P1 P2 M0) el Pp Epo).
  rewrite gen_mwcs_eq. replace (map (gen_rotation_weight V1 V2) rots) with (map (rot_weight V1 V2) rots) by (apply map_ext; intro rt; symmetry; apply gen_rotation_weight_eq).
  match goal with |- context [mwcs ?a ?b ?c] => destruct (mwcs a b c) as [cs0|] end; [|intro H0; discriminate H0]. rewrite gen_eliminate_rotations_eq.
  match goal with |- context [eliminate ?a ?b] => destruct (eliminate a b) as [res|] eqn:Ee end; [|intro H0; discriminate H0]. intro H. injection H as <-.
  eexists. exists res. split; [reflexivity|]. cbn [t_out]. split; reflexivity.
Qed.
Print Assumptions nodup_length_NoDup. Print Assumptions gen_irving_pipeline_is_model.
