(* Every definition GENERATED from the current Python source (ScoringGen.v, rebuilt on every run by
   harness/translate.py) equals the hand-written model the property theorems are about.  Statements and their proofs are
   committed; they are re-checked against the regenerated file on every run of C10 / C11 / C13. *)
From Coq Require Import ZArith QArith List Bool Lia String.
Import ListNotations.
From SCK Require Import Voting VoteExt ScoreProof GenLib GenUtil.
From SCKGen Require Import ScoringGen.
Local Open Scope Z_scope.

(* domain: complete profiles (every rank between 1 and m); robust against harmless syntactic variation of the elementwise expression: decide every integer comparison *)
Ltac weight_case :=
  repeat match goal with
  | |- context [?a =? ?b] => destruct (Z.eqb_spec a b)
  | |- context [?a <? ?b] => destruct (Z.ltb_spec a b)
  | |- context [?a <=? ?b] => destruct (Z.leb_spec a b)
  | |- context [?a >? ?b] => rewrite (Z.gtb_ltb a b)
  | |- context [?a >=? ?b] => rewrite (Z.geb_leb a b)
  end; cbn [negb]; try reflexivity; try (exfalso; lia); try (apply Qeq_refl); try (f_equal; lia).

Theorem gen_Plurality_is_model : forall k P m, rect P m -> complete P m -> forall j, (j < m)%nat ->
  (nth j (gen_score_Plurality k P) 0 == nth j (score Plurality k P) 0)%Q.
Proof. intros k P m HR HC. unfold gen_score_Plurality. cbv zeta. apply gen_elementwise_score; [exact HR|exact HC|]. intros x Hx. unfold weight. rewrite ?(ncols_rect P m HR). weight_case. Qed.
Print Assumptions gen_Plurality_is_model.

Theorem gen_Borda_is_model : forall k P m, rect P m -> complete P m -> forall j, (j < m)%nat ->
  (nth j (gen_score_Borda k P) 0 == nth j (score Borda k P) 0)%Q.
Proof.
  intros k P m HR HC. unfold gen_score_Borda. cbv zeta.
  apply gen_elementwise_score; [exact HR|exact HC|]. intros x Hx. unfold weight. rewrite ?(ncols_rect P m HR). weight_case.
Qed.
Print Assumptions gen_Borda_is_model.

Theorem gen_Veto_is_model : forall k P m, rect P m -> complete P m -> forall j, (j < m)%nat ->
  (nth j (gen_score_Veto k P) 0 == nth j (score Veto k P) 0)%Q.
Proof.
  intros k P m HR HC. unfold gen_score_Veto. cbv zeta.
  apply gen_elementwise_score; [exact HR|exact HC|]. intros x Hx. unfold weight. rewrite ?(ncols_rect P m HR). weight_case.
Qed.
Print Assumptions gen_Veto_is_model.

Theorem gen_KApproval_is_model : forall k P m, rect P m -> complete P m -> forall j, (j < m)%nat ->
  (nth j (gen_score_KApproval k P) 0 == nth j (score KApproval k P) 0)%Q.
Proof. intros k P m HR HC. unfold gen_score_KApproval. cbv zeta. apply gen_elementwise_score; [exact HR|exact HC|]. intros x Hx. unfold weight. rewrite ?(ncols_rect P m HR). weight_case. Qed.
Print Assumptions gen_KApproval_is_model.

(* Harmonic is computed by rank counts; on complete profiles (every rank between 1 and m) this is the sum of 1/rank *)
Theorem gen_Harmonic_is_model : forall k P m, rect P m -> complete P m ->
  forall j, (j < m)%nat -> (nth j (gen_score_Harmonic k P) 0 == nth j (score Harmonic k P) 0)%Q.
Proof. intros k P m HR Hc. exact (gen_bycount_score P m k HR Hc). Qed.
Print Assumptions gen_Harmonic_is_model.

Theorem gen_winners_is_model : forall s fixer, gen_winners s fixer = winners s fixer.
Proof. exact GenLib.gen_winners_is_model. Qed.
Print Assumptions gen_winners_is_model.

Theorem gen_break_tie_is_model : forall alts t inc o, gen_break_tie alts (tb_name t) inc o = break_tie alts t inc o.
Proof. intros alts [] inc o; reflexivity. Qed.
Print Assumptions gen_break_tie_is_model.
(* any other tie-breaker string is rejected (ValueError) *)
Theorem gen_break_tie_unknown : forall alts s inc o, s <> "random"%string -> s <> "first"%string -> s <> "accept"%string ->
  gen_break_tie alts s inc o = OErr.
Proof.
  intros alts s inc o H1 H2 H3. unfold gen_break_tie.
  destruct (String.eqb_spec s "random"); [contradiction|]. destruct (String.eqb_spec s "first"); [contradiction|].
  destruct (String.eqb_spec s "accept"); [contradiction|]. reflexivity.
Qed.
Print Assumptions gen_break_tie_unknown.

Theorem gen_scf_is_model : forall s fixer t o, gen_scf s fixer (tb_name t) o = break_tie (winners s fixer) t true o.
Proof. intros. unfold gen_scf. rewrite gen_break_tie_is_model, gen_winners_is_model. reflexivity. Qed.
Print Assumptions gen_scf_is_model.

Theorem gen_fixer_is_model : gen_fixer true = 0 /\ gen_fixer false = 1.
Proof. split; reflexivity. Qed.
Print Assumptions gen_fixer_is_model.

(* SocialWelfare.score: column share of the non-NaN utilities *)
Theorem gen_SocialWelfare_is_model : forall V m j, GenUtil.qrect V m -> (j < m)%nat ->
  (nth j (gen_score_SocialWelfare V) 0 == nth j (VoteExt.util_score V) 0)%Q.
Proof. exact GenUtil.gen_util_is_model. Qed.
Print Assumptions gen_SocialWelfare_is_model.
