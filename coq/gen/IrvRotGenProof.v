(* Irving.find_rotations regenerated from the source (IrvRotGen.v, exceptions as None): whenever it returns, the list of rotations is the model's
   Irving.find_rotations (the structure the stage correspondence of C03 / C17 compares with the implementation's rotations, level by level). *)
From Coq Require Import Arith ZArith List Bool Lia.
Import ListNotations.
From SCK Require Import FlowModel Mwcs Irving.
From SCKGen Require Import IrvRotGen.

Section R.
Variables (pl1 pl2 : list (list nat)).
Let n := length pl1.

Lemma entry_eq i o : gen_rot_G_entry pl1 pl2 i = Some o -> o = gsucc pl1 pl2 i.
Proof.
  unfold gen_rot_G_entry, gsucc. destruct (length (nthl pl1 i) <=? 1)%nat; [intro H; injection H as <-; reflexivity|].
  destruct (nth_error pl2 (nthn (nthl pl1 i) 1)) as [l2|] eqn:E; [|discriminate]. replace (nthl pl2 (nthn (nthl pl1 i) 1)) with l2 by (unfold nthl; symmetry; apply nth_error_nth; exact E).
  destruct l2 as [|x t]; [discriminate|]. intro H. injection H as <-. cbv zeta. cbn [last]. match goal with |- context [negb ?b] => destruct b end; reflexivity.
Qed.
Lemma omap_spec {A B} (f : A -> option B) (g : A -> B) : forall l r, (forall x y, In x l -> f x = Some y -> y = g x) -> gen_rot_omap f l = Some r -> r = map g l.
Proof.
  induction l as [|x t IH]; intros r H E; cbn [gen_rot_omap] in E; [injection E as <-; reflexivity|].
  destruct (f x) as [y|] eqn:Ex; [|discriminate]. destruct (gen_rot_omap f t) as [r'|] eqn:Et; [|discriminate]. injection E as <-. cbn [map]. f_equal.
  - apply (H x y (or_introl eq_refl) Ex).
  - apply IH; [intros x' y' Hin; apply H; right; exact Hin|reflexivity].
Qed.
Lemma nth_error_map_seq {A} (g : nat -> A) k i y : nth_error (map g (seq 0 k)) i = Some y -> y = g i.
Proof.
  intro H. assert (Hi : (i < k)%nat) by (apply nth_error_Some_lt in H || (assert (Hs : nth_error (map g (seq 0 k)) i <> None) by congruence; apply nth_error_Some in Hs; rewrite map_length, seq_length in Hs; exact Hs)).
  rewrite (nth_error_nth' _ (g 0%nat)) in H by (rewrite map_length, seq_length; exact Hi). injection H as <-. rewrite map_nth, seq_nth by exact Hi. reflexivity.
Qed.

Lemma walk_eq G : G = map (gsucc pl1 pl2) (seq 0 n) -> forall fuel cur cycle vis r,
  gen_rot_walk pl1 G fuel cur cycle vis = Some r -> walk pl1 pl2 fuel cur cycle vis = r.
Proof.
  intros HG. induction fuel as [|f IH]; intros cur cycle vis r H; [discriminate|]. cbn [gen_rot_walk walk] in *.
  destruct (nth_error vis cur) as [v|] eqn:Ev; [|discriminate]. rewrite (nth_error_nth vis cur false Ev). rewrite negb_involutive in H.
  destruct v; [injection H as <-; reflexivity|].
  destruct (nth_error G cur) as [g|] eqn:Eg; [|discriminate]. rewrite HG in Eg. apply nth_error_map_seq in Eg. subst g.
  destruct (gsucc pl1 pl2 cur) as [nx|]; [apply IH; exact H|injection H as <-; reflexivity].
Qed.

Lemma start_eq G : G = map (gsucc pl1 pl2) (seq 0 n) -> forall st start r,
  gen_rot_start pl1 G n (Some st) start = Some r -> rot_step pl1 pl2 st start = r.
Proof.
  intros HG [cycles vis] start r H. unfold gen_rot_start in H. unfold rot_step. fold n.
  destruct (nth_error vis start) as [v|] eqn:Ev; [|discriminate]. rewrite (nth_error_nth vis start false Ev).
  destruct v; [injection H as <-; reflexivity|].
  destruct (gen_rot_walk pl1 G (S n) start [] vis) as [[[cur cycle] vis']|] eqn:Ew; [|discriminate]. rewrite (walk_eq G HG _ _ _ _ _ Ew).
  destruct (nthl pl1 cur) as [|w rest] eqn:El; cbn [length] in H.
  - cbn in H. injection H as <-. reflexivity.
  - replace (0 <? S (length rest))%nat with true in H by (symmetry; apply Nat.ltb_lt; lia). unfold nthn in H. cbn [nth] in H.
    destruct (pindex_of (cur, w) cycle); injection H as <-; reflexivity.
Qed.

Theorem gen_find_rotations_is_model r : gen_find_rotations pl1 pl2 = Some r -> r = find_rotations pl1 pl2.
Proof.
  unfold gen_find_rotations, find_rotations. cbv zeta. fold n. destruct (negb (n =? length pl2)%nat); [discriminate|].
  destruct (gen_rot_omap (gen_rot_G_entry pl1 pl2) (seq 0 n)) as [G|] eqn:EG; [|discriminate].
  assert (HG : G = map (gsucc pl1 pl2) (seq 0 n)) by (apply (omap_spec _ _ _ _ (fun x y _ E => entry_eq x y E) EG)).
  assert (H : forall l st r0, fold_left (gen_rot_start pl1 G n) l (Some st) = Some r0 -> fold_left (rot_step pl1 pl2) l st = r0).
  { induction l as [|x t IH]; intros st r0 Hf; cbn [fold_left] in *; [injection Hf as <-; reflexivity|].
    destruct (gen_rot_start pl1 G n (Some st) x) as [st'|] eqn:Es.
    - rewrite (start_eq G HG st x st' Es). apply IH. exact Hf.
    - exfalso. assert (Hn : forall l0, fold_left (gen_rot_start pl1 G n) l0 None = None) by (induction l0; [reflexivity|assumption]). rewrite Hn in Hf. discriminate. }
  destruct (fold_left (gen_rot_start pl1 G n) (seq 0 n) (Some ([], repeat false n))) as [st|] eqn:Ef; [|discriminate]. cbn [option_map]. intro Hr. injection Hr as <-.
  rewrite (H _ _ _ Ef). reflexivity.
Qed.
End R.
Example gen_find_rotations_example : gen_find_rotations [[0; 1]; [1; 0]]%nat [[1; 0]; [0; 1]]%nat = Some [[(0, 0); (1, 1)]]%nat.
Proof. vm_compute. reflexivity. Qed.
Print Assumptions entry_eq. Print Assumptions omap_spec. Print Assumptions nth_error_map_seq. Print Assumptions walk_eq. Print Assumptions start_eq. Print Assumptions gen_find_rotations_is_model.
