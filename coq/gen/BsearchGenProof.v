(* The three binary searches GENERATED from the current Python source (BsearchGen.v) behave exactly like the model's
   ElicitM.bsearchP - the search the theorems of C14 / C15 / C16 are about - against every elicitor state: same result,
   same resulting state (memo table, counter, forwarded questions). *)
From Coq Require Import ZArith QArith List Bool Lia.
Import ListNotations.
From SCK Require Import ElicitM.
From SCKGen Require Import BsearchGen.
Local Open Scope Z_scope.

Ltac bs_step IH :=
  cbn [run]; match goal with |- context [elicit ?m ?fx ?V ?st ?k] => destruct (elicit m fx V st k) as [?st1 ?u] end;
  match goal with |- context [Qle_bool ?a ?b] => destruct (Qle_bool a b) end; apply IH.

Theorem gen_bsearch_KARV_is_model : forall memoize fixer V fuel rk i lo hi tau st,
  run memoize fixer V (gen_bsearch_KARV fuel rk i lo hi tau) st = run memoize fixer V (bsearchP fuel rk i lo hi tau) st.
Proof.
  intros memoize fixer V. induction fuel as [|f IH]; intros rk i lo hi tau st; [reflexivity|].
  cbn [gen_bsearch_KARV bsearchP]. destruct (hi - lo <=? 1); [reflexivity|]. cbv zeta. rewrite ?(Z.add_comm hi lo). bs_step IH.
Qed.
Print Assumptions gen_bsearch_KARV_is_model.
Theorem gen_bsearch_TSF_is_model : forall memoize fixer V fuel rk i lo hi tau st,
  run memoize fixer V (gen_bsearch_TSF fuel rk i lo hi tau) st = run memoize fixer V (bsearchP fuel rk i lo hi tau) st.
Proof.
  intros memoize fixer V. induction fuel as [|f IH]; intros rk i lo hi tau st; [reflexivity|].
  cbn [gen_bsearch_TSF bsearchP]. destruct (hi - lo <=? 1); [reflexivity|]. cbv zeta. rewrite ?(Z.add_comm hi lo). bs_step IH.
Qed.
Print Assumptions gen_bsearch_TSF_is_model.
Theorem gen_bsearch_Double_is_model : forall memoize fixer V fuel rk i lo hi tau st,
  run memoize fixer V (gen_bsearch_Double fuel rk i lo hi tau) st = run memoize fixer V (bsearchP fuel rk i lo hi tau) st.
Proof.
  intros memoize fixer V. induction fuel as [|f IH]; intros rk i lo hi tau st; [reflexivity|].
  cbn [gen_bsearch_Double bsearchP]. destruct (hi - lo <=? 1); [reflexivity|]. cbv zeta. rewrite ?(Z.add_comm hi lo). bs_step IH.
Qed.
Print Assumptions gen_bsearch_Double_is_model.
