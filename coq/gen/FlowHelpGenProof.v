(* flow_across_network and capacity_across_cut regenerated from the source (FlowHelpGen.v): the first returns the total flow on the entries leaving s whenever no entry
   enters s (and raises otherwise); the second the capacity leaving the cut minus the capacity entering it. *)
From Coq Require Import ZArith List Bool Lia.
Import ListNotations.
From SCK Require Import FlowModel.
From SCKGen Require Import FlowHelpGen.
Local Open Scope Z_scope.

Fixpoint zsum {A} (f : A -> Z) (l : list A) : Z := match l with [] => 0 | x :: t => f x + zsum f t end.

Lemma fan_fold s : forall flow a r,
  fold_left (fun ans e => match ans with None => None | Some a => let '((i, j), f) := e in let a := if i =? s then a + f else a in if j =? s then None else Some a end) flow (Some a) = Some r ->
  r = a + zsum (fun e : (Z * Z) * Z => if fst (fst e) =? s then snd e else 0) flow /\ forall e, In e flow -> snd (fst e) <> s.
Proof.
  induction flow as [|[[i j] f] t IH]; intros a r H; cbn [fold_left zsum] in *; [injection H as <-; split; [lia|intros e []]|].
  destruct (j =? s) eqn:Ej.
  - exfalso. assert (Hn : forall l, fold_left (fun ans e => match ans with None => None | Some a => let '((i, j), f) := e in let a := if i =? s then a + f else a in if j =? s then None else Some a end) l None = None) by (induction l; [reflexivity|assumption]).
    rewrite Hn in H. discriminate.
  - destruct (IH _ _ H) as [E Hin]. cbn [fst snd]. split; [destruct (i =? s); lia|].
    intros e [<-|He]; [cbn [fst snd]; apply Z.eqb_neq; exact Ej|apply Hin, He].
Qed.
Theorem gen_flow_across_network_spec flow s v : gen_flow_across_network flow s = Some v ->
  v = zsum (fun e : (Z * Z) * Z => if fst (fst e) =? s then snd e else 0) flow /\ forall e, In e flow -> snd (fst e) <> s.
Proof. intro H. destruct (fan_fold s flow 0 v H) as [E Hin]. split; [lia|exact Hin]. Qed.

Definition net_term (cut : list Z) (i : Z) (jc : Z * Z) : Z :=
  (if memZ i cut && negb (memZ (fst jc) cut) then snd jc else 0) - (if memZ (fst jc) cut && negb (memZ i cut) then snd jc else 0).
Lemma cac_inner cut i : forall l a,
  fold_left (fun ans jc => let ans := if memZ i cut && negb (memZ (fst jc) cut) then ans + snd jc else ans in if memZ (fst jc) cut && negb (memZ i cut) then ans - snd jc else ans) l a = a + zsum (net_term cut i) l.
Proof.
  induction l as [|jc t IH]; intro a; cbn [fold_left zsum]; [lia|]. rewrite IH. unfold net_term.
  destruct (memZ i cut && negb (memZ (fst jc) cut)), (memZ (fst jc) cut && negb (memZ i cut)); lia.
Qed.
Theorem gen_capacity_across_cut_spec G cut : gen_capacity_across_cut G cut = zsum (fun ia : Z * adjl => zsum (net_term cut (fst ia)) (snd ia)) G.
Proof.
  unfold gen_capacity_across_cut. assert (H : forall l a, fold_left (fun ans (ia : Z * adjl) => fold_left (fun ans jc => let ans := if memZ (fst ia) cut && negb (memZ (fst jc) cut) then ans + snd jc else ans in
      if memZ (fst jc) cut && negb (memZ (fst ia) cut) then ans - snd jc else ans) (snd ia) ans) l a = a + zsum (fun ia : Z * adjl => zsum (net_term cut (fst ia)) (snd ia)) l).
  { induction l as [|ia t IH]; intro a; cbn [fold_left zsum]; [lia|]. rewrite IH, cac_inner. lia. }
  rewrite H. lia.
Qed.
Example gen_flow_helpers_example :
  gen_flow_across_network [((0, 1), 2); ((0, 2), 1); ((1, 2), 1)] 0 = Some 3 /\ gen_flow_across_network [((1, 0), 1)] 0 = None /\
  gen_capacity_across_cut [(0, [(1, 2); (2, 1)]); (1, [(2, 1); (0, 4)]); (2, [])] [0] = 3 - 4.
Proof. vm_compute. repeat split; reflexivity. Qed.
Print Assumptions fan_fold. Print Assumptions gen_flow_across_network_spec. Print Assumptions cac_inner. Print Assumptions gen_capacity_across_cut_spec.
