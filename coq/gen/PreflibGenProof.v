(* Equivalence of the converters regenerated from preflib_utils.py's current source (PreflibGen.v) with the hand-written model Preflib.v
   that C19's theorems are about: numpy's scatter assignments `row[idx] = np.arange(a, b)` / `row[idx] = c` against the model's
   element-by-element placement with a running position, np.sort of the shifted indices against sorting before shifting. *)
From Coq Require Import Arith ZArith List Bool Lia.
Import ListNotations.
From SCK Require Import Preflib.
From SCKGen Require Import PreflibGen.
Local Open Scope Z_scope.

Lemma fold_left_ext {A B} (f g : A -> B -> A) : (forall a b, f a b = g a b) -> forall l a, fold_left f l a = fold_left g l a.
Proof. intros H l. induction l as [|b l IH]; intros a; [reflexivity|]. cbn [fold_left]. rewrite H. apply IH. Qed.
Lemma fold_left_map {A B C} (f : A -> B -> A) (g : C -> B) : forall l a, fold_left f (map g l) a = fold_left (fun a c => f a (g c)) l a.
Proof. induction l as [|c l IH]; intros a; [reflexivity|]. cbn [map fold_left]. apply IH. Qed.
Lemma fold_append {A B} (f : B -> list A) : forall L acc, fold_left (fun a x => a ++ f x) L acc = acc ++ flat_map f L.
Proof. induction L as [|x L IH]; intros acc; [cbn; rewrite app_nil_r; reflexivity|]. cbn [fold_left flat_map]. rewrite IH, app_assoc. reflexivity. Qed.

(* ---- np.arange and the scatter assignment ---- *)
Lemma arange_cons a n : arange a (a + Z.of_nat (S n)) = a :: arange (a + 1) (a + 1 + Z.of_nat n).
Proof.
  unfold arange. replace (Z.to_nat (a + Z.of_nat (S n) - a)) with (S n) by lia. replace (Z.to_nat (a + 1 + Z.of_nat n - (a + 1))) with n by lia.
  cbn [seq map]. f_equal; [lia|]. rewrite <- seq_shift, map_map. apply map_ext. intros i. lia.
Qed.
Lemma scatter_running : forall idx row p n, (length idx <= n)%nat ->
  scatter row idx (arange p (p + Z.of_nat n)) =
  fst (fold_left (fun (st : list (option Z) * Z) a => let '(r, k) := st in (upd r (Z.to_nat a) (Some k), k + 1)) idx (row, p)).
Proof.
  induction idx as [|a idx IH]; intros row p n Hn; [reflexivity|]. destruct n as [|n]; [simpl in Hn; lia|].
  rewrite arange_cons. unfold scatter. cbn [combine fold_left fst snd]. fold (scatter (upd row (Z.to_nat a) (Some p)) idx (arange (p + 1) (p + 1 + Z.of_nat n))).
  rewrite IH by (simpl in Hn; lia). reflexivity.
Qed.
Lemma running_snd : forall (idx : list Z) row p,
  snd (fold_left (fun (st : list (option Z) * Z) a => let '(r, k) := st in (upd r (Z.to_nat a) (Some k), k + 1)) idx (row, p)) = p + Z.of_nat (length idx).
Proof. induction idx as [|a idx IH]; intros row p; [cbn; lia|]. cbn [fold_left length]. rewrite IH. lia. Qed.

(* ---- np.sort after the shift by one = shift after sorting ---- *)
Lemma insZ_pred x l : insZ (x - 1) (map (fun a => a - 1) l) = map (fun a => a - 1) (insZ x l).
Proof.
  induction l as [|y l IH]; [reflexivity|]. cbn [map insZ]. replace (x - 1 <=? y - 1) with (x <=? y) by (destruct (Z.leb_spec x y), (Z.leb_spec (x - 1) (y - 1)); lia).
  destruct (x <=? y); [reflexivity|]. cbn [map]. rewrite IH. reflexivity.
Qed.
Lemma sortZ_pred l : sortZ (map (fun a => a - 1) l) = map (fun a => a - 1) (sortZ l).
Proof. induction l as [|x l IH]; [reflexivity|]. cbn [map sortZ fold_right]. fold (sortZ (map (fun a => a - 1) l)). fold (sortZ l). rewrite IH. apply insZ_pred. Qed.
Lemma insZ_length x l : length (insZ x l) = S (length l).
Proof. induction l as [|y l IH]; [reflexivity|]. cbn [insZ]. destruct (x <=? y); simpl; [reflexivity|rewrite IH; reflexivity]. Qed.
Lemma sortZ_length l : length (sortZ l) = length l.
Proof. induction l as [|x l IH]; [reflexivity|]. cbn [sortZ fold_right]. fold (sortZ l). rewrite insZ_length, IH. reflexivity. Qed.

(* ---- one indifference class ---- *)
Lemma class_accept row cur cls : scatter_const row (map (fun a => a - 1) cls) cur = place_class Accept row cur cls.
Proof. unfold scatter_const, place_class. apply fold_left_map. Qed.
Lemma class_first row cur cls :
  scatter row (sortZ (map (fun a => a - 1) cls)) (arange cur (Z.of_nat (length (sortZ (map (fun a => a - 1) cls))) + cur)) = place_class First row cur cls.
Proof.
  unfold place_class. rewrite Z.add_comm, scatter_running by reflexivity. rewrite sortZ_pred, fold_left_map.
  first [reflexivity | f_equal; apply fold_left_ext; intros [r k] a; reflexivity].
Qed.

Definition gpol (p : tiepol) : gtie := match p with Accept => GAccept | First => GFirst end.

Lemma ties_row_eq (init : list (option Z)) pol shuf order :
  fst (fold_left (fun (st_ : list (option Z) * Z) (tied_items : list Z) => let '(preference, current_rank) := st_ in
        let tied_items := map (fun a_ : Z => a_ - 1) tied_items in
        match gpol pol with
        | GAccept => let preference := scatter_const preference tied_items current_rank in (preference, current_rank + Z.of_nat (length tied_items))
        | GFirst => let tied_items := sortZ tied_items in
                    let preference := scatter preference tied_items (arange current_rank (Z.of_nat (length tied_items) + current_rank)) in (preference, current_rank + Z.of_nat (length tied_items))
        | GRandom => let tied_items := shuf tied_items in
                     let preference := scatter preference tied_items (arange current_rank (Z.of_nat (length tied_items) + current_rank)) in (preference, current_rank + Z.of_nat (length tied_items))
        end) order (init, 1)) =
  fst (fold_left (fun st cls => let '(r, cur) := st in match cls with [] => st | _ => (place_class pol r cur cls, cur + Z.of_nat (length cls)) end) order (init, 1)).
Proof.
  f_equal. apply fold_left_ext. intros [r cur] cls. cbv zeta. destruct pol; cbn [gpol].
  - rewrite class_accept, map_length. destruct cls; [cbn; f_equal; lia|reflexivity].
  - rewrite class_first, sortZ_length, map_length. destruct cls; [cbn; f_equal; lia|reflexivity].
Qed.

Theorem gen_toc_row_eq pol shuf m order : gen_toc_row (gpol pol) shuf m order = row_of TOC pol m order.
Proof. unfold gen_toc_row, row_of, init_row. cbv zeta. apply ties_row_eq. Qed.
Theorem gen_toi_row_eq pol shuf m order : gen_toi_row (gpol pol) shuf m order = row_of TOI pol m order.
Proof. unfold gen_toi_row, row_of, init_row. cbv zeta. apply ties_row_eq. Qed.
Theorem gen_cat_row_eq pol shuf m order : gen_cat_row (gpol pol) shuf m order = row_of CAT pol m order.
Proof.
  unfold gen_cat_row, row_of, init_row. cbv zeta. rewrite <- ties_row_eq with (shuf := shuf). f_equal. apply fold_left_ext. intros [r cur] cls.
  destruct cls as [|a cls]; [cbn; destruct pol; cbn; f_equal; lia|reflexivity].
Qed.
Print Assumptions gen_toc_row_eq. Print Assumptions gen_toi_row_eq. Print Assumptions gen_cat_row_eq.

(* ---- the strict converters work on flatten_strict()'s orders: the first element of every class ---- *)
Lemma strict_row_eq (init : list (option Z)) : forall (order : list (list Z)) p, (forall cls, In cls order -> cls <> []) ->
  fold_left (fun (st : list (option Z) * Z) a => let '(r, k) := st in (upd r (Z.to_nat a) (Some k), k + 1)) (map (fun a_ => a_ - 1) (map (hd 0) order)) (init, p) =
  fold_left (fun st cls => let '(r, p) := st in match cls with a :: _ => (upd r (Z.to_nat (a - 1)) (Some p), p + 1) | [] => st end) order (init, p).
Proof.
  intros order. revert init. induction order as [|cls order IH]; intros init p Hne; [reflexivity|].
  destruct cls as [|a cls]; [exfalso; apply (Hne []); [left; reflexivity|reflexivity]|].
  cbn [map hd fold_left]. apply IH. intros c Hc. apply Hne. right. exact Hc.
Qed.
Theorem gen_soc_row_eq pol m (order : list (list Z)) : (forall cls, In cls order -> cls <> []) -> (length order <= m)%nat ->
  gen_soc_row m (map (hd 0) order) = row_of SOC pol m order.
Proof.
  intros Hne Hlen. unfold gen_soc_row, row_of, init_row. cbv zeta. replace (Z.of_nat m + 1) with (1 + Z.of_nat m) by lia.
  rewrite scatter_running by (rewrite !map_length; exact Hlen). f_equal. apply strict_row_eq. exact Hne.
Qed.
Theorem gen_soi_row_eq pol m (order : list (list Z)) : (forall cls, In cls order -> cls <> []) ->
  gen_soi_row m (map (hd 0) order) = row_of SOI pol m order.
Proof.
  intros Hne. unfold gen_soi_row, row_of, init_row. cbv zeta. rewrite Z.add_comm.
  rewrite scatter_running by reflexivity. f_equal. apply strict_row_eq. exact Hne.
Qed.
Print Assumptions gen_soc_row_eq. Print Assumptions gen_soi_row_eq.

(* ---- the converters: guard and multiplicities ---- *)
Lemma kind_eqb_sym a b : kind_eqb a b = kind_eqb b a.
Proof. destruct a, b; reflexivity. Qed.
Lemma kind_eqb_eq a b : kind_eqb a b = true -> a = b.
Proof. destruct a, b; simpl; intros H; try reflexivity; discriminate. Qed.

Theorem gen_toc_eq actual pol shuf m votes : gen_toc actual (gpol pol) shuf m votes = convert_checked TOC actual pol m votes.
Proof.
  unfold gen_toc, convert_checked. rewrite (kind_eqb_sym actual TOC). destruct (kind_eqb TOC actual) eqn:E; [|reflexivity]. apply kind_eqb_eq in E. subst actual.
  cbn [negb]. f_equal. rewrite fold_append. cbn [app]. unfold convert. apply flat_map_ext. intros v. rewrite gen_toc_row_eq. reflexivity.
Qed.
Theorem gen_toi_eq actual pol shuf m votes : gen_toi actual (gpol pol) shuf m votes = convert_checked TOI actual pol m votes.
Proof.
  unfold gen_toi, convert_checked. rewrite (kind_eqb_sym actual TOI). destruct (kind_eqb TOI actual) eqn:E; [|reflexivity]. apply kind_eqb_eq in E. subst actual.
  cbn [negb]. f_equal. rewrite fold_append. cbn [app]. unfold convert. apply flat_map_ext. intros v. rewrite gen_toi_row_eq. reflexivity.
Qed.
Theorem gen_cat_eq actual pol shuf m votes : gen_cat actual (gpol pol) shuf m votes = convert_checked CAT actual pol m votes.
Proof.
  unfold gen_cat, convert_checked. rewrite (kind_eqb_sym actual CAT). destruct (kind_eqb CAT actual) eqn:E; [|reflexivity]. apply kind_eqb_eq in E. subst actual.
  cbn [negb]. f_equal. rewrite fold_append. cbn [app]. unfold convert. apply flat_map_ext. intros v. rewrite gen_cat_row_eq. reflexivity.
Qed.
Definition flat (votes : list (list (list Z) * nat)) : list (list Z * nat) := map (fun v => (map (hd 0) (fst v), snd v)) votes.
Theorem gen_soc_eq actual pol m votes : (forall v cls, In v votes -> In cls (fst v) -> cls <> []) -> (forall v, In v votes -> (length (fst v) <= m)%nat) ->
  gen_soc actual m (flat votes) = convert_checked SOC actual pol m votes.
Proof.
  intros Hne Hlen. unfold gen_soc, convert_checked. rewrite (kind_eqb_sym actual SOC). destruct (kind_eqb SOC actual) eqn:E; [|reflexivity]. apply kind_eqb_eq in E. subst actual.
  cbn [negb]. f_equal. rewrite fold_append. cbn [app]. unfold convert, flat. rewrite flat_map_concat_map, map_map, <- flat_map_concat_map.
  induction votes as [|v votes IH]; [reflexivity|]. cbn [flat_map fst snd]. rewrite (gen_soc_row_eq pol).
  - f_equal. apply IH; intros; [eapply Hne; [right; eassumption|assumption]|apply Hlen; right; assumption].
  - intros cls Hc. apply (Hne v); [left; reflexivity|exact Hc].
  - apply Hlen. left. reflexivity.
Qed.
Theorem gen_soi_eq actual pol m votes : (forall v cls, In v votes -> In cls (fst v) -> cls <> []) ->
  gen_soi actual m (flat votes) = convert_checked SOI actual pol m votes.
Proof.
  intros Hne. unfold gen_soi, convert_checked. rewrite (kind_eqb_sym actual SOI). destruct (kind_eqb SOI actual) eqn:E; [|reflexivity]. apply kind_eqb_eq in E. subst actual.
  cbn [negb]. f_equal. rewrite fold_append. cbn [app]. unfold convert, flat. rewrite flat_map_concat_map, map_map, <- flat_map_concat_map.
  induction votes as [|v votes IH]; [reflexivity|]. cbn [flat_map fst snd]. rewrite (gen_soi_row_eq pol).
  - f_equal. apply IH; intros; eapply Hne; [right; eassumption|assumption].
  - intros cls Hc. apply (Hne v); [left; reflexivity|exact Hc].
Qed.
Print Assumptions gen_toc_eq. Print Assumptions gen_toi_eq. Print Assumptions gen_cat_eq. Print Assumptions gen_soc_eq. Print Assumptions gen_soi_eq.
(* auxiliary lemmas *)
Print Assumptions fold_left_ext.
Print Assumptions fold_left_map.
Print Assumptions fold_append.
Print Assumptions arange_cons.
Print Assumptions scatter_running.
Print Assumptions running_snd.
Print Assumptions insZ_pred.
Print Assumptions sortZ_pred.
Print Assumptions insZ_length.
Print Assumptions sortZ_length.
Print Assumptions class_accept.
Print Assumptions class_first.
Print Assumptions ties_row_eq.
Print Assumptions strict_row_eq.
Print Assumptions kind_eqb_sym.
Print Assumptions kind_eqb_eq.
