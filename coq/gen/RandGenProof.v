(* Equivalence of the model regenerated from randomized_scoring.py (RandGen.v) with VoteExt.rand_probs, the object of C13's theorems
   about the randomized scoring rules. *)
From Coq Require Import ZArith QArith List Bool Lia.
Import ListNotations.
From SCK Require Import VoteExt VoteExtProof.
From SCKGen Require Import RandGen.

Theorem gen_rand_p_eq s : gen_rand_p s = rand_probs s.
Proof. reflexivity. Qed.
Theorem gen_rand_population_spec s : gen_rand_population s = seq 0 (length s) /\ length (gen_rand_p s) = length (gen_rand_population s).
Proof. split; [reflexivity|]. unfold gen_rand_p, gen_rand_population. rewrite map_length, seq_length. reflexivity. Qed.
(* every randomized rule samples from the scores of the deterministic rule of the same name *)
Theorem gen_rand_rule_same i : gen_rand_rule i = i.
Proof. do 5 (destruct i as [|i]; [reflexivity|]). reflexivity. Qed.
(* the index convention only shifts the reported alternative *)
Theorem gen_rand_scf_shift s smp : (gen_rand_scf false s smp = gen_rand_scf true s smp + 1)%Z.
Proof. unfold gen_rand_scf, gen_rand_fixer. lia. Qed.
(* an alternative the sampler can draw (positive probability in the vector it is handed) has positive score *)
Theorem gen_rand_scf_support s j x p : (forall y, In y s -> 0 <= y)%Q -> (0 < sumQl s)%Q ->
  nth_error s j = Some x -> nth_error (gen_rand_p s) j = Some p -> ((0 < p)%Q <-> (0 < x)%Q).
Proof. rewrite gen_rand_p_eq. apply rand_support. Qed.
Theorem gen_rand_p_sums_to_one s : (0 < sumQl s)%Q -> (sumQl (gen_rand_p s) == 1)%Q.
Proof. rewrite gen_rand_p_eq. apply rand_probs_sum_one. Qed.
Print Assumptions gen_rand_p_eq. Print Assumptions gen_rand_population_spec. Print Assumptions gen_rand_rule_same.
Print Assumptions gen_rand_scf_shift. Print Assumptions gen_rand_scf_support. Print Assumptions gen_rand_p_sums_to_one.
