(* MatchTwoQueries.get_simulated_cardinal_profile and LambdaPRV.score regenerated from the source (M2qGen.v) as query programs: run under any elicitor
   state they behave exactly as the models ElicitRules.m2qP / prvP - same questions in the same order, same result - which are the objects of the
   theorems of C14 (sound lower bounds), C15 (query budget: two questions per agent / lambda per voter) and C16. *)
From Coq Require Import Arith ZArith QArith List Bool Lia.
Import ListNotations.
From SCK Require Import ElicitM ElicitRun ElicitRules ElicitSpecProof.
From SCKGen Require Import M2qGen.
Local Open Scope Z_scope.

Lemma nth_map_seq0' {A} (f : nat -> A) d n i : (i < n)%nat -> nth i (map f (seq 0 n)) d = f i.
Proof. intros H. rewrite (nth_indep _ d (f O)) by (rewrite map_length, seq_length; exact H). rewrite map_nth, seq_nth by exact H. reflexivity. Qed.

Section R.
Variables (mem : bool) (fx : Z) (V : key -> Q).

Lemma run_foldP_map {A B S} (f : S -> B -> prog S) (h : A -> B) : forall l s st,
  run mem fx V (foldP f (map h l) s) st = run mem fx V (foldP (fun s a => f s (h a)) l s) st.
Proof.
  induction l as [|x t IH]; intros s st; [reflexivity|]. cbn [map]. rewrite !run_foldP_cons.
  destruct (run mem fx V (f s (h x)) st) as [s' st1]. apply IH.
Qed.
Lemma run_foldP_ext_inv {A S} (I : S -> Prop) (f g : S -> A -> prog S) : forall l,
  (forall s x st, In x l -> I s -> run mem fx V (f s x) st = run mem fx V (g s x) st) ->
  (forall s x st s' st', In x l -> I s -> run mem fx V (g s x) st = (s', st') -> I s') ->
  forall s st, I s -> run mem fx V (foldP f l s) st = run mem fx V (foldP g l s) st.
Proof.
  induction l as [|x t IH]; intros Hfg Hpres s st Hs; [reflexivity|]. rewrite !run_foldP_cons. rewrite (Hfg s x st (or_introl eq_refl) Hs).
  destruct (run mem fx V (g s x) st) as [s' st1] eqn:E. apply IH.
  - intros s0 y st0 Hy. apply Hfg. right. exact Hy.
  - intros s0 y st0 s1 st2 Hy. apply Hpres. right. exact Hy.
  - exact (Hpres s x st s' st1 (or_introl eq_refl) Hs E).
Qed.

(* ---- lambda-PRV ---- *)
Theorem gen_prv_is_model profile lam st :
  let n := length profile in let m := length (nth 0 profile []) in let ranked := map rank_list profile in
  let top := map (fun i => map (fun p => rkat (nth i ranked []) (Z.of_nat p)) (seq 0 lam)) (seq 0 n) in
  run mem fx V (gen_prv_score top n m) st = run mem fx V (prvP profile lam) st.
Proof.
  intros n m ranked top. unfold gen_prv_score, prvP. fold n m ranked.
  set (h := fun ip : nat * nat => (fst ip, rkat (nth (fst ip) ranked []) (Z.of_nat (snd ip)))).
  assert (E : forall is_, (forall i, In i is_ -> (i < n)%nat) ->
    flat_map (fun i_ => map (fun j_ => (i_, j_)) (nth i_ top [])) is_ = map h (flat_map (fun i => map (fun p => (i, p)) (seq 0 lam)) is_)).
  { induction is_ as [|i t IH]; intro Hlt; [reflexivity|]. cbn [flat_map]. rewrite map_app. f_equal; [|apply IH; intros j Hj; apply Hlt; right; exact Hj].
    unfold top. rewrite (nth_map_seq0' _ [] n i (Hlt i (or_introl eq_refl))). rewrite !map_map. reflexivity. }
  rewrite (E (seq 0 n)) by (intros i Hi; apply in_seq in Hi; lia). rewrite run_foldP_map. reflexivity.
Qed.

(* ---- Match-TwoQueries ---- *)
Lemma fold_comm {A B} (f : A -> B -> A) : (forall s a b, f (f s a) b = f (f s b) a) -> forall l s a, f (fold_left f l s) a = fold_left f l (f s a).
Proof. intros Hc. induction l as [|x t IH]; intros s a; [reflexivity|]. cbn [fold_left]. rewrite IH, Hc. reflexivity. Qed.
Lemma fold_rev_comm {A B} (f : A -> B -> A) : (forall s a b, f (f s a) b = f (f s b) a) -> forall l s, fold_left f (rev l) s = fold_left f l s.
Proof. intros Hc. induction l as [|x t IH]; intro s; [reflexivity|]. cbn [rev fold_left]. rewrite fold_left_app. cbn [fold_left]. rewrite IH. apply fold_comm. exact Hc. Qed.
Lemma updz_comm_same {A} (v : A) : forall (l : list A) a b, updz (updz l a v) b v = updz (updz l b v) a v.
Proof. induction l as [|x t IH]; intros a b; [destruct a, b; reflexivity|]. destruct a as [|a], b as [|b]; cbn [updz]; try reflexivity. f_equal. apply IH. Qed.

Lemma copy_spec rk a v : forall fuel cr row, (Z.to_nat cr <= fuel)%nat -> (Z.to_nat a < length row)%nat -> nth (Z.to_nat a) row 0%Q = v ->
  gen_m2q_copy rk a fuel cr row = fold_left (fun rw p => updz rw (Z.to_nat (rkat rk (Z.of_nat p))) v) (rev (seq 1 (Z.to_nat cr - 1))) row.
Proof.
  induction fuel as [|f IH]; intros cr row Hf Ha Hv.
  - replace (Z.to_nat cr - 1)%nat with 0%nat by lia. reflexivity.
  - cbn [gen_m2q_copy]. destruct (Z.gtb_spec cr 1) as [Hgt|Hle].
    + replace (Z.to_nat cr - 1)%nat with (S (Z.to_nat (cr - 1) - 1)) by lia. rewrite seq_S, rev_app_distr. cbn [rev app fold_left].
      replace (Z.of_nat (1 + (Z.to_nat (cr - 1) - 1))) with (cr - 1) by lia. rewrite Hv. apply IH; [lia|rewrite updz_length; exact Ha|].
      destruct (Nat.eq_dec (Z.to_nat (rkat rk (cr - 1))) (Z.to_nat a)) as [E|E]; [rewrite E; apply updz_nth_same; exact Ha|rewrite updz_nth_other by exact E; exact Hv].
    + replace (Z.to_nat cr - 1)%nat with 0%nat by lia. reflexivity.
Qed.

Theorem gen_m2q_is_model profile st :
  let n := length profile in let m := length (nth 0 profile []) in let ranked := map rank_list profile in let A := rootn_sd profile in
  (forall i, (i < n)%nat -> 0 <= nth i A 0 /\ (Z.to_nat (nth i A 0%Z) < m)%nat /\ nth (Z.to_nat (nth i A 0)) (nth i profile []) 0 <= Z.of_nat m) ->
  run mem fx V (gen_m2q profile ranked A n m) st = run mem fx V (m2qP profile gen_m2q_epsilon) st.
Proof.
  intros n m ranked A HA. unfold gen_m2q, m2qP. fold n m ranked A. rewrite !run_bind. unfold askfav.
  destruct (run mem fx V (mapP (fun i_ => Ask (Z.of_nat i_, rkat (nth i_ ranked []) 0) (fun v_ => Ret v_)) (seq 0 n)) st) as [vfav st1]. cbv zeta.
  apply (run_foldP_ext_inv (fun vt : list (list Q) => length vt = n /\ forall i, (i < n)%nat -> length (nth i vt []) = m)).
  - intros vt i st0 Hi [Hlen Hrows]. apply in_seq in Hi. destruct (HA i ltac:(lia)) as [H0 [Hm Hr]]. cbn [run].
    destruct (elicit mem fx V st0 (Z.of_nat i, nth i A 0)) as [st' v]. cbn [run]. f_equal. f_equal.
    rewrite (copy_spec (nth i ranked []) (nth i A 0) v); [|lia|rewrite updz_length, Hrows by lia; exact Hm|apply updz_nth_same; rewrite Hrows by lia; exact Hm].
    rewrite fold_rev_comm by (intros s a b; apply updz_comm_same). f_equal. f_equal. lia.
  - intros vt i st0 vt' st' Hi [Hlen Hrows] Hrun. apply in_seq in Hi. cbn [run] in Hrun.
    destruct (elicit mem fx V st0 (Z.of_nat i, nth i A 0)) as [st2 v]. cbn [run] in Hrun. injection Hrun as <- _. split; [rewrite updz_length; exact Hlen|].
    intros k Hk. destruct (Nat.eq_dec i k) as [->|Hne].
    + rewrite updz_nth_same by lia. rewrite fold_updz_length, updz_length. apply Hrows. exact Hk.
    + rewrite updz_nth_other by exact Hne. apply Hrows. exact Hk.
  - split; [rewrite map_length, seq_length; reflexivity|]. intros i Hi. rewrite (nth_map_seq0' _ [] n i Hi). rewrite updz_length. apply repeat_length.
Qed.
End R.
Theorem gen_m2q_fixer_shift : gen_m2q_fixer false = gen_m2q_fixer true + 1. Proof. reflexivity. Qed.
(* non-vacuity: the hypothesis of gen_m2q_is_model on a 3 x 3 profile *)
Example gen_m2q_hyp_example : let profile := [[1; 2; 3]; [1; 3; 2]; [2; 1; 3]] in let A := rootn_sd profile in
  forall i, (i < 3)%nat -> 0 <= nth i A 0 /\ (Z.to_nat (nth i A 0%Z) < 3)%nat /\ nth (Z.to_nat (nth i A 0)) (nth i profile []) 0 <= 3.
Proof. intros profile A i Hi. destruct i as [|[|[|i]]]; [vm_compute; repeat split; try discriminate; lia..|lia]. Qed.

Print Assumptions nth_map_seq0'.
Print Assumptions run_foldP_map.
Print Assumptions run_foldP_ext_inv.
Print Assumptions gen_prv_is_model.
Print Assumptions fold_comm.
Print Assumptions fold_rev_comm.
Print Assumptions updz_comm_same.
Print Assumptions copy_spec.
Print Assumptions gen_m2q_is_model.
Print Assumptions gen_m2q_fixer_shift.
