(* Equivalence of the second regenerated part of flow.py (BipGen.v) with FlowModel.v / BipModel.v. The code fills Python dicts key
   by key; the models are lists written down at once: they agree whenever the keys inserted are pairwise different
   (for a dict of edges: no parallel edges; for the network: X, Y, -1, -2 pairwise different), which is stated. *)
From Coq Require Import Arith ZArith List Bool Lia.
Import ListNotations.
From SCK Require Import FlowModel BipModel.
From SCKGen Require Import FlowGen FlowGenProof BipGen.
Local Open Scope Z_scope.

Lemma nodup_app_r {A} (l1 l2 : list A) : NoDup (l1 ++ l2) -> NoDup l2.
Proof. induction l1 as [|x l1 IH]; intros H; [exact H|]. inversion H; subst. apply IH. assumption. Qed.
Lemma nodup_app_l {A} (l1 l2 : list A) : NoDup (l1 ++ l2) -> NoDup l1.
Proof. induction l1 as [|x l1 IH]; intros H; [constructor|]. inversion H as [|? ? Hx Hl]; subst. constructor; [intros Hin; apply Hx; rewrite in_app_iff; left; exact Hin|apply IH; exact Hl]. Qed.
Lemma nodup_app_disj {A} (l1 l2 : list A) x : NoDup (l1 ++ l2) -> In x l1 -> In x l2 -> False.
Proof. induction l1 as [|y l1 IH]; intros H H1 H2; [destruct H1|]. inversion H as [|? ? Hy Hl]; subst. destruct H1 as [->|H1]; [apply Hy; rewrite in_app_iff; right; exact H2|apply IH; assumption]. Qed.

Lemma pair_eqb_true a b : pair_eqb a b = true <-> a = b.
Proof. destruct a as [a1 a2], b as [b1 b2]. unfold pair_eqb. cbn [fst snd]. rewrite andb_true_iff, !Z.eqb_eq. split; [intros [-> ->]; reflexivity|intros H; injection H; auto]. Qed.
Lemma fset_absent (f : flowmap) k v : ~ In k (map fst f) -> fset f k v = f ++ [(k, v)].
Proof.
  induction f as [|[k' v'] r IH]; intros H; [reflexivity|]. cbn [fset]. destruct (pair_eqb k k') eqn:E.
  - apply pair_eqb_true in E. exfalso. apply H. left. symmetry. exact E.
  - cbn [app]. rewrite IH; [reflexivity|]. intros Hin. apply H. right. exact Hin.
Qed.
Lemma fold_fset_fresh (g : Z * Z -> Z) : forall ks acc, NoDup ks -> (forall k, In k ks -> ~ In k (map fst acc)) ->
  fold_left (fun a k => fset a k (g k)) ks acc = acc ++ map (fun k => (k, g k)) ks.
Proof.
  induction ks as [|k ks IH]; intros acc Hnd Hfresh; [cbn; rewrite app_nil_r; reflexivity|]. cbn [fold_left map].
  inversion Hnd as [|? ? Hk Hnd']; subst. rewrite fset_absent by (apply Hfresh; left; reflexivity). rewrite IH; [rewrite <- app_assoc; reflexivity|exact Hnd'|].
  intros k' Hk' Hin. rewrite map_app, in_app_iff in Hin. destruct Hin as [Hin|[<-|[]]]; [apply (Hfresh k'); [right; exact Hk'|exact Hin]|apply Hk; exact Hk'].
Qed.
Definition edge_keys (G : graph) : list (Z * Z) := flat_map (fun ka => map (fun e => (fst ka, fst e)) (snd ka)) G.
Lemma nested_fold (g : Z * Z -> Z) : forall G acc,
  fold_left (fun (a : flowmap) (ka : Z * adjl) => fold_left (fun (a : flowmap) (e : Z * Z) => fset a (fst ka, fst e) (g (fst ka, fst e))) (snd ka) a) G acc =
  fold_left (fun a k => fset a k (g k)) (edge_keys G) acc.
Proof.
  assert (Hin : forall (i : Z) es acc, fold_left (fun (a : flowmap) (e : Z * Z) => fset a (i, fst e) (g (i, fst e))) es acc =
                                     fold_left (fun a k => fset a k (g k)) (map (fun e : Z * Z => (i, fst e)) es) acc).
  { intros i es. induction es as [|e es IHe]; intros acc; [reflexivity|]. cbn [map fold_left]. apply IHe. }
  induction G as [|ka G IH]; intros acc; [reflexivity|]. cbn [fold_left edge_keys flat_map]. rewrite fold_left_app, IH, Hin. reflexivity.
Qed.
(* the reported flow = the model's list of (edge, value), provided the network has no parallel edges *)
Theorem gen_flow_final_eq G fl : NoDup (edge_keys G) ->
  gen_flow_final G fl = flat_map (fun ka => map (fun e => ((fst ka, fst e), fget fl (fst ka, fst e))) (snd ka)) G.
Proof.
  intros Hnd. unfold gen_flow_final. cbv zeta. rewrite (nested_fold (fget fl)). rewrite fold_fset_fresh; [|exact Hnd|intros k _ []].
  cbn [app]. unfold edge_keys. induction G as [|ka G IH]; [reflexivity|]. cbn [flat_map]. rewrite map_app, map_map.
  rewrite IH; [reflexivity|]. cbn [edge_keys flat_map] in Hnd. apply nodup_app_r in Hnd. exact Hnd.
Qed.
Print Assumptions gen_flow_final_eq.

(* ---- the network ---- *)
Lemma dset_absent (N : graph) k a : ~ In k (map fst N) -> dset N k a = N ++ [(k, a)].
Proof.
  induction N as [|[k0 a0] r IH]; intros H; [reflexivity|]. cbn [dset]. destruct (k0 =? k) eqn:E.
  - apply Z.eqb_eq in E. exfalso. apply H. left. exact E.
  - cbn [app]. rewrite IH; [reflexivity|]. intros Hin. apply H. right. exact Hin.
Qed.
Lemma fold_dset_fresh (f : Z -> adjl) : forall L N, NoDup L -> (forall k, In k L -> ~ In k (map fst N)) ->
  fold_left (fun (N : graph) (v : Z) => dset N v (f v)) L N = N ++ map (fun v => (v, f v)) L.
Proof.
  induction L as [|k L IH]; intros N Hnd Hfresh; [cbn; rewrite app_nil_r; reflexivity|]. cbn [fold_left map].
  inversion Hnd as [|? ? Hk Hnd']; subst. rewrite dset_absent by (apply Hfresh; left; reflexivity). rewrite IH; [rewrite <- app_assoc; reflexivity|exact Hnd'|].
  intros k' Hk' Hin. rewrite map_app, in_app_iff in Hin. destruct Hin as [Hin|[<-|[]]]; [apply (Hfresh k'); [right; exact Hk'|exact Hin]|apply Hk; exact Hk'].
Qed.
Theorem gen_net_eq G X Y : NoDup (X ++ [-1; -2] ++ Y) -> gen_net G X Y = net G X Y.
Proof.
  intros Hnd. unfold gen_net, net. cbv zeta.
  assert (HX : NoDup X) by (apply nodup_app_l in Hnd; exact Hnd).
  rewrite (fold_dset_fresh (fun v => map (fun y : Z => (y, 1)) (adj G v))) by (auto; intros k _ []). cbn [app].
  set (NX := map (fun v : Z => (v, map (fun y : Z => (y, 1)) (adj G v)) : Z * adjl) X).
  assert (KX : @map (Z * adjl) Z fst NX = X) by (unfold NX; rewrite map_map; cbn [fst]; apply map_id).
  assert (H1 : ~ In (-1) X). { intros Hin. apply (nodup_app_disj _ _ (-1) Hnd Hin). left. reflexivity. }
  rewrite (dset_absent NX (-1)) by (rewrite KX; exact H1).
  assert (Hnd2 : NoDup ((X ++ [-1]) ++ [-2] ++ Y)) by (rewrite <- app_assoc; exact Hnd).
  assert (H2 : ~ In (-2) (X ++ [-1])). { intros Hin. apply (nodup_app_disj _ _ (-2) Hnd2 Hin). left. reflexivity. }
  rewrite (dset_absent (NX ++ _) (-2)) by (rewrite map_app, KX; exact H2).
  assert (Hnd3 : NoDup (((X ++ [-1]) ++ [-2]) ++ Y)) by (rewrite <- app_assoc; exact Hnd2).
  rewrite (fold_dset_fresh (fun _ => [(-2, 1)])).
  - rewrite <- !app_assoc. reflexivity.
  - apply nodup_app_r in Hnd3. exact Hnd3.
  - intros k Hk Hin. rewrite !map_app, KX in Hin. cbn [map fst] in Hin. exact (nodup_app_disj _ _ k Hnd3 Hin Hk).
Qed.
Print Assumptions gen_net_eq.

(* ---- the read-off ---- *)
Lemma fold_append {A B} (f : B -> list A) : forall L acc, fold_left (fun a x => a ++ f x) L acc = acc ++ flat_map f L.
Proof. induction L as [|x L IH]; intros acc; [cbn; rewrite app_nil_r; reflexivity|]. cbn [fold_left flat_map]. rewrite IH, app_assoc. reflexivity. Qed.
Theorem gen_read_off_eq G X fl : gen_read_off G X fl = read_off G X fl.
Proof.
  unfold gen_read_off, read_off. rewrite <- (app_nil_l (flat_map _ X)). rewrite <- fold_append. apply fold_left_ext. intros acc x.
  unfold pick. destruct (adj G x) as [|y l] eqn:E; [cbn; rewrite app_nil_r; reflexivity|]. cbn [length Nat.eqb]. cbv zeta.
  destruct (fget fl (x, _) =? 1); [reflexivity|rewrite app_nil_r; reflexivity].
Qed.
Print Assumptions gen_read_off_eq.

Theorem gen_max_matching_eq fuel G X Y : NoDup (X ++ [-1; -2] ++ Y) -> gen_max_matching fuel G X Y = max_matching fuel G X Y.
Proof.
  intros Hnd. unfold gen_max_matching, max_matching. rewrite gen_net_eq by exact Hnd. rewrite gen_init_eq, gen_ff_loop_eq.
  destruct (ff_loop fuel (init (net G X Y)) (-1) (-2)) as [[Gf fl]|]; [rewrite gen_read_off_eq; reflexivity|reflexivity].
Qed.
Print Assumptions gen_max_matching_eq.
(* auxiliary lemmas *)
Print Assumptions nodup_app_r.
Print Assumptions nodup_app_l.
Print Assumptions nodup_app_disj.
Print Assumptions pair_eqb_true.
Print Assumptions fset_absent.
Print Assumptions fold_fset_fresh.
Print Assumptions nested_fold.
Print Assumptions dset_absent.
Print Assumptions fold_dset_fresh.
Print Assumptions fold_append.
