(* Equivalence of the model regenerated from root_n_serial_dictatorship's current source (RootnGen.v) with the hand-written
   rootn_sd of ElicitRules.v: the code fills a pre-allocated array, the model appends. *)
From Coq Require Import Arith ZArith List Bool Lia.
Import ListNotations.
From SCK Require Import ElicitM ElicitRules.
From SCKGen Require Import RootnGen.
Local Open Scope Z_scope.

Lemma updz_app_here {A} (a r : list A) (x y : A) : updz (a ++ x :: r) (length a) y = a ++ y :: r.
Proof. induction a as [|h a IH]; simpl; [reflexivity|]. rewrite IH. reflexivity. Qed.

Section Eq.
Variable P : list (list Z).
Let n := length P.
Let m := length (nth 0 P []).
Let ranked := map rank_list P.
Let room (cnt : list nat) (j : Z) : bool := (nth (Z.to_nat j) cnt O * nth (Z.to_nat j) cnt O <? n)%nat.
Let gstep (st : list Z * list nat) (agent : nat) : list Z * list nat :=
  let '(allocation, allocation_count) := st in
  match find (room allocation_count) (nth agent ranked []) with
  | Some alternative => (updz allocation agent alternative, updz allocation_count (Z.to_nat alternative) (nth (Z.to_nat alternative) allocation_count O + 1)%nat)
  | None => (allocation, allocation_count)
  end.
Let hstep (st : list Z * list nat) (i : nat) : list Z * list nat :=
  let '(alloc, cnt) := st in
  match find (room cnt) (nth i ranked []) with
  | Some j => (alloc ++ [j], updz cnt (Z.to_nat j) (S (nth (Z.to_nat j) cnt O)))
  | None => (alloc ++ [-1], cnt)
  end.

Lemma steps_agree : forall k a cnt rest, length a = k ->
  fst (gstep (a ++ repeat (-1) (S rest), cnt) k) = fst (hstep (a, cnt) k) ++ repeat (-1) rest /\
  snd (gstep (a ++ repeat (-1) (S rest), cnt) k) = snd (hstep (a, cnt) k).
Proof.
  intros k a cnt rest Hk. unfold gstep, hstep. destruct (find (room cnt) (nth k ranked [])) as [j|]; cbn [fst snd].
  - split; [|f_equal; lia]. cbn [repeat]. rewrite <- Hk, updz_app_here, <- app_assoc. reflexivity.
  - split; [|reflexivity]. cbn [repeat]. rewrite <- app_assoc. reflexivity.
Qed.

Lemma folds_agree : forall k rest, (k + rest = n)%nat ->
  let g := fold_left gstep (seq 0 k) (repeat (-1) n, repeat O m) in
  let h := fold_left hstep (seq 0 k) ([], repeat O m) in
  fst g = fst h ++ repeat (-1) rest /\ snd g = snd h /\ length (fst h) = k.
Proof.
  induction k as [|k IH]; intros rest Hn.
  - cbn [seq fold_left fst snd app length]. replace rest with n by lia. auto.
  - cbv zeta. rewrite seq_S, !fold_left_app. cbn [fold_left plus].
    destruct (IH (S rest) ltac:(lia)) as [Hf [Hs Hl]]. cbv zeta in Hf, Hs, Hl.
    set (g := fold_left gstep (seq 0 k) (repeat (-1) n, repeat O m)) in *.
    set (h := fold_left hstep (seq 0 k) ([], repeat O m)) in *.
    destruct g as [ga gc], h as [ha hc]. cbn [fst snd] in Hf, Hs, Hl. subst ga gc.
    destruct (steps_agree k ha hc rest Hl) as [H1 H2]. split; [exact H1|split; [exact H2|]].
    unfold hstep. destruct (find (room hc) (nth k ranked [])); cbn [fst]; rewrite app_length; simpl; lia.
Qed.

Theorem gen_rootn_sd_eq : gen_rootn_sd P = rootn_sd P.
Proof.
  destruct (folds_agree n 0 ltac:(lia)) as [Hf _]. cbv zeta in Hf. cbn [repeat] in Hf. rewrite app_nil_r in Hf. exact Hf.
Qed.
End Eq.
Print Assumptions gen_rootn_sd_eq.
(* auxiliary lemmas *)
Print Assumptions updz_app_here.
Print Assumptions steps_agree.
Print Assumptions folds_agree.
