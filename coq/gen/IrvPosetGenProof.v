(* Irving.construct_sparse_rotation_poset_graph regenerated from the source (IrvPosetGen.v, exceptions as None): whenever it returns a graph, that graph is the
   model's Irving.poset - the structure the stage correspondence of C03 / C17 compares with the implementation's P'. *)
From Coq Require Import Arith ZArith List Bool Lia.
Import ListNotations.
From SCK Require Import FlowModel Mwcs Irving.
From SCKGen Require Import IrvPosetGen.

Section P.
Variables (rots : list rot) (pl1 : list (list nat)) (el : list ((nat * nat) * nat)).

Lemma gen_rop_eq : gen_rotation_of_pair rots = rop rots. Proof. reflexivity. Qed.
Lemma add_eq P pi rho P' : gen_poset_add P pi rho = Some P' -> P' = addedge P pi rho.
Proof. unfold gen_poset_add, addedge. destruct (pi <? length P)%nat; [|discriminate]. intro H. injection H as <-. destruct (memn rho (nthl P pi)); reflexivity. Qed.

Lemma inner_eq : forall fuel m w j' P r, aget (rop rots) (m, w) <> None ->
  gen_poset_inner rots pl1 el fuel m w j' P = Some r -> inner rots el fuel m w (nthl pl1 m) j' P = r.
Proof.
  induction fuel as [|f IH]; intros m w j' P r Hw H; [discriminate|]. cbn [gen_poset_inner inner] in *. rewrite gen_rop_eq in H.
  rewrite Nat.ltb_antisym, negb_involutive in H. destruct (length (nthl pl1 m) <=? j')%nat; [injection H as <-; reflexivity|].
  destruct (aget (rop rots) (m, nthn (nthl pl1 m) j')) as [rho|] eqn:E1.
  - destruct (aget (rop rots) (m, w)) as [pi|] eqn:E2; [|discriminate]. destruct (gen_poset_add P pi rho) as [P'|] eqn:Ea; [|discriminate]. injection H as <-. rewrite (add_eq _ _ _ _ Ea). reflexivity.
  - destruct (aget el (m, nthn (nthl pl1 m) j')) as [pi|] eqn:E3.
    + destruct (aget (rop rots) (m, w)) as [rho|] eqn:E2; [|discriminate].
      destruct (nth_error rots rho) as [rt|] eqn:En; [|discriminate]. rewrite (nth_error_nth rots rho [] En).
      destruct (pindex_of (m, w) rt) as [k|] eqn:Ek; [|discriminate]. destruct (length rt =? 0)%nat; [discriminate|].
      destruct (index_of (nthn (nthl pl1 m) j') (nthl pl1 m)) as [a|] eqn:Ei; [|discriminate].
      destruct (index_of (snd (nth ((k + 1) mod length rt) rt (0%nat, 0%nat))) (nthl pl1 m)) as [b|] eqn:Ej; [|discriminate].
      destruct (a <? b)%nat.
      * destruct (gen_poset_add P pi rho) as [P'|] eqn:Ea; [|discriminate]. rewrite <- (add_eq _ _ _ _ Ea). apply IH; [rewrite E2; discriminate|exact H].
      * apply IH; [rewrite E2; discriminate|exact H].
    + destruct (aget (rop rots) (m, w)) eqn:E2; [|congruence]. apply IH; [rewrite E2; discriminate|exact H].
Qed.

Lemma outer_eq : forall fuel m j P r, gen_poset_outer rots pl1 el fuel m j P = Some r -> outer rots el fuel m (nthl pl1 m) j P = r.
Proof.
  induction fuel as [|f IH]; intros m j P r H; [discriminate|]. cbn [gen_poset_outer outer] in *. rewrite gen_rop_eq in H.
  rewrite Nat.ltb_antisym, negb_involutive in H.
  replace (length (nthl pl1 m) - 1 <=? j)%nat with (length (nthl pl1 m) <=? S j)%nat in H
    by (destruct (Nat.leb_spec (length (nthl pl1 m)) (S j)), (Nat.leb_spec (length (nthl pl1 m) - 1) j); try reflexivity; lia).
  destruct (length (nthl pl1 m) <=? S j)%nat; [injection H as <-; reflexivity|].
  destruct (aget (rop rots) (m, nthn (nthl pl1 m) j)) as [pi0|] eqn:E; cbn [negb] in H.
  - destruct (gen_poset_inner rots pl1 el (S (length (nthl pl1 m))) m (nthn (nthl pl1 m) j) (j + 1) P) as [[P' j']|] eqn:Ei; [|discriminate].
    replace (j + 1)%nat with (S j) in Ei by lia. rewrite (inner_eq _ _ _ _ _ _ ltac:(rewrite E; discriminate) Ei). apply IH. exact H.
  - replace (j + 1)%nat with (S j) in H by lia. apply IH. exact H.
Qed.

Theorem gen_poset_is_model P : gen_poset rots pl1 el = Some P -> P = poset rots pl1 el.
Proof.
  unfold gen_poset, poset. cbv zeta.
  assert (H : forall k s P0 r, (s + k <= length pl1)%nat ->
    fold_left (fun P_prime m => match P_prime with None => None | Some P_prime => gen_poset_outer rots pl1 el (S (length (nthl pl1 m))) m 0 P_prime end) (seq s k) (Some P0) = Some r ->
    r = fold_left (fun P ml => outer rots el (S (length (snd ml))) (fst ml) (snd ml) 0 P) (combine (seq s k) (skipn s pl1)) P0).
  { induction k as [|k IH]; intros s P0 r Hle Hf; [cbn in Hf; injection Hf as <-; reflexivity|]. cbn [seq fold_left] in Hf.
    destruct (gen_poset_outer rots pl1 el (S (length (nthl pl1 s))) s 0 P0) as [P1|] eqn:Eo.
    - assert (Hs : skipn s pl1 = nthl pl1 s :: skipn (S s) pl1).
      { clear - Hle. revert s Hle. induction pl1 as [|x t IHl]; intros s Hle; [cbn in Hle; lia|]. destruct s as [|s]; [reflexivity|]. cbn [skipn]. unfold nthl. cbn [nth]. apply IHl. cbn [length] in Hle. lia. }
      rewrite Hs. cbn [seq combine fold_left fst snd]. rewrite (outer_eq _ _ _ _ _ Eo). apply IH; [lia|exact Hf].
    - exfalso. clear - Hf. assert (Hn : forall l, fold_left (fun P_prime m => match P_prime with None => None | Some P_prime => gen_poset_outer rots pl1 el (S (length (nthl pl1 m))) m 0 P_prime end) l None = None) by (induction l; [reflexivity|assumption]).
      rewrite Hn in Hf. discriminate. }
  intro Hf. specialize (H (length pl1) 0%nat (repeat [] (length rots)) P ltac:(lia) Hf). cbn [skipn] in H. exact H.
Qed.
End P.

(* non-vacuity: two rotations exposed in the man-optimal matching of a 4 x 4 instance (lists after the shortlist step) *)
Example gen_poset_example :
  gen_poset [[(0, 0); (1, 1)]; [(0, 1); (1, 0)]]%nat [[0; 1; 2]; [1; 0; 2]; [2]]%nat [] = Some [[1]; []]%nat.
Proof. vm_compute. reflexivity. Qed.
Print Assumptions gen_rop_eq. Print Assumptions add_eq. Print Assumptions inner_eq. Print Assumptions outer_eq. Print Assumptions gen_poset_is_model.
