(* Irving.rotation_weight, stable_matching_value and eliminate_rotations regenerated from the source (IrvSmallGen.v) equal the model's
   rot_weight, pvalue and eliminate - the objects of C03's elimination theorems (IrvRot.v: eliminating a set of rotations adds exactly
   their weights; IrvStable.v: it keeps stability). *)
From Coq Require Import Arith ZArith List Bool Lia.
Import ListNotations.
From SCK Require Import Irving IrvRot.
From SCKGen Require Import IrvSmallGen.
Local Open Scope Z_scope.

Lemma fold_left_ext {A B} (f g : A -> B -> A) : (forall a b, f a b = g a b) -> forall l a, fold_left f l a = fold_left g l a.
Proof. intros H l. induction l as [|b l IH]; intros a; [reflexivity|]. cbn [fold_left]. rewrite H. apply IH. Qed.

Theorem gen_rotation_weight_eq V1 V2 rt : gen_rotation_weight V1 V2 rt = rot_weight V1 V2 rt.
Proof.
  unfold gen_rotation_weight, rot_weight. cbv zeta. rewrite <- Z.opp_eq_mul_m1.
  first [reflexivity | f_equal; apply fold_left_ext; intros a i; lia].
Qed.

Lemma fold_sum_shift {A} (f : A -> Z) : forall l a, fold_left (fun acc x => acc + f x) l a = a + zsum f l.
Proof. induction l as [|x l IH]; intros a; cbn [fold_left zsum fold_right]; [lia|]. rewrite IH. unfold zsum. lia. Qed.
Theorem gen_stable_matching_value_eq V1 V2 M : gen_stable_matching_value V1 V2 M = pvalue V1 V2 M.
Proof. unfold gen_stable_matching_value, pvalue. cbv zeta. rewrite (fold_sum_shift (fun p => vget V1 (fst p) (snd p) + vget V2 (snd p) (fst p))). lia. Qed.

Lemma memp_pindex x l : memp x l = match pindex_of x l with Some _ => true | None => false end.
Proof.
  induction l as [|y l IH]; [reflexivity|]. unfold memp in *. cbn [existsb pindex_of]. destruct (peq x y); [reflexivity|]. cbn [orb]. rewrite IH.
  destruct (pindex_of x l); reflexivity.
Qed.
Theorem gen_eliminate_rotations_eq M rts : gen_eliminate_rotations M rts = eliminate M rts.
Proof.
  unfold gen_eliminate_rotations, eliminate. apply fold_left_ext. intros cur rt. cbv zeta. apply fold_left_ext. intros c i. unfold elim_apply_one.
  destruct c as [Mc|]; [|reflexivity]. cbv zeta. rewrite memp_pindex. destruct (pindex_of (nth i rt (0%nat, 0%nat)) Mc); reflexivity.
Qed.
Print Assumptions gen_rotation_weight_eq. Print Assumptions gen_stable_matching_value_eq. Print Assumptions gen_eliminate_rotations_eq.
Print Assumptions fold_left_ext. Print Assumptions fold_sum_shift. Print Assumptions memp_pindex.
