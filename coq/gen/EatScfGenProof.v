(* SimultaneousEating.scf / ProbabilisticSerial regenerated from the source (EatScfGen.v): composed with the models of the eating process and of the
   Birkhoff-von Neumann routine, the term it draws is Lottery.lottery - the object of C07's theorem lottery_support (no agent and no item twice, an item
   only with positive eating probability) - and the reported allocation gives agent i the item of its pair in that term, shifted by the index fixer. *)
From Coq Require Import ZArith QArith List Bool Lia.
Import ListNotations.
From SCK Require Import Argsort FlowModel BipModel BvN2 Eat3 EatFinal Lottery.
From SCKGen Require Import EatScfGen.

Theorem gen_eat_term_is_lottery ffuel P speeds idx : (forall X0, eating_run P speeds = Some X0 -> nonnegm X0 = true) ->
  gen_eat_term (eating_run P speeds) (bvn ffuel) idx = lottery ffuel P speeds idx.
Proof.
  intros Hnn. unfold gen_eat_term, lottery. destruct (eating_run P speeds) as [X0|] eqn:E; [|reflexivity]. rewrite (Hnn X0 eq_refl). reflexivity.
Qed.
Theorem gen_eat_alloc_spec fixer n term i j : (i < n)%nat -> NoDup (map fst term) -> In (Z.of_nat i, (Z.of_nat (j + n))%Z) term ->
  nth i (gen_eat_alloc fixer n term) 0%Z = (Z.of_nat j + fixer)%Z.
Proof.
  intros Hi Hnd Hin. unfold gen_eat_alloc.
  assert (Hnth : forall (f : nat -> Z) k i0 s, (i0 < k)%nat -> nth i0 (map f (seq s k)) 0%Z = f (s + i0)%nat).
  { intros f k. induction k as [|k IH]; intros i0 s H; [lia|]. destruct i0 as [|i0]; cbn [seq map nth]; [f_equal; lia|]. rewrite IH by lia. f_equal. lia. }
  rewrite (Hnth _ n i 0%nat Hi). cbn [plus].
  assert (Hfind : find (fun p : Z * Z => (fst p =? Z.of_nat i)%Z) term = Some (Z.of_nat i, Z.of_nat (j + n))).
  { clear Hnth. induction term as [|[a b] t IH]; [destruct Hin|]. cbn [find fst]. cbn [map fst] in Hnd. inversion Hnd as [|? ? Hna Hnd']; subst.
    destruct Hin as [E|Hin]; [injection E as -> ->; rewrite Z.eqb_refl; reflexivity|].
    destruct (Z.eqb_spec a (Z.of_nat i)) as [->|Hne]; [exfalso; apply Hna; apply in_map_iff; exists (Z.of_nat i, Z.of_nat (j + n)); split; [reflexivity|exact Hin]|apply IH; assumption]. }
  rewrite Hfind. cbn [snd]. lia.
Qed.
Theorem gen_eat_fixer_shift : gen_eat_fixer false = (gen_eat_fixer true + 1)%Z.
Proof. reflexivity. Qed.
Theorem gen_ps_speeds_unit n i : (i < n)%nat -> nth i (gen_ps_speeds n) 0%Q = 1%Q.
Proof. unfold gen_ps_speeds. revert i. induction n as [|n IH]; intros i H; [lia|]. destruct i as [|i]; [reflexivity|]. cbn [repeat nth]. apply IH. lia. Qed.
Print Assumptions gen_eat_term_is_lottery. Print Assumptions gen_eat_alloc_spec. Print Assumptions gen_eat_fixer_shift. Print Assumptions gen_ps_speeds_unit.
