From Coq Require Import ZArith QArith List Bool Lia Lqa.
Import ListNotations.
Require Import FlowModel FlowProof BipModel BipProof BipFinal BvN2.
Local Open Scope Q_scope.

Lemma nth_map_seq {A} (f : nat -> A) n i d : (i < n)%nat -> nth i (map f (seq 0 n)) d = f i.
Proof.
  intros H. rewrite (nth_indep _ d (f 0%nat)) by (rewrite map_length, seq_length; exact H).
  rewrite (map_nth f (seq 0 n) 0%nat i). rewrite seq_nth by exact H. reflexivity.
Qed.
Lemma posb_true q : posb q = true <-> 0 < q.
Proof.
  unfold posb. rewrite negb_true_iff. split.
  - intros H. apply Qnot_le_lt. intros Hle. apply Qle_bool_iff in Hle. congruence.
  - intros H. destruct (Qle_bool q 0) eqn:E; [apply Qle_bool_iff in E; lra|reflexivity].
Qed.

Section BvN.
Variable n : nat.

Lemma glook_posgraph X i : (i < n)%nat -> glook (posgraph X n) (Z.of_nat i) = Some (adjP X n i).
Proof.
  intros Hi. unfold posgraph.
  assert (H : forall s k, (s <= i < s + k)%nat -> glook (map (fun i0 => (Z.of_nat i0, adjP X n i0)) (seq s k)) (Z.of_nat i) = Some (adjP X n i)).
  { intros s k. revert s. induction k as [|k IH]; intros s Hr; [lia|]. simpl.
    destruct (Z.of_nat s =? Z.of_nat i)%Z eqn:E.
    - apply Z.eqb_eq in E. apply Nat2Z.inj in E. subst. reflexivity.
    - apply Z.eqb_neq in E. apply IH. assert (s <> i) by (intros ->; apply E; reflexivity). lia. }
  apply H. lia.
Qed.
Lemma adj_posgraph X i : (i < n)%nat -> adj (posgraph X n) (Z.of_nat i) = adjP X n i.
Proof. intros Hi. unfold adj. rewrite glook_posgraph by exact Hi. reflexivity. Qed.

Lemma in_xs x : In x (xs n) <-> exists i, (i < n)%nat /\ x = Z.of_nat i.
Proof.
  unfold xs. rewrite in_map_iff. split.
  - intros [i [<- Hi]]. apply in_seq in Hi. exists i. split; [lia|reflexivity].
  - intros [i [Hi ->]]. exists i. split; [reflexivity|apply in_seq; lia].
Qed.
Lemma in_ys y : In y (ys n) <-> exists j, (j < n)%nat /\ y = Z.of_nat (j + n).
Proof.
  unfold ys. rewrite in_map_iff. split.
  - intros [j [<- Hj]]. apply in_seq in Hj. exists j. split; [lia|reflexivity].
  - intros [j [Hj ->]]. exists j. split; [reflexivity|apply in_seq; lia].
Qed.
Lemma in_adjP X i y : In y (adjP X n i) <-> exists j, (j < n)%nat /\ y = Z.of_nat (j + n) /\ 0 < mget X i j.
Proof.
  unfold adjP. rewrite in_map_iff. split.
  - intros [j [<- Hj]]. apply filter_In in Hj. destruct Hj as [Hj Hp]. apply in_seq in Hj. apply posb_true in Hp. exists j. split; [lia|]. split; [reflexivity|exact Hp].
  - intros [j [Hj [-> Hp]]]. exists j. split; [reflexivity|]. apply filter_In. split; [apply in_seq; lia|apply posb_true; exact Hp].
Qed.
Lemma nodup_map_inj {A B} (f : A -> B) l : (forall a b, In a l -> In b l -> f a = f b -> a = b) -> NoDup l -> NoDup (map f l).
Proof.
  intros Hinj. induction 1 as [|x t Hx Hnd IH]; simpl; [constructor|]. constructor.
  - intros Hin. apply in_map_iff in Hin. destruct Hin as [y [E Hy]]. apply Hx.
    rewrite <- (Hinj y x (or_intror Hy) (or_introl eq_refl) E). exact Hy.
  - apply IH. intros a b Ha Hb. apply Hinj; now right.
Qed.

Lemma posgraph_wfb X : wfb (posgraph X n) (xs n) (ys n).
Proof.
  split; [|split; [|split; [|split; [|split]]]].
  - unfold xs. apply nodup_map_inj; [intros a b _ _ E; apply Nat2Z.inj; exact E|apply seq_NoDup].
  - unfold ys. apply nodup_map_inj; [intros a b _ _ E; apply Nat2Z.inj in E; lia|apply seq_NoDup].
  - intros x Hx Hy. apply in_xs in Hx. apply in_ys in Hy. destruct Hx as [i [Hi ->]]. destruct Hy as [j [Hj E]]. apply Nat2Z.inj in E. lia.
  - split; intros H; [apply in_xs in H|apply in_ys in H]; destruct H as [k [_ E]]; lia.
  - split; intros H; [apply in_xs in H|apply in_ys in H]; destruct H as [k [_ E]]; lia.
  - intros x Hx. apply in_xs in Hx. destruct Hx as [i [Hi ->]]. rewrite adj_posgraph by exact Hi. split.
    + unfold adjP. apply nodup_map_inj; [intros a b _ _ E; apply Nat2Z.inj in E; lia|]. apply NoDup_filter, seq_NoDup.
    + intros y Hy. apply in_adjP in Hy. destruct Hy as [j [Hj [-> _]]]. apply in_ys. exists j. auto.
Qed.

(* what a matching of the positivity graph looks like in matrix terms *)
Lemma matching_entries X M : matching (posgraph X n) (xs n) M -> forall p, In p M ->
  exists i j, (i < n)%nat /\ (j < n)%nat /\ p = (Z.of_nat i, Z.of_nat (j + n)) /\ 0 < mget X i j.
Proof.
  intros [Me _] p Hp. destruct (Me p Hp) as [Hx Hy]. apply in_xs in Hx. destruct Hx as [i [Hi Ei]].
  rewrite Ei in Hy. rewrite adj_posgraph in Hy by exact Hi. apply in_adjP in Hy. destruct Hy as [j [Hj [Ej Hpos]]].
  exists i, j. split; [exact Hi|]. split; [exact Hj|]. split; [destruct p; simpl in *; congruence|exact Hpos].
Qed.

(* ---------- the step size ---------- *)
Definition ent (X : mat) (p : Z * Z) : Q := mget X (Z.to_nat (fst p)) (Z.to_nat (snd p) - n).
Lemma ent_pair X i j : ent X (Z.of_nat i, Z.of_nat (j + n)) = mget X i j.
Proof. unfold ent. simpl. rewrite !Nat2Z.id. replace (j + n - n)%nat with j by lia. reflexivity. Qed.
Lemma zmin_fold X M : forall acc z,
  fold_left (fun z ij => let v := ent X ij in match z with None => Some v | Some z0 => Some (if Qle_bool z0 v then z0 else v) end) M acc = Some z ->
  (forall a, acc = Some a -> z <= a) /\ (forall p, In p M -> z <= ent X p) /\ (acc = Some z \/ exists p, In p M /\ z = ent X p).
Proof.
  induction M as [|q t IH]; intros acc z H; simpl in H.
  - subst acc. split; [intros a E; injection E as <-; lra|]. split; [intros p []|now left].
  - destruct (IH _ _ H) as [H1 [H2 H3]]. split; [|split].
    + intros a Ea. subst acc. cbv zeta in H1. destruct (Qle_bool a (ent X q)) eqn:E; [apply (H1 a eq_refl)|].
      assert (ent X q < a) by (apply Qnot_le_lt; intros Hle; apply Qle_bool_iff in Hle; congruence). specialize (H1 _ eq_refl). lra.
    + intros p [<-|Hp]; [|apply H2; exact Hp]. cbv zeta in H1. destruct acc as [a|].
      * destruct (Qle_bool a (ent X q)) eqn:E; [apply Qle_bool_iff in E; specialize (H1 _ eq_refl); lra|apply (H1 _ eq_refl)].
      * apply (H1 _ eq_refl).
    + destruct H3 as [E|[p [Hp Ep]]]; [|right; exists p; split; [now right|exact Ep]].
      cbv zeta in E. destruct acc as [a|].
      * injection E as E. destruct (Qle_bool a (ent X q)); [left; congruence|right; exists q; split; [now left|congruence]].
      * injection E as E. right. exists q. split; [now left|congruence].
Qed.
Lemma zmin_spec X M z : zmin X n M = Some z -> (forall p, In p M -> z <= ent X p) /\ exists p, In p M /\ z = ent X p.
Proof.
  unfold zmin. intros H. destruct (zmin_fold X M None z H) as [_ [H2 H3]]. split; [exact H2|]. destruct H3 as [E|H3]; [discriminate|exact H3].
Qed.

Lemma entry_step X M z i j : (i < n)%nat -> (j < n)%nat ->
  mget (sub_step X n M z) i j == mget X i j - (if matched M n i j then z else 0).
Proof.
  intros Hi Hj. unfold sub_step, mget at 1. rewrite nth_map_seq by exact Hi. rewrite nth_map_seq by exact Hj.
  destruct (matched M n i j); [unfold qsub; rewrite Qred_correct; lra|lra].
Qed.
Lemma matched_In M i j : matched M n i j = true <-> In (Z.of_nat i, Z.of_nat (j + n)) M.
Proof.
  unfold matched. rewrite existsb_exists. split.
  - intros [q [Hq E]]. apply pair_eqb_eq in E. subst. exact Hq.
  - intros H. exists (Z.of_nat i, Z.of_nat (j + n)). split; [exact H|apply pair_eqb_eq; reflexivity].
Qed.

(* ---------- the loop ---------- *)
Definition term (zM : Q * list (Z * Z)) (i j : nat) : Q := if matched (snd zM) n i j then fst zM else 0.
Fixpoint contrib (acc : list (Q * list (Z * Z))) (i j : nat) : Q := match acc with [] => 0 | x :: t => term x i j + contrib t i j end.
Lemma contrib_snoc acc x i j : contrib (acc ++ [x]) i j == contrib acc i j + term x i j.
Proof. induction acc as [|y t IH]; simpl; [lra|]. rewrite IH. lra. Qed.
Lemma contrib_nonneg acc i j : (forall x, In x acc -> 0 < fst x) -> 0 <= contrib acc i j.
Proof.
  induction acc as [|x t IH]; simpl; intros H; [lra|]. assert (0 <= contrib t i j) by (apply IH; intros; apply H; now right).
  unfold term. destruct (matched (snd x) n i j); [pose proof (H x (or_introl eq_refl)); lra|lra].
Qed.

Definition good_term (X0 : mat) (x : Q * list (Z * Z)) : Prop :=
  0 < fst x /\ NoDup (map fst (snd x)) /\ NoDup (map snd (snd x)) /\
  forall p, In p (snd x) -> exists i j, (i < n)%nat /\ (j < n)%nat /\ p = (Z.of_nat i, Z.of_nat (j + n)) /\ 0 < mget X0 i j.

Lemma all_zero X i j : forallb (forallb (fun x => Qeq_bool x 0)) X = true -> mget X i j == 0.
Proof.
  intros H. unfold mget. rewrite forallb_forall in H.
  destruct (nth_in_or_default i X []) as [Hin|E]; [|rewrite E; destruct j; reflexivity].
  specialize (H _ Hin). rewrite forallb_forall in H.
  destruct (nth_in_or_default j (nth i X []) 0) as [Hin'|E]; [apply Qeq_bool_iff, H; exact Hin'|rewrite E; reflexivity].
Qed.

Theorem bvn_loop_correct ffuel X0 : forall fuel X acc res,
  bvn_loop fuel ffuel n X acc = Some res ->
  (forall i j, (i < n)%nat -> (j < n)%nat -> mget X0 i j == mget X i j + contrib acc i j) ->
  (forall i j, (i < n)%nat -> (j < n)%nat -> 0 <= mget X i j) ->
  (forall x, In x acc -> good_term X0 x) ->
  (forall i j, (i < n)%nat -> (j < n)%nat -> mget X0 i j == contrib res i j) /\ (forall x, In x res -> good_term X0 x).
Proof.
  induction fuel as [|f IH]; intros X acc res H I1 I2 I3; [discriminate|]. cbn [bvn_loop] in H.
  destruct (forallb (forallb (fun x => Qeq_bool x 0)) X) eqn:Ez.
  - injection H as <-. split; [|exact I3]. intros i j Hi Hj. rewrite (I1 i j Hi Hj), (all_zero X i j Ez). lra.
  - destruct (negb (keys_ok X n)); [discriminate|].
    destruct (max_matching ffuel (posgraph X n) (xs n) (ys n)) as [M|] eqn:Em; [|discriminate].
    destruct (zmin X n M) as [z|] eqn:Ezm; [|discriminate].
    destruct (C09_max_matching _ _ _ _ _ (posgraph_wfb X) Em) as [HM _].
    pose proof (matching_entries X M HM) as Hent.
    destruct (zmin_spec X M z Ezm) as [Hle [p0 [Hp0 Ez0]]].
    assert (Hz : 0 < z).
    { destruct (Hent p0 Hp0) as [i [j [Hi [Hj [-> Hpos]]]]]. rewrite Ez0, ent_pair. exact Hpos. }
    assert (Hacc : forall i j, 0 <= contrib acc i j) by (intros; apply contrib_nonneg; intros x Hx; apply I3; exact Hx).
    apply (IH _ _ _ H).
    + intros i j Hi Hj. rewrite (I1 i j Hi Hj), contrib_snoc, (entry_step X M z i j Hi Hj). unfold term. simpl. destruct (matched M n i j); lra.
    + intros i j Hi Hj. rewrite (entry_step X M z i j Hi Hj). destruct (matched M n i j) eqn:Emt; [|pose proof (I2 i j Hi Hj); lra].
      apply matched_In in Emt. pose proof (Hle _ Emt) as Hl. rewrite ent_pair in Hl. lra.
    + intros x Hx. apply in_app_or in Hx. destruct Hx as [Hx|[<-|[]]]; [apply I3; exact Hx|].
      destruct HM as [_ [Hf Hs]]. split; [exact Hz|]. split; [exact Hf|]. split; [exact Hs|].
      intros p Hp. destruct (Hent p Hp) as [i [j [Hi [Hj [-> Hpos]]]]]. exists i, j. split; [exact Hi|]. split; [exact Hj|]. split; [reflexivity|].
      rewrite (I1 i j Hi Hj). pose proof (Hacc i j). lra.
Qed.
End BvN.

(* C06 (exact arithmetic): the decomposition reconstructs its input; coefficients are positive; every matrix is a
   sub-permutation supported on positive entries of the input *)
Theorem C06_bvn_correct ffuel X0 res : let n := length X0 in
  (forall i j, (i < n)%nat -> (j < n)%nat -> 0 <= mget X0 i j) ->
  bvn ffuel X0 = Some res ->
  (forall i j, (i < n)%nat -> (j < n)%nat -> mget X0 i j == contrib n res i j) /\ (forall x, In x res -> good_term n X0 x).
Proof.
  intros n Hnn H. unfold bvn in H. fold n in H.
  apply (bvn_loop_correct n ffuel X0 _ X0 [] res H).
  - intros i j _ _. simpl. lra.
  - exact Hnn.
  - intros x [].
Qed.
Print Assumptions C06_bvn_correct.
