From Coq Require Import Arith List Bool Lia.
Import ListNotations.
Require Import DA GS2.

Lemma grem1_in x y l : In y (GS2.rem1 x l) -> In y l.
Proof. induction l as [|z t IH]; simpl; [tauto|]. destruct (Nat.eqb x z); simpl; tauto. Qed.

Section Refine.
Variables (n m : nat).
Variable prefR : nat -> nat -> option nat.
Variable rkH : nat -> nat -> option nat.
Variable unrank : nat -> nat -> nat.
Variable cap : nat -> nat.
Variable pl : nat -> list nat.
Hypothesis pl_spec : forall p k, prefR p k = nth_error (pl p) k.
Hypothesis pl_nodup : forall p, NoDup (pl p).
Hypothesis pl_lt : forall p r, In r (pl p) -> r < m.
Hypothesis pl_out : forall p, n <= p -> pl p = [].
Hypothesis unrank_spec : forall h p r, rkH h p = Some r -> unrank h r = p.

Let Rs := seq 0 m.
Let qP := fun _ : nat => 1.
Definition Good (s : state) : Prop :=
  invF pl rkH cap s /\ invR pl rkH cap s /\ invQ qP Rs s /\ invA pl rkH qP cap Rs s.

Lemma rk_inj : forall r p p' k, rkH r p = Some k -> rkH r p' = Some k -> p = p'.
Proof. intros r p p' k H1 H2. rewrite <- (unrank_spec _ _ _ H1). apply unrank_spec. exact H2. Qed.
Lemma pl_univ : forall p r, In r (pl p) -> In r Rs.
Proof. intros p r H. apply in_seq. pose proof (pl_lt _ _ H). lia. Qed.
Lemma Rs_nodup : NoDup Rs. Proof. apply seq_NoDup. Qed.

Lemma good_step s p0 : Good s -> enabled pl qP Rs s p0 -> Good (step pl rkH cap s p0).
Proof.
  intros [HF [HR [HQ HA]]] Hen. split; [|split; [|split]].
  - eapply (step_invF pl rkH qP cap Rs pl_nodup s p0 HF Hen); reflexivity.
  - eapply (step_invR pl rkH qP cap Rs pl_nodup rk_inj s p0 HF HR Hen); reflexivity.
  - eapply (step_invQ pl rkH qP cap Rs Rs_nodup s p0 Hen); [reflexivity|exact HQ].
  - eapply (step_invA pl rkH qP cap Rs pl_nodup pl_univ Rs_nodup rk_inj s p0 HF Hen); [reflexivity|reflexivity|exact HQ|exact HA].
Qed.

(* ---------- helper lemmas ---------- *)
Lemma engs_nil_iff s p : engs Rs s p = [] <-> forall r, In r Rs -> ~ In p (held s r).
Proof.
  unfold engs. split.
  - intros H r Hr Hin. assert (In r (filter (fun r => memb p (held s r)) Rs)) by (apply filter_In; split; [exact Hr|apply memb_In; exact Hin]).
    rewrite H in H0. exact H0.
  - intros H. destruct (filter (fun r => memb p (held s r)) Rs) as [|r t] eqn:E; [reflexivity|].
    exfalso. assert (Hin : In r (filter (fun r => memb p (held s r)) Rs)) by (rewrite E; now left).
    apply filter_In in Hin. destruct Hin as [Hr Hm]. apply memb_In in Hm. exact (H r Hr Hm).
Qed.
Lemma engs_ext s s' p : (forall r, In r Rs -> (In p (held s' r) <-> In p (held s r))) -> engs Rs s' p = engs Rs s p.
Proof.
  intros H. unfold engs. apply filter_ext_in. intros r Hr.
  destruct (memb p (held s' r)) eqn:E1, (memb p (held s r)) eqn:E2; try reflexivity.
  - apply memb_In in E1. apply (H r Hr) in E1. apply memb_In in E1. congruence.
  - apply memb_In in E2. apply (H r Hr) in E2. apply memb_In in E2. congruence.
Qed.

Section Worst.
Variables (h : nat).
Let f := unrank h.
Lemma rankv_f x : rkH h (f x) = Some x -> rankv rkH h (f x) = x.
Proof. unfold rankv. intros ->. reflexivity. Qed.
Lemma maxl_in l w : In (GS2.maxl l w) (w :: l).
Proof.
  revert w; induction l as [|x t IH]; intros w; simpl; [now left|].
  destruct (IH (Nat.max w x)) as [H|H]; [|right; right; exact H].
  destruct (Nat.max_spec w x) as [[_ E]|[_ E]]; [right; left|left]; rewrite <- H; symmetry; exact E.
Qed.
Lemma worst_map l w0 : (forall x, In x (w0 :: l) -> rkH h (f x) = Some x) ->
  worst rkH h (map f l) (f w0) = f (GS2.maxl l w0).
Proof.
  revert w0; induction l as [|x t IH]; intros w0 Hall; simpl; [reflexivity|].
  rewrite (rankv_f w0) by (apply Hall; now left). rewrite (rankv_f x) by (apply Hall; right; now left).
  destruct (w0 <? x) eqn:E.
  - apply Nat.ltb_lt in E. rewrite Nat.max_r by lia. apply IH. intros y [<-|Hy]; apply Hall; [right; now left|right; right; exact Hy].
  - apply Nat.ltb_ge in E. rewrite Nat.max_l by lia. apply IH. intros y [<-|Hy]; apply Hall; [now left|right; right; exact Hy].
Qed.
Lemma rem1_map x l : (forall a, In a (x :: l) -> rkH h (f a) = Some a) ->
  map f (GS2.rem1 x l) = DA.rem1 (f x) (map f l).
Proof.
  intros Hall. induction l as [|y t IH]; simpl; [reflexivity|].
  destruct (Nat.eqb x y) eqn:E.
  - apply Nat.eqb_eq in E. subst y. rewrite Nat.eqb_refl. reflexivity.
  - apply Nat.eqb_neq in E. destruct (Nat.eqb (f x) (f y)) eqn:E2.
    + exfalso. apply Nat.eqb_eq in E2. apply E.
      assert (H1 : rkH h (f x) = Some x) by (apply Hall; now left).
      assert (H2 : rkH h (f y) = Some y) by (apply Hall; right; now left).
      rewrite E2 in H1. congruence.
    + simpl. f_equal. apply IH. intros a [<-|Ha]; apply Hall; [now left|right; right; exact Ha].
Qed.
End Worst.

(* ---------- the simulation invariant ---------- *)
Record Inv (st : rst) (s : state) : Prop := {
  i_nxt : forall p, nxt s p = apps st p;
  i_held : forall r, held s r = map (unrank r) (wl st r);
  i_wl : forall r hr, In hr (wl st r) -> rkH r (unrank r hr) = Some hr;
  i_f1 : forall p, flag st p = 1 -> engs Rs s p = [];
  i_f2 : forall p, flag st p = 2 -> engs Rs s p = [] /\ length (pl p) <= apps st p;
  i_f0 : forall p, flag st p <> 1 -> flag st p <> 2 -> engs Rs s p <> []
}.

Lemma fupd_same {A} (f : nat -> A) i x : fupd f i x i = x.
Proof. unfold fupd. rewrite Nat.eqb_refl. reflexivity. Qed.
Lemma fupd_other {A} (f : nat -> A) i x j : j <> i -> fupd f i x j = f j.
Proof. unfold fupd. intros H. apply Nat.eqb_neq in H. rewrite H. reflexivity. Qed.

Definition rstep := res_step prefR rkH unrank cap.

(* case A: list exhausted *)
Lemma sim_exhausted st s cur p0 : Inv st s -> flag st p0 = 1 -> cur p0 = 1 -> prefR p0 (apps st p0) = None ->
  Inv (rstep cur st p0) s /\ (forall p, p <> p0 -> flag (rstep cur st p0) p = flag st p).
Proof.
  intros I Hf Hc Hp. unfold rstep, res_step. rewrite Hc. simpl. rewrite Hp. split.
  - constructor; simpl; try apply I.
    + intros p Hfp. destruct (Nat.eq_dec p p0) as [->|Hne]; [rewrite fupd_same in Hfp; discriminate|].
      rewrite fupd_other in Hfp by exact Hne. apply (i_f1 _ _ I); exact Hfp.
    + intros p Hfp. destruct (Nat.eq_dec p p0) as [->|Hne].
      * split; [apply (i_f1 _ _ I); exact Hf|]. rewrite pl_spec in Hp. apply nth_error_None in Hp. exact Hp.
      * rewrite fupd_other in Hfp by exact Hne. apply (i_f2 _ _ I); exact Hfp.
    + intros p H1 H2. destruct (Nat.eq_dec p p0) as [->|Hne]; [rewrite fupd_same in H2; congruence|].
      rewrite fupd_other in H1, H2 by exact Hne. apply (i_f0 _ _ I); assumption.
  - intros p Hne. simpl. apply fupd_other; exact Hne.
Qed.

(* facts about the abstract step when the next choice is h *)
Section StepFacts.
Variables (s : state) (p0 h : nat).
Hypothesis Hnth : nth_error (pl p0) (nxt s p0) = Some h.
Let s' := step pl rkH cap s p0.
Lemma r0_is_h : nth (nxt s p0) (pl p0) 0 = h.
Proof. apply nth_error_nth. exact Hnth. Qed.
Lemma nxt_step p : nxt s' p = if Nat.eqb p p0 then S (nxt s p0) else nxt s p.
Proof. unfold s', step. rewrite r0_is_h. destruct (rkH h p0); reflexivity. Qed.
Lemma held_step_other r : r <> h -> held s' r = held s r.
Proof.
  intros Hne. unfold s', step. rewrite r0_is_h. destruct (rkH h p0); [|reflexivity]. simpl.
  apply Nat.eqb_neq in Hne. rewrite Hne. reflexivity.
Qed.
Lemma held_step_none : rkH h p0 = None -> forall r, held s' r = held s r.
Proof. intros E r. unfold s', step. rewrite r0_is_h, E. reflexivity. Qed.
Lemma held_step_some k : rkH h p0 = Some k ->
  held s' h = let l := p0 :: held s h in if cap h <? length l then DA.rem1 (worst rkH h l p0) l else l.
Proof. intros E. unfold s', step. rewrite r0_is_h, E. simpl. rewrite Nat.eqb_refl. reflexivity. Qed.
Lemma h_in_Rs : In h Rs.
Proof. apply pl_univ with p0. eapply nth_error_In; exact Hnth. Qed.
End StepFacts.

Lemma enabled_of st s p0 h : Inv st s -> flag st p0 = 1 -> prefR p0 (apps st p0) = Some h -> enabled pl qP Rs s p0.
Proof.
  intros I Hf Hp. split.
  - rewrite (i_f1 _ _ I _ Hf). unfold qP. simpl. lia.
  - rewrite (i_nxt _ _ I). rewrite pl_spec in Hp. apply nth_error_Some. congruence.
Qed.

(* case B: hospital finds the resident unacceptable *)
Lemma sim_unacceptable st s cur p0 h : Inv st s -> flag st p0 = 1 -> cur p0 = 1 ->
  prefR p0 (apps st p0) = Some h -> rkH h p0 = None ->
  Inv (rstep cur st p0) (step pl rkH cap s p0) /\ (forall p, flag (rstep cur st p0) p = flag st p).
Proof.
  intros I Hf Hc Hp Hr. unfold rstep, res_step. rewrite Hc. simpl. rewrite Hp, Hr.
  assert (Hnth : nth_error (pl p0) (nxt s p0) = Some h) by (rewrite (i_nxt _ _ I), <- pl_spec; exact Hp).
  assert (Hh : forall r, held (step pl rkH cap s p0) r = held s r) by (apply (held_step_none s p0 h Hnth Hr)).
  assert (He : forall p, engs Rs (step pl rkH cap s p0) p = engs Rs s p) by (intros p; apply engs_ext; intros r _; rewrite Hh; tauto).
  split; [|reflexivity].
  constructor; simpl.
  - intros p. rewrite (nxt_step s p0 h Hnth). unfold fupd. destruct (Nat.eqb p p0); rewrite ?(i_nxt _ _ I); reflexivity.
  - intros r. rewrite Hh. apply I.
  - apply I.
  - intros p Hfp. rewrite He. apply (i_f1 _ _ I); exact Hfp.
  - intros p Hfp. rewrite He. destruct (i_f2 _ _ I _ Hfp) as [A B]. split; [exact A|].
    destruct (Nat.eq_dec p p0) as [->|Hne]; [congruence|]. rewrite fupd_other by exact Hne. exact B.
  - intros p H1 H2. rewrite He. apply (i_f0 _ _ I); assumption.
Qed.

Lemma engs_unique s p r1 r2 : invQ qP Rs s -> In r1 Rs -> In r2 Rs -> In p (held s r1) -> In p (held s r2) -> r1 = r2.
Proof.
  intros HQ H1 H2 M1 M2. specialize (HQ p). unfold qP in HQ.
  assert (E1 : In r1 (engs Rs s p)) by (apply engs_In; tauto).
  assert (E2 : In r2 (engs Rs s p)) by (apply engs_In; tauto).
  destruct (engs Rs s p) as [|a [|b t]]; simpl in *.
  - contradiction.
  - destruct E1 as [<-|[]]. destruct E2 as [<-|[]]. reflexivity.
  - lia.
Qed.
Lemma engs_ne_ex s p : engs Rs s p <> [] -> exists r, In r Rs /\ In p (held s r).
Proof.
  intros H. destruct (engs Rs s p) as [|r t] eqn:E; [congruence|]. exists r. apply engs_In. rewrite E. now left.
Qed.
Lemma engs_ne_in s p r : In r Rs -> In p (held s r) -> engs Rs s p <> [].
Proof. intros Hr Hin E. rewrite engs_nil_iff in E. exact (E r Hr Hin). Qed.

Lemma rstep_accept cur st p h hr : cur p = 1 -> prefR p (apps st p) = Some h -> rkH h p = Some hr ->
  rstep cur st p =
  if length (hr :: wl st h) <=? cap h
  then {| apps := fupd (apps st) p (S (apps st p)); wl := fupd (wl st) h (hr :: wl st h); flag := fupd (flag st) p 0 |}
  else {| apps := fupd (apps st) p (S (apps st p)); wl := fupd (wl st) h (GS2.rem1 (GS2.maxl (hr :: wl st h) 0) (hr :: wl st h));
          flag := fupd (fupd (flag st) p 0) (unrank h (GS2.maxl (hr :: wl st h) 0)) 1 |}.
Proof. intros H H0 H1. unfold rstep, res_step. rewrite H. cbn [Nat.eqb negb]. rewrite H0, H1. reflexivity. Qed.

(* case C: acceptable; the hospital keeps or drops *)
Lemma sim_accept st s cur p0 h hr : Inv st s -> Good s -> flag st p0 = 1 -> cur p0 = 1 ->
  prefR p0 (apps st p0) = Some h -> rkH h p0 = Some hr ->
  Inv (rstep cur st p0) (step pl rkH cap s p0) /\
  (forall p, p <> p0 -> flag st p = 1 -> flag (rstep cur st p0) p = 1).
Proof.
  intros I [HF [_ [HQ _]]] Hf Hc Hp Hr.
  assert (Hnth : nth_error (pl p0) (nxt s p0) = Some h) by (rewrite (i_nxt _ _ I), <- pl_spec; exact Hp).
  pose proof (h_in_Rs s p0 h Hnth) as HhRs.
  set (w := hr :: wl st h).
  set (l := p0 :: held s h).
  assert (Hl : l = map (unrank h) w).
  { unfold l, w. simpl. rewrite (unrank_spec _ _ _ Hr), (i_held _ _ I). reflexivity. }
  assert (Hw : forall x, In x w -> rkH h (unrank h x) = Some x).
  { intros x [<-|Hx]; [rewrite (unrank_spec _ _ _ Hr); exact Hr|apply (i_wl _ _ I); exact Hx]. }
  assert (Hp0free : forall r, In r Rs -> ~ In p0 (held s r)) by (apply engs_nil_iff, (i_f1 _ _ I), Hf).
  assert (Hnd : NoDup l) by (constructor; [apply Hp0free; exact HhRs|apply HF]).
  assert (Hlen : length l = length w) by (rewrite Hl, map_length; reflexivity).
  pose proof (held_step_some s p0 h Hnth hr Hr) as Hhs. fold l in Hhs. cbv zeta in Hhs.
  pose proof (held_step_other s p0 h Hnth) as Hho.
  pose proof (nxt_step s p0 h Hnth) as Hnx.
  set (s' := step pl rkH cap s p0) in *.
  assert (Iapps : forall p, nxt s' p = fupd (apps st) p0 (S (apps st p0)) p).
  { intros p. rewrite Hnx. unfold fupd. destruct (Nat.eqb p p0); rewrite ?(i_nxt _ _ I); reflexivity. }
  rewrite (rstep_accept cur st p0 h hr Hc Hp Hr). fold w.
  destruct (length w <=? cap h) eqn:Ecap.
  - (* kept *)
    apply Nat.leb_le in Ecap.
    assert (Hh' : held s' h = l).
    { rewrite Hhs. destruct (cap h <? length l) eqn:E; [apply Nat.ltb_lt in E; lia|reflexivity]. }
    assert (Hmem : forall p r, In r Rs -> p <> p0 -> (In p (held s' r) <-> In p (held s r))).
    { intros p r Hr' Hne. destruct (Nat.eq_dec r h) as [->|Hrh]; [|rewrite Hho by exact Hrh; tauto].
      rewrite Hh'. unfold l. simpl. split; [intros [E|E]; [congruence|exact E]|tauto]. }
    split.
    + constructor; cbn [GS2.apps GS2.wl GS2.flag].
      * exact Iapps.
      * intros r. destruct (Nat.eq_dec r h) as [->|Hrh]; [rewrite fupd_same, Hh'; exact Hl|].
        rewrite fupd_other by exact Hrh. rewrite Hho by exact Hrh. apply I.
      * intros r x. destruct (Nat.eq_dec r h) as [->|Hrh]; [rewrite fupd_same; apply Hw|rewrite fupd_other by exact Hrh; apply I].
      * intros p Hfp. destruct (Nat.eq_dec p p0) as [->|Hne]; [rewrite fupd_same in Hfp; discriminate|].
        rewrite fupd_other in Hfp by exact Hne. rewrite (engs_ext s s' p) by (intros r Hr'; apply Hmem; assumption).
        apply (i_f1 _ _ I); exact Hfp.
      * intros p Hfp. destruct (Nat.eq_dec p p0) as [->|Hne]; [rewrite fupd_same in Hfp; discriminate|].
        rewrite fupd_other in Hfp by exact Hne. rewrite (engs_ext s s' p) by (intros r Hr'; apply Hmem; assumption).
        rewrite fupd_other by exact Hne. apply (i_f2 _ _ I); exact Hfp.
      * intros p H1 H2. destruct (Nat.eq_dec p p0) as [->|Hne].
        -- apply (engs_ne_in s' p0 h HhRs). rewrite Hh'. now left.
        -- rewrite fupd_other in H1, H2 by exact Hne. rewrite (engs_ext s s' p) by (intros r Hr'; apply Hmem; assumption).
           apply (i_f0 _ _ I); assumption.
    + intros p Hne Hfp. cbn [GS2.flag]. rewrite fupd_other by exact Hne. exact Hfp.
  - (* over capacity: drop the worst *)
    apply Nat.leb_gt in Ecap.
    set (wc := GS2.maxl w 0).
    assert (Hwc : wc = GS2.maxl (wl st h) hr) by reflexivity.
    assert (Hwc_in : In wc w) by (unfold w; rewrite Hwc; apply maxl_in).
    set (d := unrank h wc).
    assert (Hworst : worst rkH h l p0 = d).
    { rewrite Hl. unfold w at 1. simpl map. rewrite (unrank_spec _ _ _ Hr). simpl worst.
      rewrite Nat.ltb_irrefl. rewrite <- (unrank_spec _ _ _ Hr) at 1.
      rewrite (worst_map h (wl st h) hr) by (intros x Hx; apply Hw; exact Hx). unfold d. rewrite Hwc. reflexivity. }
    assert (Hh' : held s' h = map (unrank h) (GS2.rem1 wc w)).
    { rewrite Hhs. destruct (cap h <? length l) eqn:E; [|apply Nat.ltb_ge in E; lia].
      rewrite Hworst, Hl. unfold d. symmetry. apply rem1_map. intros a [<-|Ha]; [apply Hw; exact Hwc_in|apply Hw; exact Ha]. }
    assert (Hh'' : held s' h = DA.rem1 d l).
    { rewrite Hhs. destruct (cap h <? length l) eqn:E; [|apply Nat.ltb_ge in E; lia]. rewrite Hworst. reflexivity. }
    assert (Hd_in : In d l) by (rewrite Hl; unfold d; apply in_map; exact Hwc_in).
    assert (Hmem_h : forall p, In p (held s' h) <-> In p l /\ p <> d).
    { intros p. rewrite Hh''. split.
      - intros H. split; [eapply (DA.rem1_in qP cap); exact H|intros ->; exact (DA.rem1_notin qP cap _ _ Hnd H)].
      - intros [H1 H2]. apply (DA.rem1_in_neq qP cap); assumption. }
    assert (Hd_gone : forall r, In r Rs -> ~ In d (held s' r)).
    { intros r Hr' Hin. destruct (Nat.eq_dec r h) as [->|Hrh]; [apply Hmem_h in Hin; tauto|].
      rewrite Hho in Hin by exact Hrh. destruct Hd_in as [E|E].
      - rewrite <- E in Hin. exact (Hp0free r Hr' Hin).
      - apply Hrh. eapply engs_unique; eauto. }
    assert (Hmem : forall p r, In r Rs -> p <> p0 -> p <> d -> (In p (held s' r) <-> In p (held s r))).
    { intros p r Hr' Hne Hnd'. destruct (Nat.eq_dec r h) as [->|Hrh]; [|rewrite Hho by exact Hrh; tauto].
      rewrite Hmem_h. unfold l. simpl. split; [intros [[E|E] _]; [congruence|exact E]|tauto]. }
    split.
    + constructor; cbn [GS2.apps GS2.wl GS2.flag].
      * exact Iapps.
      * intros r. destruct (Nat.eq_dec r h) as [->|Hrh]; [rewrite fupd_same; exact Hh'|].
        rewrite fupd_other by exact Hrh. rewrite Hho by exact Hrh. apply I.
      * intros r x. destruct (Nat.eq_dec r h) as [->|Hrh]; [rewrite fupd_same; intros Hx; apply Hw; eapply grem1_in; exact Hx|rewrite fupd_other by exact Hrh; apply I].
      * intros p Hfp. destruct (Nat.eq_dec p d) as [->|Hnd']; [apply engs_nil_iff; exact Hd_gone|].
        rewrite fupd_other in Hfp by exact Hnd'.
        destruct (Nat.eq_dec p p0) as [->|Hne]; [rewrite fupd_same in Hfp; discriminate|].
        rewrite fupd_other in Hfp by exact Hne. rewrite (engs_ext s s' p) by (intros r Hr'; apply Hmem; assumption).
        apply (i_f1 _ _ I); exact Hfp.
      * intros p Hfp. destruct (Nat.eq_dec p d) as [->|Hnd']; [rewrite fupd_same in Hfp; discriminate|].
        rewrite fupd_other in Hfp by exact Hnd'.
        destruct (Nat.eq_dec p p0) as [->|Hne]; [rewrite fupd_same in Hfp; discriminate|].
        rewrite fupd_other in Hfp by exact Hne. rewrite (engs_ext s s' p) by (intros r Hr'; apply Hmem; assumption).
        rewrite fupd_other by exact Hne. apply (i_f2 _ _ I); exact Hfp.
      * intros p H1 H2. destruct (Nat.eq_dec p d) as [->|Hnd']; [rewrite fupd_same in H1; congruence|].
        rewrite fupd_other in H1, H2 by exact Hnd'.
        destruct (Nat.eq_dec p p0) as [->|Hne].
        -- apply (engs_ne_in s' p0 h HhRs). apply Hmem_h. split; [now left|exact Hnd'].
        -- rewrite fupd_other in H1, H2 by exact Hne. rewrite (engs_ext s s' p) by (intros r Hr'; apply Hmem; assumption).
           apply (i_f0 _ _ I); assumption.
    + intros p Hne Hfp. cbn [GS2.flag]. destruct (Nat.eq_dec p d) as [->|Hnd']; [apply fupd_same|].
      rewrite fupd_other by exact Hnd'. rewrite fupd_other by exact Hne. exact Hfp.
Qed.

Lemma rstep_skip cur st p : cur p <> 1 -> rstep cur st p = st.
Proof. intros H. unfold rstep, res_step. apply Nat.eqb_neq in H. rewrite H. reflexivity. Qed.

Lemma sim_step st s cur p0 : Inv st s -> Good s -> (cur p0 = 1 -> flag st p0 = 1) ->
  exists s', Inv (rstep cur st p0) s' /\ Good s' /\ (forall p, p <> p0 -> flag st p = 1 -> flag (rstep cur st p0) p = 1).
Proof.
  intros I G Hc. destruct (Nat.eq_dec (cur p0) 1) as [E|E].
  2:{ exists s. rewrite rstep_skip by exact E. auto. }
  pose proof (Hc E) as Hf.
  destruct (prefR p0 (apps st p0)) as [h|] eqn:Hp.
  - pose proof (enabled_of st s p0 h I Hf Hp) as Hen.
    destruct (rkH h p0) as [hr|] eqn:Hr.
    + destruct (sim_accept st s cur p0 h hr I G Hf E Hp Hr) as [I' Fr].
      exists (step pl rkH cap s p0). split; [exact I'|]. split; [apply good_step; assumption|exact Fr].
    + destruct (sim_unacceptable st s cur p0 h I Hf E Hp Hr) as [I' Fr].
      exists (step pl rkH cap s p0). split; [exact I'|]. split; [apply good_step; assumption|].
      intros p _ H. rewrite Fr. exact H.
  - destruct (sim_exhausted st s cur p0 I Hf E Hp) as [I' Fr].
    exists s. split; [exact I'|]. split; [exact G|]. intros p Hne H. rewrite Fr by exact Hne. exact H.
Qed.

Lemma sim_round cur ps : NoDup ps -> forall st s, Inv st s -> Good s ->
  (forall p, In p ps -> cur p = 1 -> flag st p = 1) ->
  exists s', Inv (fold_left (rstep cur) ps st) s' /\ Good s'.
Proof.
  induction 1 as [|p0 ps Hnin Hnd IH]; intros st s I G Hc; simpl.
  - exists s. auto.
  - destruct (sim_step st s cur p0 I G (Hc p0 (or_introl eq_refl))) as [s1 [I1 [G1 Fr]]].
    apply (IH _ s1 I1 G1). intros p Hp Hcp. apply Fr; [intros ->; contradiction|]. apply Hc; [now right|exact Hcp].
Qed.

Lemma sim_loop fuel : forall st s st', Inv st s -> Good s ->
  res_loop n prefR rkH unrank cap fuel st = Some st' ->
  exists s', Inv st' s' /\ Good s' /\ forall p, p < n -> flag st' p <> 1.
Proof.
  induction fuel as [|f IH]; intros st s st' I G H; simpl in H; [discriminate|].
  destruct (forallb (fun p => negb (Nat.eqb (flag st p) 1)) (seq 0 n)) eqn:E.
  - injection H as <-. exists s. split; [exact I|]. split; [exact G|].
    intros p Hp. rewrite forallb_forall in E. assert (Hin : In p (seq 0 n)) by (apply in_seq; lia).
    specialize (E p Hin). apply negb_true_iff, Nat.eqb_neq in E. exact E.
  - destruct (sim_round (flag st) (seq 0 n) (seq_NoDup n 0) st s I G (fun p _ Hc => Hc)) as [s1 [I1 G1]].
    exact (IH _ s1 st' I1 G1 H).
Qed.

Definition s0 : state := {| nxt := fun _ => 0; held := fun _ => [] |}.
Lemma engs_s0 p : engs Rs s0 p = [].
Proof. apply engs_nil_iff. intros r _ []. Qed.
Lemma good_s0 : Good s0.
Proof.
  split; [|split; [|split]].
  - intros r. simpl. split; [constructor|]. split; [lia|]. intros p [].
  - intros p r H. unfold prefix in H. simpl in H. destruct H.
  - intros p. rewrite engs_s0. unfold qP. simpl. lia.
  - intros mu _ p r H. unfold prefix in H. simpl in H. destruct H.
Qed.
Lemma inv_init : Inv (res_init) s0.
Proof.
  constructor; simpl; try reflexivity.
  - intros r hr [].
  - intros p _. apply engs_s0.
  - intros p H. discriminate.
  - intros p H. congruence.
Qed.

(* C01, resident-oriented: whatever state the coded loop stops in is matched by an abstract state that
   is feasible, has no blocking pair, and in which no achievable pair was ever rejected *)
Theorem gs_res_correct fuel st' :
  res_loop n prefR rkH unrank cap fuel res_init = Some st' ->
  exists s, Inv st' s /\ Good s /\ terminal pl qP Rs s /\ (forall p r, ~ blocking pl rkH qP cap Rs s p r).
Proof.
  intros H. destruct (sim_loop fuel res_init s0 st' inv_init good_s0 H) as [s [I [G Hfl]]].
  exists s. split; [exact I|]. split; [exact G|].
  assert (T : terminal pl qP Rs s).
  { intros p. destruct (Nat.lt_ge_cases p n) as [Hp|Hp].
    - specialize (Hfl p Hp). destruct (Nat.eq_dec (flag st' p) 2) as [E2|E2].
      + right. rewrite (i_nxt _ _ I). apply (i_f2 _ _ I); exact E2.
      + left. pose proof (i_f0 _ _ I p Hfl E2) as Hne. unfold qP. destruct (engs Rs s p); [congruence|simpl; lia].
    - right. rewrite (pl_out p Hp). simpl. lia. }
  split; [exact T|]. destruct G as [HF [HR _]]. apply (terminal_stable pl rkH qP cap Rs pl_nodup s HF HR T).
Qed.
End Refine.
Print Assumptions gs_res_correct.
