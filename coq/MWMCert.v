From Coq Require Import QArith List Lia Lqa Permutation.
Import ListNotations.
Local Open Scope Q_scope.

(* C04: LP-duality certificate for an optimal assignment.  w i j = None means "unacceptable" (NaN). *)
Fixpoint sumL (l : list Q) : Q := match l with [] => 0 | x :: t => x + sumL t end.
Lemma sumL_perm l l' : Permutation l l' -> sumL l == sumL l'.
Proof. induction 1; simpl; try lra. Qed.
Lemma sumL_app a b : sumL (a ++ b) == sumL a + sumL b.
Proof. induction a as [|x t IH]; simpl; [lra|]. rewrite IH. lra. Qed.

Section Cert.
Variable n : nat.
Variable w : nat -> nat -> option Q.
Variables (u v : nat -> Q).
Definition rows := seq 0 n.
Definition assignment (tau : list nat) : Prop := Permutation tau rows.            (* agent i gets item (nth i tau) *)
Definition acceptable (tau : list nat) : Prop := forall i j, In (i, j) (combine rows tau) -> w i j <> None.
Definition wval (i j : nat) : Q := match w i j with Some x => x | None => 0 end.
Definition welfare (tau : list nat) : Q := sumL (map (fun ij => wval (fst ij) (snd ij)) (combine rows tau)).

Definition dual_feasible : Prop := forall i j, (i < n)%nat -> (j < n)%nat -> forall x, w i j = Some x -> x <= u i + v j.
Definition tight (sg : list nat) : Prop := forall i j, In (i, j) (combine rows sg) -> forall x, w i j = Some x -> x == u i + v j.

Lemma combine_sum_split (tau : list nat) : length tau = n ->
  sumL (map (fun ij => u (fst ij) + v (snd ij)) (combine rows tau)) == sumL (map u rows) + sumL (map v tau).
Proof.
  unfold rows. generalize 0%nat as s. revert tau. induction n as [|k IH]; intros tau s Hlen.
  - destruct tau; [simpl; lra|discriminate].
  - destruct tau as [|j t]; [discriminate|]. simpl. injection Hlen as Hlen. rewrite (IH t (S s) Hlen). lra.
Qed.

Theorem cert_sound sg : assignment sg -> acceptable sg -> dual_feasible -> tight sg ->
  forall tau, assignment tau -> acceptable tau -> welfare tau <= welfare sg.
Proof.
  intros Hsg Hasg Hdual Htight tau Htau Hatau.
  assert (Lsg : length sg = n) by (rewrite (Permutation_length Hsg); apply seq_length).
  assert (Ltau : length tau = n) by (rewrite (Permutation_length Htau); apply seq_length).
  assert (Bound : forall t, assignment t -> length t = n -> forall i j, In (i, j) (combine rows t) -> (i < n)%nat /\ (j < n)%nat).
  { intros t Ht Hl i j Hin. split.
    - apply in_combine_l in Hin. apply in_seq in Hin. lia.
    - apply in_combine_r in Hin. apply (Permutation_in _ Ht) in Hin. apply in_seq in Hin. lia. }
  (* welfare tau <= sum of potentials = welfare sg *)
  assert (Up : welfare tau <= sumL (map (fun ij => u (fst ij) + v (snd ij)) (combine rows tau))).
  { unfold welfare. assert (H : forall l, (forall i j, In (i, j) l -> In (i, j) (combine rows tau)) ->
        sumL (map (fun ij => wval (fst ij) (snd ij)) l) <= sumL (map (fun ij => u (fst ij) + v (snd ij)) l)).
    { induction l as [|[i j] r IH]; intros Hsub; simpl; [lra|].
      assert (Hin : In (i, j) (combine rows tau)) by (apply Hsub; now left).
      destruct (Bound tau Htau Ltau i j Hin) as [Hi Hj].
      assert (wval i j <= u i + v j).
      { unfold wval. destruct (w i j) as [x|] eqn:E; [apply (Hdual i j Hi Hj x E)|exfalso; exact (Hatau i j Hin E)]. }
      assert (sumL (map (fun ij => wval (fst ij) (snd ij)) r) <= sumL (map (fun ij => u (fst ij) + v (snd ij)) r)) by (apply IH; intros; apply Hsub; now right).
      lra. }
    apply H. auto. }
  assert (Eq : welfare sg == sumL (map (fun ij => u (fst ij) + v (snd ij)) (combine rows sg))).
  { unfold welfare. assert (H : forall l, (forall i j, In (i, j) l -> In (i, j) (combine rows sg)) ->
        sumL (map (fun ij => wval (fst ij) (snd ij)) l) == sumL (map (fun ij => u (fst ij) + v (snd ij)) l)).
    { induction l as [|[i j] r IH]; intros Hsub; simpl; [lra|].
      assert (Hin : In (i, j) (combine rows sg)) by (apply Hsub; now left).
      assert (wval i j == u i + v j).
      { unfold wval. destruct (w i j) as [x|] eqn:E; [apply (Htight i j Hin x E)|exfalso; exact (Hasg i j Hin E)]. }
      rewrite IH by (intros; apply Hsub; now right). lra. }
    apply H. auto. }
  rewrite Eq. eapply Qle_trans; [exact Up|].
  rewrite (combine_sum_split tau Ltau), (combine_sum_split sg Lsg).
  assert (sumL (map v tau) == sumL (map v sg)).
  { apply sumL_perm. apply Permutation_map. eapply Permutation_trans; [exact Htau|symmetry; exact Hsg]. }
  lra.
Qed.
End Cert.
Print Assumptions cert_sound.
