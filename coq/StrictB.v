(* Boolean "strict profile" check (every row's non-NaN 0-based ranks are exactly 0..k-1, each once),
   sound for Argsort.dense; evaluated by the kernel on every explored case. *)
From Coq Require Import Arith List Bool Lia.
Import ListNotations.
From SCK Require Import Argsort.

Definition isSome (o : okey) : bool := match o with Some _ => true | None => false end.
Definition kcount (row : list okey) : nat := length (filter isSome row).
Definition okey_is (x : nat) (o : okey) : bool := match o with Some y => Nat.eqb x y | None => false end.
Definition count_is (x : nat) (row : list okey) : nat := length (filter (okey_is x) row).

Definition denseb (row : list okey) : bool :=
  let k := kcount row in
  forallb (fun o => match o with Some x => x <? k | None => true end) row &&
  forallb (fun x => Nat.eqb (count_is x row) 1) (seq 0 k).

Lemma count_is_two row j j' x : j <> j' -> nth_error row j = Some (Some x) -> nth_error row j' = Some (Some x) -> 2 <= count_is x row.
Proof.
  unfold count_is. revert j j'. induction row as [|o t IH]; intros j j' Hne Hj Hj'; [destruct j; discriminate|].
  destruct j as [|j], j' as [|j']; simpl in *.
  - congruence.
  - injection Hj as ->. simpl. rewrite Nat.eqb_refl. simpl.
    assert (1 <= length (filter (okey_is x) t)).
    { clear -Hj'. revert j' Hj'. induction t as [|o t IH]; intros j' H; [destruct j'; discriminate|].
      destruct j'; simpl in *. - injection H as ->. simpl. rewrite Nat.eqb_refl. simpl. lia.
      - specialize (IH _ H). destruct (okey_is x o); simpl; lia. }
    lia.
  - injection Hj' as ->. simpl. rewrite Nat.eqb_refl. simpl.
    assert (1 <= length (filter (okey_is x) t)).
    { clear -Hj. revert j Hj. induction t as [|o t IH]; intros j H; [destruct j; discriminate|].
      destruct j; simpl in *. - injection H as ->. simpl. rewrite Nat.eqb_refl. simpl. lia.
      - specialize (IH _ H). destruct (okey_is x o); simpl; lia. }
    lia.
  - assert (j <> j') by congruence. specialize (IH j j' H Hj Hj'). destruct (okey_is x o); simpl; lia.
Qed.

Lemma count_is_pos row x : 1 <= count_is x row -> exists j, nth_error row j = Some (Some x).
Proof.
  unfold count_is. induction row as [|o t IH]; simpl; intros H; [lia|].
  destruct o as [y|]; simpl in H.
  - destruct (Nat.eqb x y) eqn:E.
    + apply Nat.eqb_eq in E. subst. exists 0. reflexivity.
    + destruct (IH H) as [j Hj]. exists (S j). exact Hj.
  - destruct (IH H) as [j Hj]. exists (S j). exact Hj.
Qed.

Theorem denseb_sound row : denseb row = true -> dense row (kcount row).
Proof.
  unfold denseb. intros H. apply andb_prop in H as [H1 H2].
  rewrite forallb_forall in H1. rewrite forallb_forall in H2.
  split; [|split].
  - intros j x Hj. apply nth_error_In in Hj. specialize (H1 _ Hj). cbn in H1. apply Nat.ltb_lt in H1. exact H1.
  - intros x Hx. apply count_is_pos. assert (Hin : In x (seq 0 (kcount row))) by (apply in_seq; lia).
    specialize (H2 _ Hin). apply Nat.eqb_eq in H2. lia.
  - intros j j' x Hj Hj'. destruct (Nat.eq_dec j j') as [E|Hne]; [exact E|exfalso].
    pose proof (count_is_two row j j' x Hne Hj Hj') as H2'.
    assert (Hlt : x < kcount row).
    { apply nth_error_In in Hj. specialize (H1 _ Hj). cbn in H1. apply Nat.ltb_lt in H1. exact H1. }
    assert (Hin : In x (seq 0 (kcount row))) by (apply in_seq; lia).
    specialize (H2 _ Hin). apply Nat.eqb_eq in H2. lia.
Qed.

(* a whole profile: rows rows, each of length cols, each dense *)
Definition strictb (P : list (list okey)) (cols : nat) : bool :=
  forallb (fun row => Nat.eqb (length row) cols && denseb row) P.

Lemma denseb_nil : dense [] 0.
Proof. split; [|split]. - intros j x H. destruct j; discriminate. - intros x H. lia. - intros j j' x H. destruct j; discriminate. Qed.

Theorem strictb_sound P cols : strictb P cols = true ->
  (forall i, dense (nth i P []) (kcount (nth i P []))) /\ (forall i, i < length P -> length (nth i P []) = cols).
Proof.
  unfold strictb. intros H. rewrite forallb_forall in H. split.
  - intros i. destruct (Nat.lt_ge_cases i (length P)) as [Hi|Hi].
    + specialize (H _ (nth_In P [] Hi)). apply andb_prop in H as [_ H]. apply denseb_sound. exact H.
    + rewrite (nth_overflow P [] Hi). exact denseb_nil.
  - intros i Hi. specialize (H _ (nth_In P [] Hi)). apply andb_prop in H as [H _]. apply Nat.eqb_eq. exact H.
Qed.
