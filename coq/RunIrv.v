(* Correspondence checkers for Irving.scf and its public stages (C03, C17). *)
From Coq Require Import ZArith List Bool.
Import ListNotations.
From SCK Require Import Irving.

Definition irv_case : Type := (list (list nat) * list (list nat) * list (list Z) * list (list Z) * nat * expect)%type.
(* every intermediate structure and the final matching agree with the observed ones *)
Definition chk_irv (c : irv_case) : bool := Nat.eqb (icheck c) 0.

(* final matching only (used by C17, where the valuations are the simulated ones) *)
Definition irv_out_case : Type := (list (list nat) * list (list nat) * list (list Z) * list (list Z) * nat * list (nat * nat))%type.
Definition chk_irv_out (c : irv_out_case) : bool :=
  let '(P1, P2, V1, V2, ff, e) := c in
  match irving P1 P2 V1 V2 ff with
  | Some t => match t_out t with Some o => lp_eqb o e | None => false end
  | None => false
  end.
