(* Correspondence checkers for Irving.scf and its public stages (C03, C17). *)
From Coq Require Import ZArith List Bool.
Import ListNotations.
From SCK Require Import Irving IrvRot IrvStable StableCheck.

Definition irv_case : Type := (list (list nat) * list (list nat) * list (list Z) * list (list Z) * nat * expect)%type.
(* every intermediate structure and the final matching agree with the observed ones *)
(* hypothesis of IrvRot.irving_elimination_sound on this run: the Gale-Shapley matching is perfect and every selected
   rotation is exposed (distinct men, all pairs present) in the matching it is eliminated from *)
Definition elim_hyp (t : trace) : bool :=
  perfectb (t_M0 t) && exposed_allb (t_M0 t) (map (fun i => nth i (t_rots t) []) (t_S t)).
(* hypotheses of IrvBridge.irving_final_stable_wives: the first matching is a stable perfect matching of 0..n-1, the men's
   rows are strict, and every selected rotation is exposed (next woman = first one who prefers the man to her husband) in
   the matching it is eliminated from *)
Definition stab_hyp (P1 P2 : list (list nat)) (t : trace) : bool :=
  let n := length P1 in
  perfect_b n (map fst (t_M0 t)) && perfect_b n (map snd (t_M0 t)) && pstableb P1 P2 (t_M0 t) && strict_onb P1 (t_M0 t) &&
  exposed_full_allb P1 P2 (t_M0 t) (map (fun i => nth i (t_rots t) []) (t_S t)).
Definition chk_irv (c : irv_case) : bool :=
  let '(P1, P2, V1, V2, ff, e) := c in
  match irving P1 P2 V1 V2 ff with
  | Some t => Nat.eqb (icheck_t t e) 0 && elim_hyp t && stab_hyp P1 P2 t
  | None => false
  end.

(* final matching only (used by C17, where the valuations are the simulated ones) *)
Definition irv_out_case : Type := (list (list nat) * list (list nat) * list (list Z) * list (list Z) * nat * list (nat * nat))%type.
Definition chk_irv_out (c : irv_out_case) : bool :=
  let '(P1, P2, V1, V2, ff, e) := c in
  match irving P1 P2 V1 V2 ff with
  | Some t => match t_out t with Some o => lp_eqb o e | None => false end && elim_hyp t && stab_hyp P1 P2 t
  | None => false
  end.
