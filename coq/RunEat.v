(* Correspondence checker for SimultaneousEating.bistochastic / ProbabilisticSerial.bistochastic (C05). *)
From Coq Require Import Arith ZArith QArith List Bool.
Import ListNotations.
From SCK Require Import Argsort Eat3 EatFinal EatSnap.
From SCK Require Eating.

Definition eat_case : Type := (list (list okey) * list Q * list (list Q))%type.
Definition chk_eat (c : eat_case) : bool :=
  let '(P, speeds, E) := c in
  let n := length P in
  (1 <=? n)%nat && forallb (fun row => (length row =? n)%nat) P && forallb (fun s => negb (Qle_bool s 0)) speeds && (length speeds =? n)%nat &&
  match eating_run P speeds with Some Xm => Eating.mclose (1 # 10000000) Xm E | None => false end.
(* informational: does the exact run stay outside the code's snapping windows (the hypothesis of gen/EatLoopGenProof.gen_eat_is_model)? *)
Definition chk_eat_ok (c : eat_case) : bool := let '(P, speeds, _) := c in eat_run_ok P speeds.
