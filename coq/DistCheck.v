(* Per-case evaluation of the hypotheses of the distortion theorems on the data the code produced (C16). *)
From Coq Require Import ZArith QArith List Bool Lia.
Import ListNotations.
From SCK Require Import Distortion.
Local Open Scope Q_scope.

Definition mq (M : list (list Q)) (i j : nat) : Q := nth j (nth i M []) 0.
Fixpoint qpow (x : Q) (k : nat) : Q := match k with O => 1 | S k' => Qred (x * qpow x k') end.
(* k-ARV: true values V, simulated values Vt, favourites, last thresholds tk, rho, reported winner y (0-based) *)
(* relative rounding error allowed for a float sum of at most a few hundred non-negative doubles *)
Definition fsum_slack : Q := 1 # 1000000000000.
Definition karv_hyp_case : Type := (list (list Q) * list (list Q) * list nat * list Q * Q * nat * nat)%type.
Definition chk_karv_hyp (c : karv_hyp_case) : bool :=
  let '(V, Vt, fav, tk, rho, k, y) := c in
  let n := length V in let m := length (nth 0 V []) in
  let I := seq 0 n in let J := seq 0 m in
  let mQ := inject_Z (Z.of_nat m) in
  Qle_bool 0 rho &&
  Qle_bool mQ (qpow rho (S k)) &&                                  (* rho >= m^(1/(k+1)) *)
  forallb (fun i => forallb (fun j => Qle_bool 0 (mq Vt i j) && Qle_bool (mq Vt i j) (mq V i j)) J) I &&          (* H1 *)
  forallb (fun i => forallb (fun j => Qle_bool (mq V i j) (rho * mq Vt i j + nth i tk 0)) J) I &&                 (* H2 *)
  forallb (fun i => Qle_bool (mQ * nth i tk 0) (rho * mq Vt i (nth i fav O))) I &&                                (* H3 *)
  forallb (fun i => (nth i fav O <? m)%nat) I &&                                                                  (* H4 *)
  (y <? m)%nat &&
  (* Hmax up to the rounding of the implementation's float column sums (karv_distortion_slack, delta = 1e-12) *)
  forallb (fun j => Qle_bool (sumQ (fun i => mq Vt i j) I) ((1 + fsum_slack) * sumQ (fun i => mq Vt i y) I)) J &&
  forallb (fun x => Qle_bool (sumQ (fun i => mq V i x) I) (2 * rho * (1 + fsum_slack) * sumQ (fun i => mq V i y) I)) J.   (* conclusion, for every x *)

(* lambda-TSF: H1-H3 of tsf_distortion (eps floor included); the maximality of the chosen assignment is C04's certificate *)
Definition tsf_hyp_case : Type := (list (list Q) * list (list Q) * list nat * list Q * Q * Q * nat)%type.
Definition chk_tsf_hyp (c : tsf_hyp_case) : bool :=
  let '(V, Vt, fav, tk, rho, eps, k) := c in
  let n := length V in let I := seq 0 n in
  let nQ := inject_Z (Z.of_nat n) in
  Qle_bool 0 rho && Qle_bool nQ (qpow rho (S k)) &&
  forallb (fun i => forallb (fun j => Qle_bool 0 (mq Vt i j) && Qle_bool (mq Vt i j) (mq V i j + eps)) I) I &&
  forallb (fun i => forallb (fun j => Qle_bool (mq V i j) (rho * mq Vt i j + nth i tk 0)) I) I &&
  forallb (fun i => Qle_bool (nQ * nth i tk 0) (rho * mq Vt i (nth i fav O))) I.

(* numeric facts about the float thresholds assumed by the end-to-end theorem KarvFinal.karv_end_to_end:
   rho >= 1, 0 <= tau, tau non-increasing, v_fav <= rho tau_1, tau_l <= rho tau_(l+1), m tau_k <= rho v_fav *)
Definition karv_num_case : Type := (list Q * list (list Q) * Q * nat * nat)%type.
Definition chk_karv_num (c : karv_num_case) : bool :=
  let '(vfav, tau, rho, m, k) := c in
  let n := length vfav in
  let t := fun i l => nth (l - 1) (nth i tau []) 0 in
  Qle_bool 1 rho && (1 <=? k)%nat &&
  forallb (fun i =>
     forallb (fun l => Qle_bool 0 (t i l)) (seq 1 k) &&
     forallb (fun l => Qle_bool (t i (S l)) (t i l) && Qle_bool (t i l) (rho * t i (S l))) (seq 1 (k - 1)) &&
     Qle_bool (nth i vfav 0) (rho * t i 1%nat) &&
     Qle_bool (inject_Z (Z.of_nat m) * t i k) (rho * nth i vfav 0)) (seq 0 n).
