From Coq Require Import ZArith List Bool Lia.
Import ListNotations.
From SCK Require Import RSD.
Local Open Scope Z_scope.

Lemma memn_In x l : memn x l = true <-> In x l.
Proof.
  unfold memn. rewrite existsb_exists. split.
  - intros [y [Hy E]]. apply Nat.eqb_eq in E. subst. exact Hy.
  - intros H. exists x. split; [exact H|apply Nat.eqb_refl].
Qed.

(* ---------- the scan picks a best remaining acceptable item ---------- *)
Section Scan.
Variable full : list (option Z).
Variable taken : list nat.
Definition availabs (j : nat) (rk : Z) : Prop := nth_error full j = Some (Some rk) /\ ~ In j taken.
Definition Good (off : nat) (best : option (nat * Z)) : Prop :=
  match best with
  | None => forall j rk, (j < off)%nat -> ~ availabs j rk
  | Some (b, rb) => availabs b rb /\ (b < off)%nat /\ forall j rk, (j < off)%nat -> availabs j rk -> rb <= rk /\ (rb = rk -> (b <= j)%nat)
  end.

Lemma best_from_good row : forall pre best, full = pre ++ row -> Good (length pre) best ->
  Good (length full) (best_from row taken (length pre) best).
Proof.
  induction row as [|r t IH]; intros pre best Hfull HG; cbn [best_from].
  - rewrite Hfull, app_nil_r. exact HG.
  - set (off := length pre) in *.
    assert (Hoff : nth_error full off = Some r) by (rewrite Hfull; unfold off; rewrite nth_error_app2 by lia; rewrite Nat.sub_diag; reflexivity).
    replace (S off) with (length (pre ++ [r])) by (rewrite app_length; simpl; unfold off; lia).
    apply IH; [rewrite Hfull, <- app_assoc; reflexivity|].
    rewrite app_length. cbn [length]. replace (length pre + 1)%nat with (S off) by (unfold off; lia).
    (* one step of the scan *)
    assert (Hlt : forall j, (j < S off)%nat -> (j < off)%nat \/ j = off) by (intros; lia).
    destruct r as [rk|].
    + destruct (memn off taken) eqn:Em.
      * apply memn_In in Em. destruct best as [[b rb]|]; cbn [Good] in *.
        -- destruct HG as [A [B C]]. split; [exact A|]. split; [lia|]. intros j rk' Hj Hav. destruct (Hlt j Hj) as [H| ->]; [apply C; assumption|]. destruct Hav as [_ Hn]. contradiction.
        -- intros j rk' Hj Hav. destruct (Hlt j Hj) as [H| ->]; [exact (HG j rk' H Hav)|]. destruct Hav as [_ Hn]. contradiction.
      * assert (Hnt : ~ In off taken) by (intros Hin; apply memn_In in Hin; congruence).
        assert (Hav0 : availabs off rk) by (split; assumption).
        destruct best as [[b rb]|]; cbn [Good] in *.
        -- destruct HG as [A [B C]]. destruct (Z.ltb_spec rk rb) as [Hl|Hge]; cbn [Good].
           ++ split; [exact Hav0|]. split; [lia|]. intros j rk' Hj Hav. destruct (Hlt j Hj) as [H| ->].
              ** destruct (C j rk' H Hav) as [C1 C2]. split; [lia|]. intros. lia.
              ** destruct Hav as [Hn _]. rewrite Hoff in Hn. injection Hn as <-. split; [lia|]. intros. lia.
           ++ split; [exact A|]. split; [lia|]. intros j rk' Hj Hav. destruct (Hlt j Hj) as [H| ->]; [apply C; assumption|].
              destruct Hav as [Hn _]. rewrite Hoff in Hn. injection Hn as <-. split; [lia|]. intros. lia.
        -- split; [exact Hav0|]. split; [lia|]. intros j rk' Hj Hav. destruct (Hlt j Hj) as [H| ->]; [exfalso; exact (HG j rk' H Hav)|].
           destruct Hav as [Hn _]. rewrite Hoff in Hn. injection Hn as <-. split; [lia|]. intros. lia.
    + destruct best as [[b rb]|]; cbn [Good] in *.
      * destruct HG as [A [B C]]. split; [exact A|]. split; [lia|]. intros j rk' Hj Hav. destruct (Hlt j Hj) as [H| ->]; [apply C; assumption|].
        destruct Hav as [Hn _]. rewrite Hoff in Hn. discriminate.
      * intros j rk' Hj Hav. destruct (Hlt j Hj) as [H| ->]; [exact (HG j rk' H Hav)|]. destruct Hav as [Hn _]. rewrite Hoff in Hn. discriminate.
Qed.
End Scan.

(* np.nanargmin on the blanked row: an acceptable, not yet taken item of minimal rank (first such column);
   None exactly when no acceptable item remains *)
Theorem best_remaining_spec row taken :
  match best_remaining row taken with
  | Some j => exists rk, nth_error row j = Some (Some rk) /\ ~ In j taken /\
              forall j' rk', nth_error row j' = Some (Some rk') -> ~ In j' taken -> rk <= rk' /\ (rk = rk' -> (j <= j')%nat)
  | None => forall j rk, nth_error row j = Some (Some rk) -> In j taken
  end.
Proof.
  unfold best_remaining.
  pose proof (best_from_good row taken row [] None eq_refl) as H. cbn [length] in H.
  assert (G0 : Good row taken 0 None) by (intros j rk Hj; lia). specialize (H G0).
  destruct (best_from row taken 0 None) as [[j rk]|]; cbn [option_map fst Good] in *.
  - destruct H as [[A1 A2] [B C]]. exists rk. split; [exact A1|]. split; [exact A2|].
    intros j' rk' Hj' Hnt. apply C; [|split; assumption]. apply nth_error_Some. congruence.
  - intros j rk Hj. destruct (in_dec Nat.eq_dec j taken) as [Hin|Hnt]; [exact Hin|exfalso].
    apply (H j rk); [apply nth_error_Some; congruence|split; assumption].
Qed.

(* ---------- the serial dictatorship: valid allocation for every order without repetition ---------- *)
Lemma upd_length {A} (l : list A) i x : length (upd l i x) = length l.
Proof. revert i; induction l as [|y t IH]; intros i; destruct i; simpl; auto. Qed.
Lemma upd_nth_same {A} (l : list A) i x d : (i < length l)%nat -> nth i (upd l i x) d = x.
Proof. revert i; induction l as [|y t IH]; intros i H; destruct i; simpl in *; try lia; [reflexivity|apply IH; lia]. Qed.
Lemma upd_nth_other {A} (l : list A) i j x d : i <> j -> nth j (upd l i x) d = nth j l d.
Proof. revert i j; induction l as [|y t IH]; intros i j H; destruct i, j; simpl; try reflexivity; try lia. apply IH. lia. Qed.

Section RSDInv.
Variable P : list (list (option Z)).
Variable fixer : Z.
Let n := length P.

(* invariant after processing the agents in `done` *)
Record Inv (done : list nat) (st : list (option Z) * list nat) : Prop := {
  inv_len : length (fst st) = n;
  inv_none : forall a, ~ In a done -> nth a (fst st) None = None;
  inv_acc : forall a x, nth a (fst st) None = Some x ->
            exists item rk, x = Z.of_nat item + fixer /\ In item (snd st) /\ nth_error (nth a P []) item = Some (Some rk);
  inv_inj : forall a b x, a <> b -> nth a (fst st) None = Some x -> nth b (fst st) None = Some x -> False;
  inv_taken : forall item, In item (snd st) -> exists a, nth a (fst st) None = Some (Z.of_nat item + fixer)
}.

Lemma inv_init : Inv [] (repeat None n, []).
Proof.
  constructor; cbn [fst snd].
  - apply repeat_length.
  - intros a _. destruct (nth_in_or_default a (repeat (@None Z) n) None) as [H|H]; [apply repeat_spec in H; exact H|exact H].
  - intros a x H. destruct (nth_in_or_default a (repeat (@None Z) n) None) as [H'|H']; [apply repeat_spec in H'; congruence|congruence].
  - intros a b x _ H. destruct (nth_in_or_default a (repeat (@None Z) n) None) as [H'|H']; [apply repeat_spec in H'; congruence|congruence].
  - intros item [].
Qed.

Lemma inv_step done st a : Inv done st -> ~ In a done -> (a < n)%nat -> Inv (a :: done) (rsd_step P fixer st a).
Proof.
  intros I Hnd Ha. destruct st as [alloc taken]. unfold rsd_step.
  pose proof (best_remaining_spec (nth a P []) taken) as Hb.
  destruct (best_remaining (nth a P []) taken) as [item|].
  - destruct Hb as [rk [Hrow [Hnt _]]].
    pose proof (inv_len _ _ I) as Hlen. cbn [fst snd] in *.
    assert (Ha_none : nth a alloc None = None) by (apply (inv_none _ _ I); exact Hnd).
    constructor; cbn [fst snd].
    + rewrite upd_length. exact Hlen.
    + intros b Hb'. rewrite upd_nth_other by (intros ->; apply Hb'; now left). apply (inv_none _ _ I). intros H; apply Hb'; now right.
    + intros b x Hx. destruct (Nat.eq_dec a b) as [<-|Hne].
      * rewrite upd_nth_same in Hx by lia. injection Hx as <-. exists item, rk. split; [reflexivity|]. split; [now left|exact Hrow].
      * rewrite upd_nth_other in Hx by exact Hne. destruct (inv_acc _ _ I b x Hx) as [it [rk' [E [Hin Hr]]]]. exists it, rk'. split; [exact E|]. split; [now right|exact Hr].
    + intros b c x Hbc Hb' Hc'.
      assert (Hfresh : forall d, d <> a -> nth d alloc None = Some (Z.of_nat item + fixer) -> False).
      { intros d Hd Hx. destruct (inv_acc _ _ I d _ Hx) as [it [rk' [E [Hin _]]]]. assert (it = item) by lia. subst. cbn [snd] in Hin. contradiction. }
      destruct (Nat.eq_dec a b) as [<-|Hab]; destruct (Nat.eq_dec a c) as [<-|Hac]; try congruence.
      * rewrite upd_nth_same in Hb' by lia. injection Hb' as <-. rewrite upd_nth_other in Hc' by exact Hac. apply (Hfresh c); [congruence|exact Hc'].
      * rewrite upd_nth_same in Hc' by lia. injection Hc' as <-. rewrite upd_nth_other in Hb' by exact Hab. apply (Hfresh b); [congruence|exact Hb'].
      * rewrite upd_nth_other in Hb' by exact Hab. rewrite upd_nth_other in Hc' by exact Hac. exact (inv_inj _ _ I b c x Hbc Hb' Hc').
    + intros it [<-|Hin].
      * exists a. rewrite upd_nth_same by lia. reflexivity.
      * destruct (inv_taken _ _ I it Hin) as [b Hb']. cbn [fst] in Hb'. exists b. rewrite upd_nth_other; [exact Hb'|]. intros <-. congruence.
  - constructor; cbn [fst snd].
    + apply (inv_len _ _ I).
    + intros b Hb'. apply (inv_none _ _ I). intros H. apply Hb'. now right.
    + apply (inv_acc _ _ I).
    + apply (inv_inj _ _ I).
    + apply (inv_taken _ _ I).
Qed.

Lemma inv_fold order : NoDup order -> (forall a, In a order -> (a < n)%nat) ->
  forall done st, Inv done st -> (forall a, In a order -> ~ In a done) ->
  Inv (rev order ++ done) (fold_left (rsd_step P fixer) order st).
Proof.
  induction order as [|a t IH]; intros Hnd Hlt done st I Hdis; [exact I|].
  inversion Hnd as [|? ? Ha Ht]; subst. cbn [fold_left rev]. rewrite <- app_assoc. cbn [app].
  apply IH; [exact Ht|intros b Hb; apply Hlt; now right| |].
  - apply inv_step; [exact I|apply Hdis; now left|apply Hlt; now left].
  - intros b Hb [<-|Hin]; [contradiction|]. apply (Hdis b); [now right|exact Hin].
Qed.

(* C07 for the model: for every picking order without repetition, nobody shares an item and every
   received item is acceptable to its receiver *)
Theorem rsd_valid order : NoDup order -> (forall a, In a order -> (a < n)%nat) ->
  let alloc := rsd P order fixer in
  length alloc = n /\
  (forall a x, nth a alloc None = Some x -> exists item rk, x = Z.of_nat item + fixer /\ nth_error (nth a P []) item = Some (Some rk)) /\
  (forall a b x, a <> b -> nth a alloc None = Some x -> nth b alloc None = Some x -> False).
Proof.
  intros Hnd Hlt. cbv zeta. unfold rsd. fold n.
  pose proof (inv_fold order Hnd Hlt [] _ inv_init (fun _ _ H => H)) as I.
  split; [apply (inv_len _ _ I)|]. split.
  - intros a x Hx. destruct (inv_acc _ _ I a x Hx) as [it [rk [E [_ Hr]]]]. exists it, rk. tauto.
  - apply (inv_inj _ _ I).
Qed.
End RSDInv.
