(* C11 for Copeland: anonymity and neutrality of the coded sign-of-sum-of-signs score. *)
From Coq Require Import ZArith List Bool Lia Permutation.
Import ListNotations.
From SCK Require Import Voting VotingProof VoteMore.
Local Open Scope Z_scope.

Lemma sumZl_perm l l' : Permutation l l' -> sumZl l = sumZl l'.
Proof. induction 1; rewrite ?sumZl_cons; lia. Qed.
Lemma sumZl_map_ext {A} (f g : A -> Z) l : (forall x, In x l -> f x = g x) -> sumZl (map f l) = sumZl (map g l).
Proof. intros H. f_equal. apply map_ext_in. exact H. Qed.

Lemma copeland_as_net P : copeland P = let m := length (nth 0 P []) in map (fun i => sumZl (map (fun j => sgn (net P i j)) (seq 0 m))) (seq 0 m).
Proof. reflexivity. Qed.

(* anonymity: reordering the voters leaves every Copeland score unchanged *)
Theorem copeland_anonymous P P' : Permutation P P' -> length (nth 0 P []) = length (nth 0 P' []) -> copeland P = copeland P'.
Proof.
  intros Hp Hm. rewrite !copeland_as_net. cbv zeta. rewrite <- Hm. apply map_ext. intros i. f_equal. apply map_ext. intros j. f_equal.
  unfold net. apply sumZl_perm. apply Permutation_map. exact Hp.
Qed.

(* neutrality: renaming the alternatives by a permutation sigma of 0..m-1 permutes the scores by sigma *)
Theorem copeland_neutral P m sigma : (forall row, In row P -> length row = m) -> length (nth 0 P []) = m ->
  Permutation (map sigma (seq 0 m)) (seq 0 m) ->
  forall i, (i < m)%nat -> nth i (copeland (rename sigma m P)) 0 = nth (sigma i) (copeland P) 0.
Proof.
  intros Hlen Hm Hs i Hi.
  assert (Hsi : forall j, (j < m)%nat -> (sigma j < m)%nat).
  { intros j Hj. assert (In (sigma j) (seq 0 m)) by (apply (Permutation_in _ Hs); apply in_map; apply in_seq; lia). apply in_seq in H. lia. }
  assert (Hm' : length (nth 0 (rename sigma m P) []) = m).
  { destruct P as [|r0 t]; [simpl in *; exact Hm|]. simpl. rewrite map_length, seq_length. reflexivity. }
  rewrite !copeland_as_net. cbv zeta. rewrite Hm, Hm'.
  rewrite (nth_map_default (fun i0 => sumZl (map (fun j => sgn (net (rename sigma m P) i0 j)) (seq 0 m))) (seq 0 m) 0 0%nat i) by (rewrite seq_length; exact Hi).
  rewrite (nth_map_default (fun i0 => sumZl (map (fun j => sgn (net P i0 j)) (seq 0 m))) (seq 0 m) 0 0%nat (sigma i)) by (rewrite seq_length; apply Hsi; exact Hi).
  rewrite !seq_nth by (try apply Hsi; exact Hi). cbn [plus].
  (* net of the renamed profile *)
  assert (Hnet : forall a b, (a < m)%nat -> (b < m)%nat -> net (rename sigma m P) a b = net P (sigma a) (sigma b)).
  { intros a b Ha Hb. unfold net, rename. rewrite map_map. apply sumZl_map_ext. intros row _.
    rewrite !(nth_map_default (fun j0 => nth (sigma j0) row 0) (seq 0 m) 0 0%nat) by (rewrite seq_length; assumption).
    rewrite !seq_nth by assumption. reflexivity. }
  rewrite (sumZl_map_ext (fun j => sgn (net (rename sigma m P) i j)) (fun j => sgn (net P (sigma i) (sigma j)))) by (intros j Hj; apply in_seq in Hj; rewrite Hnet by lia; reflexivity).
  rewrite <- (map_map sigma (fun j' => sgn (net P (sigma i) j'))). apply sumZl_perm. apply Permutation_map. exact Hs.
Qed.

(* STV: anonymity for every sequence of tie-break answers (the plurality counts do not depend on voter order, and
   dropping an alternative commutes with reordering the voters) *)
Theorem stv_anonymous fuel : forall P P' alts oracle, Permutation P P' -> stv_loop fuel P alts oracle = stv_loop fuel P' alts oracle.
Proof.
  induction fuel as [|f IH]; intros P P' alts oracle Hp; [reflexivity|]. cbn [stv_loop].
  destruct alts as [|a [|b r]]; [| reflexivity |].
  - assert (E : plurality_counts P (length (@nil Z)) = plurality_counts P' (length (@nil Z))) by reflexivity. rewrite E.
    destruct oracle as [|o os]; [reflexivity|]. destruct (nth_error _ o); [|reflexivity]. apply IH. unfold drop_alt. apply Permutation_map. exact Hp.
  - assert (E : plurality_counts P (length (a :: b :: r)) = plurality_counts P' (length (a :: b :: r))).
    { unfold plurality_counts. apply map_ext. intros j. apply sumZl_perm. apply Permutation_map. exact Hp. }
    rewrite E. destruct oracle as [|o os]; [reflexivity|]. destruct (nth_error _ o); [|reflexivity]. apply IH. unfold drop_alt. apply Permutation_map. exact Hp.
Qed.
