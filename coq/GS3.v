From Coq Require Import ZArith List Bool Lia Arith.
Import ListNotations.
Require GS.
Require Import GS2.

(* Function-state version of the (repaired) hospital-oriented loop. *)
Section HospLoop.
Variables (n m : nat).
Variable prefH : nat -> nat -> option nat.   (* hospital h's k-th choice if it exists and is acceptable to h *)
Variable rkR : nat -> nat -> option nat.     (* resident r's 0-based rank of hospital h, None = unacceptable *)
Variable cap : nat -> nat.

Record hst := { offers : nat -> nat; rwl : nat -> option nat; acc : nat -> Z; cur : nat -> nat }.

Definition hosp_step (st : hst) (h : nat) : hst :=
  if negb (Nat.eqb (cur st h) 1) then st else
  let k := offers st h in
  match prefH h k with
  | None => {| offers := offers st; rwl := rwl st; acc := acc st; cur := fupd (cur st) h 2 |}
  | Some r =>
    let offers' := fupd (offers st) h (S k) in
    match rkR r h with
    | None => {| offers := offers'; rwl := rwl st; acc := acc st; cur := cur st |}
    | Some rr =>
      let take := match rwl st r with
                  | None => true
                  | Some h0 => match rkR r h0 with Some r0 => rr <? r0 | None => false end
                  end in
      if take then
        let acc1 := fupd (acc st) h (acc st h + 1)%Z in
        let acc2 := match rwl st r with Some h0 => fupd acc1 h0 (acc1 h0 - 1)%Z | None => acc1 end in
        {| offers := offers'; rwl := fupd (rwl st) r (Some h); acc := acc2; cur := cur st |}
      else {| offers := offers'; rwl := rwl st; acc := acc st; cur := cur st |}
    end
  end.

Definition reflag (st : hst) : nat -> nat :=
  fun h => if Nat.eqb (cur st h) 2 then 2 else if (Z.of_nat (cap h) =? acc st h)%Z then 0 else 1.
Fixpoint hosp_loop (fuel : nat) (st : hst) : option hst :=
  match fuel with O => None | S f =>
    let cur' := reflag st in
    if forallb (fun h => negb (Nat.eqb (cur' h) 1)) (seq 0 m) then Some st
    else hosp_loop f (fold_left hosp_step (seq 0 m) {| offers := offers st; rwl := rwl st; acc := acc st; cur := cur' |})
  end.
Definition hosp_init : hst := {| offers := fun _ => 0; rwl := fun _ => None; acc := fun _ => 0%Z; cur := fun _ => 1 |}.
Definition hosp_out (st : hst) : list (nat * nat) :=
  flat_map (fun r => match rwl st r with Some h => [(r, h)] | None => [] end) (seq 0 n).
End HospLoop.

Definition mk_prefH (H : list (list GS.oz)) (n : nat) (h k : nat) : option nat :=
  if (n <=? k)%nat then None else
  let r := GS.nthd O (GS.nthd [] (map GS.argsort H) h) k in
  match GS.rank0 H h r with Some _ => Some r | None => None end.
Definition mk_rkR (R : list (list GS.oz)) (r h : nat) : option nat := option_map Z.to_nat (GS.rank0 R r h).
Definition gs3 (R H : list (list GS.oz)) (c : list Z) : option (list (Z * Z)) :=
  let n := length R in let m := length H in
  match hosp_loop m (mk_prefH H n) (mk_rkR R) (fun h => Z.to_nat (GS.nthd 0%Z c h)) (n * m + n + m + 1) hosp_init with
  | Some st => Some (map (fun pr => (Z.of_nat (fst pr), Z.of_nat (snd pr))) (hosp_out n st))
  | None => None end.
Definition check3 (x : GS.case) : bool :=
  let '(R, H, c, ro, fixed, e) := x in
  if ro then true else match gs3 R H c with Some o => GS.peqb (GS.psort o) (GS.psort e) | None => false end.
Fixpoint mism3 (i : nat) (cs : list GS.case) : list nat :=
  match cs with [] => [] | x :: r => if check3 x then mism3 (S i) r else i :: mism3 (S i) r end.
