(* Correspondence checker for DoubleLambdaTSF.scf (C17). *)
From Coq Require Import Arith ZArith QArith List Bool.
Import ListNotations.
From SCK Require Import ElicitM ElicitRules ElicitMatch Irving.

Definition double_case : Type :=
  (list (list Q) * list (list Q) * list (list nat) * list (list nat) * nat * nat * list (list Q) * list (list Q) * nat *
   (list (list Z) * list (list Z) * list (nat * nat)))%type.
Definition llz_eqb (a b : list (list Z)) : bool :=
  (length a =? length b)%nat && forallb (fun p => lz_eqb (fst p) (snd p)) (combine a b).
Definition chk_double (c : double_case) : bool :=
  let '(Va, Vb, P1, P2, k1, k2, tau1, tau2, ff, (e1, e2, eout)) := c in
  llz_eqb (sim_side 0 (vfun Va) P1 k1 tau1) e1 && llz_eqb (sim_side 0 (vfun Vb) P2 k2 tau2) e2 &&
  match double_tsf 0 (vfun Va) (vfun Vb) P1 P2 k1 k2 tau1 tau2 ff with
  | Some t => match t_out t with Some o => lp_eqb o eout | None => false end
  | None => false
  end.
