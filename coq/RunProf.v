(* Correspondence checkers for profile_utils.py / data_generation.py (C18). *)
From Coq Require Import Arith ZArith QArith Qabs List Bool.
Import ListNotations.
From SCK Require Import ProfModel.

Definition pmat := list (list oq).
(* kind: 0 ordinal (determined), 1 ordinal (tied: validity), 2 strictify first, 3 strictify random (validity),
         4 complete first, 5 complete accept, 6 complete random (validity) *)
Definition conv_case : Type := (nat * pmat * pmat)%type.
Definition neg_row (row : list oq) : list oq := map (option_map Qopp) row.
Definition complete_random_ok (row out : list oq) : bool :=
  let m := length row in let k := (m - somes row)%nat in
  (length out =? m)%nat &&
  forallb (fun p => match fst p, snd p with Some x, Some y => Qeq_bool x y | None, Some _ => true | _, None => false end) (combine row out) &&
  forallb (fun r => (countb (fun p => match fst p, snd p with None, Some y => Qeq_bool y (inject_Z (Z.of_nat r)) | _, _ => false end) (combine row out) =? 1)%nat)
          (seq (m - k + 1) k).
Definition chk_conv (c : conv_case) : bool :=
  let '(kind, inp, out) := c in
  match kind with
  | 0%nat => prof_eqb (map ordinal_row inp) out
  | 1%nat => (length inp =? length out)%nat && forallb (fun p => ordinal_ok (fst p) (snd p)) (combine inp out)
  | 2%nat => prof_eqb (map strict_row inp) out
  | 3%nat => (length inp =? length out)%nat && forallb (fun p => ordinal_ok (neg_row (fst p)) (snd p)) (combine inp out)
  | 4%nat => prof_eqb (map (complete_row false) inp) out
  | 5%nat => prof_eqb (map (complete_row true) inp) out
  | _ => (length inp =? length out)%nat && forallb (fun p => complete_random_ok (fst p) (snd p)) (combine inp out)
  end.

(* generators: (clip, profile, recorded draws per agent, observed valuation matrix) within 1e-12 *)
Definition gen_case : Type := (bool * pmat * list (list Q) * pmat)%type.
Definition oq_close (a b : oq) : bool :=
  match a, b with Some x, Some y => Qle_bool (Qabs (x - y)) (1 # 1000000000000) | None, None => true | _, _ => false end.
Definition chk_gen (c : gen_case) : bool :=
  let '(clip, P, draws, out) := c in
  (length P =? length out)%nat &&
  forallb (fun t => let '(row, d, o) := t in let g := gen_row clip row d in
                    (length g =? length o)%nat && forallb (fun p => oq_close (fst p) (snd p)) (combine g o))
          (combine (combine P draws) out).

(* consistency predicate on NaN-free inputs: (profile, valuations, observed verdict) *)
Definition cons_case : Type := (pmat * list (list Q) * bool)%type.
Definition chk_cons (c : cons_case) : bool :=
  let '(P, V, e) := c in Bool.eqb (forallb (fun pv => consistent_row (fst pv) (snd pv)) (combine P V)) e.
