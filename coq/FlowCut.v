From Coq Require Import ZArith List Bool Lia.
Import ListNotations.
Require Import FlowModel FlowProof.
Local Open Scope Z_scope.

(* ---------- expand / closure ---------- *)
Definition estep (acc : list Z) (vc : Z * Z) : list Z :=
  if (snd vc >? 0) && negb (memZ (fst vc) acc) then acc ++ [fst vc] else acc.
Lemma expand_unfold G S : expand G S = fold_left (fun acc u => fold_left estep (lookup G u) acc) S S.
Proof. reflexivity. Qed.

Lemma estep_incl acc vc : incl acc (estep acc vc).
Proof. unfold estep. destruct ((snd vc >? 0) && negb (memZ (fst vc) acc)); [apply incl_appl|]; apply incl_refl. Qed.
Lemma estep_nodup acc vc : NoDup acc -> NoDup (estep acc vc).
Proof.
  intros H. unfold estep. destruct (snd vc >? 0); simpl; [|exact H]. destruct (memZ (fst vc) acc) eqn:E; simpl; [exact H|].
  assert (~ In (fst vc) acc) by (intros Hin; apply memZ_In in Hin; congruence).
  clear E. induction H as [|y t Hn Hnd IH]; simpl; [constructor; [tauto|constructor]|].
  constructor; [rewrite in_app_iff; simpl; intros [A|[A|[]]]; [contradiction|subst; apply H0; now left]|apply IH; intros A; apply H0; now right].
Qed.
Lemma inner_incl l : forall acc, incl acc (fold_left estep l acc).
Proof. induction l as [|vc t IH]; intros acc; simpl; [apply incl_refl|]. eapply incl_tran; [apply estep_incl|apply IH]. Qed.
Lemma inner_nodup l : forall acc, NoDup acc -> NoDup (fold_left estep l acc).
Proof. induction l as [|vc t IH]; intros acc H; simpl; [exact H|]. apply IH, estep_nodup, H. Qed.
Lemma inner_adds l : forall acc v c, In (v, c) l -> c > 0 -> In v (fold_left estep l acc).
Proof.
  induction l as [|vc t IH]; intros acc v c Hin Hc; [destruct Hin|]. simpl. destruct Hin as [->|Hin]; [|eapply IH; eauto].
  apply inner_incl. unfold estep. simpl. assert (E : (c >? 0) = true) by (apply Z.gtb_lt; lia). rewrite E. simpl.
  destruct (memZ v acc) eqn:Em; simpl; [apply memZ_In; exact Em|apply in_or_app; right; now left].
Qed.
Lemma inner_only (P : Z -> Prop) l : forall acc, (forall x, In x acc -> P x) -> (forall v c, In (v, c) l -> c > 0 -> P v) ->
  forall x, In x (fold_left estep l acc) -> P x.
Proof.
  induction l as [|vc t IH]; intros acc Ha Hl x Hx; simpl in Hx; [apply Ha; exact Hx|].
  apply (IH (estep acc vc)); [| |exact Hx].
  - intros y Hy. unfold estep in Hy. destruct (snd vc >? 0) eqn:Ec; simpl in Hy; [|apply Ha; exact Hy].
    destruct (memZ (fst vc) acc); simpl in Hy; [apply Ha; exact Hy|]. apply in_app_or in Hy. destruct Hy as [Hy|[<-|[]]]; [apply Ha; exact Hy|].
    destruct vc as [v c]. apply (Hl v c); [now left|apply Z.gtb_lt in Ec; simpl in *; lia].
  - intros v c Hin Hc. apply (Hl v c); [now right|exact Hc].
Qed.

Lemma outer_incl G us : forall acc, incl acc (fold_left (fun acc u => fold_left estep (lookup G u) acc) us acc).
Proof. induction us as [|u t IH]; intros acc; simpl; [apply incl_refl|]. eapply incl_tran; [apply inner_incl|apply IH]. Qed.
Lemma outer_nodup G us : forall acc, NoDup acc -> NoDup (fold_left (fun acc u => fold_left estep (lookup G u) acc) us acc).
Proof. induction us as [|u t IH]; intros acc H; simpl; [exact H|]. apply IH, inner_nodup, H. Qed.
Lemma outer_adds G us : forall acc u v c, In u us -> In (v, c) (lookup G u) -> c > 0 ->
  In v (fold_left (fun acc u => fold_left estep (lookup G u) acc) us acc).
Proof.
  induction us as [|u0 t IH]; intros acc u v c Hu Hin Hc; [destruct Hu|]. simpl. destruct Hu as [->|Hu]; [|eapply IH; eauto].
  apply outer_incl. eapply inner_adds; eauto.
Qed.
Lemma outer_only G (P : Z -> Prop) us : forall acc, (forall x, In x acc -> P x) ->
  (forall u v c, In u us -> In (v, c) (lookup G u) -> c > 0 -> P v) ->
  forall x, In x (fold_left (fun acc u => fold_left estep (lookup G u) acc) us acc) -> P x.
Proof.
  induction us as [|u0 t IH]; intros acc Ha Hl x Hx; simpl in Hx; [apply Ha; exact Hx|].
  apply (IH (fold_left estep (lookup G u0) acc)); [| |exact Hx].
  - apply inner_only; [exact Ha|]. intros v c Hin Hc. apply (Hl u0 v c); [now left|exact Hin|exact Hc].
  - intros u v c Hu. apply Hl. now right.
Qed.

Definition closedP (G : graph) (P : Z -> Prop) : Prop := forall u v c, P u -> In (v, c) (lookup G u) -> c > 0 -> P v.

Lemma closure_props G (C : Z -> Prop) : closedP G C -> forall fuel S, NoDup S -> (forall x, In x S -> C x) ->
  let R := closure fuel G S in
  incl S R /\ NoDup R /\ (forall x, In x R -> C x).
Proof.
  intros HC. induction fuel as [|f IH]; intros S Hnd HS; cbn [closure].
  - split; [apply incl_refl|]. split; assumption.
  - destruct (length (expand G S) =? length S)%nat; [split; [apply incl_refl|split; assumption]|].
    set (S' := expand G S). assert (ES : S' = fold_left (fun acc u => fold_left estep (lookup G u) acc) S S) by reflexivity.
    assert (H1 : incl S S') by (rewrite ES; apply outer_incl).
    assert (H2 : NoDup S') by (rewrite ES; apply outer_nodup; exact Hnd).
    assert (H3 : forall x, In x S' -> C x).
    { rewrite ES. apply (outer_only G C S S HS). intros u v c Hu Hin Hc. eapply HC; eauto. }
    destruct (IH S' H2 H3) as [A [B D]].
    split; [eapply incl_tran; eauto|]. split; assumption.
Qed.

Lemma closure_closed G (K : list Z) : (forall u v c, In (v, c) (lookup G u) -> In v K) -> NoDup K ->
  forall fuel S, NoDup S -> incl S K -> (length K < length S + fuel)%nat ->
  closedP G (fun x => In x (closure fuel G S)).
Proof.
  intros HK HKn. induction fuel as [|f IH]; intros S Hnd Hinc Hlen.
  - exfalso. pose proof (NoDup_incl_length Hnd Hinc). lia.
  - cbn [closure]. destruct (length (expand G S) =? length S)%nat eqn:E.
    + apply Nat.eqb_eq in E. intros u v c Hu Hin Hc.
      assert (Hv : In v (expand G S)) by (rewrite expand_unfold; eapply outer_adds; eauto).
      assert (Hnd' : NoDup (expand G S)) by (rewrite expand_unfold; apply outer_nodup; exact Hnd).
      assert (Hi : incl S (expand G S)) by (rewrite expand_unfold; apply outer_incl).
      apply (NoDup_length_incl Hnd (Nat.eq_le_incl _ _ E) Hi). exact Hv.
    + apply Nat.eqb_neq in E.
      assert (Hnd' : NoDup (expand G S)) by (rewrite expand_unfold; apply outer_nodup; exact Hnd).
      assert (Hi : incl S (expand G S)) by (rewrite expand_unfold; apply outer_incl).
      assert (Hk : incl (expand G S) K).
      { rewrite expand_unfold. intros x Hx. revert x Hx. apply (outer_only G (fun x => In x K) S S Hinc).
        intros u v c _ Hin _. eapply HK; eauto. }
      pose proof (NoDup_incl_length Hnd Hi). apply IH; [exact Hnd'|exact Hk|lia].
Qed.
Print Assumptions closure_closed.
