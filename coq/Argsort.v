From Coq Require Import Arith ZArith List Bool Lia Permutation Sorted.
Import ListNotations.

(* stable argsort of option keys (None = NaN last), as used by every model *)
Definition okey := option nat.
Definition ole (a b : okey) : bool :=
  match a, b with Some x, Some y => x <=? y | Some _, None => true | None, Some _ => false | None, None => true end.
Fixpoint ins (k : okey) (i : nat) (l : list (okey * nat)) : list (okey * nat) :=
  match l with [] => [(k, i)] | (k', i') :: r => if ole k' k then (k', i') :: ins k i r else (k, i) :: l end.
Definition sorted_pairs (row : list okey) : list (okey * nat) :=
  fold_left (fun acc ki => ins (fst ki) (snd ki) acc) (combine row (seq 0 (length row))) [].
Definition argsort (row : list okey) : list nat := map snd (sorted_pairs row).

Lemma ins_perm k i l : Permutation (ins k i l) ((k, i) :: l).
Proof.
  induction l as [|[k' i'] r IH]; simpl; [reflexivity|]. destruct (ole k' k); [|reflexivity].
  rewrite IH. apply perm_swap.
Qed.
Lemma fold_ins_perm l : forall acc, Permutation (fold_left (fun acc ki => ins (fst ki) (snd ki) acc) l acc) (l ++ acc).
Proof.
  induction l as [|[k i] t IH]; intros acc; simpl; [reflexivity|]. rewrite IH. rewrite ins_perm. simpl.
  symmetry. apply Permutation_middle.
Qed.
Lemma sorted_pairs_perm row : Permutation (sorted_pairs row) (combine row (seq 0 (length row))).
Proof. unfold sorted_pairs. rewrite fold_ins_perm. rewrite app_nil_r. reflexivity. Qed.

Definition kle (a b : okey * nat) : Prop := ole (fst a) (fst b) = true.
Lemma ole_total a b : ole a b = true \/ ole b a = true.
Proof. destruct a as [x|], b as [y|]; simpl; auto. destruct (Nat.leb_spec x y); [left; reflexivity|right; apply Nat.leb_le; lia]. Qed.
Lemma ole_trans a b c : ole a b = true -> ole b c = true -> ole a c = true.
Proof. destruct a, b, c; simpl; try congruence; auto. intros H1 H2. apply Nat.leb_le in H1, H2. apply Nat.leb_le. lia. Qed.

Lemma ins_sorted k i l : StronglySorted kle l -> StronglySorted kle (ins k i l).
Proof.
  induction 1 as [|[k' i'] r Hs IH Hall]; simpl; [constructor; [constructor|constructor]|].
  destruct (ole k' k) eqn:E.
  - constructor; [exact IH|]. rewrite Forall_forall in *. intros x Hx.
    apply (Permutation_in _ (ins_perm k i r)) in Hx. destruct Hx as [<-|Hx]; [exact E|apply Hall; exact Hx].
  - constructor; [constructor; assumption|]. assert (E' : ole k k' = true) by (destruct (ole_total k k'); congruence).
    constructor; [exact E'|]. rewrite Forall_forall in *. intros x Hx. unfold kle. simpl. eapply ole_trans; [exact E'|apply Hall; exact Hx].
Qed.
Lemma sorted_pairs_sorted row : StronglySorted kle (sorted_pairs row).
Proof.
  unfold sorted_pairs. generalize (combine row (seq 0 (length row))) as l.
  assert (H : forall l acc, StronglySorted kle acc -> StronglySorted kle (fold_left (fun acc ki => ins (fst ki) (snd ki) acc) l acc)).
  { induction l as [|[k i] t IH]; intros acc Ha; simpl; [exact Ha|]. apply IH. apply ins_sorted. exact Ha. }
  intros l. apply H. constructor.
Qed.

(* every pair in the result carries the key of its index *)
Lemma in_combine_seq {A} (row : list A) k i s : In (k, i) (combine row (seq s (length row))) -> s <= i /\ nth_error row (i - s) = Some k.
Proof.
  revert s; induction row as [|x t IH]; intros s H; simpl in H; [destruct H|]. destruct H as [E|H].
  - injection E as -> ->. split; [lia|]. rewrite Nat.sub_diag. reflexivity.
  - destruct (IH (S s) H) as [Hle Hn]. split; [lia|]. replace (i - s) with (S (i - S s)) by lia. exact Hn.
Qed.
Lemma sorted_pairs_key row k i : In (k, i) (sorted_pairs row) -> nth_error row i = Some k.
Proof.
  intros H. apply (Permutation_in _ (sorted_pairs_perm row)) in H. apply in_combine_seq in H.
  destruct H as [_ H]. rewrite Nat.sub_0_r in H. exact H.
Qed.
Lemma argsort_perm row : Permutation (argsort row) (seq 0 (length row)).
Proof.
  unfold argsort. rewrite (Permutation_map snd (sorted_pairs_perm row)).
  assert (H : forall (l : list okey) s, map snd (combine l (seq s (length l))) = seq s (length l)).
  { induction l as [|x t IH]; intros s; simpl; [reflexivity|]. f_equal. apply IH. }
  rewrite H. reflexivity.
Qed.

(* ---------- dense strict rows: the r-th entry of argsort is the index holding rank r ---------- *)
Definition dense (row : list okey) (k : nat) : Prop :=
  (forall j x, nth_error row j = Some (Some x) -> x < k) /\
  (forall x, x < k -> exists j, nth_error row j = Some (Some x)) /\
  (forall j j' x, nth_error row j = Some (Some x) -> nth_error row j' = Some (Some x) -> j = j').

Lemma sorted_lt_unique (l1 l2 : list nat) : StronglySorted lt l1 -> StronglySorted lt l2 -> Permutation l1 l2 -> l1 = l2.
Proof.
  intros H1. revert l2. induction H1 as [|a t1 Hs1 IH Ha]; intros l2 H2 Hp.
  - apply Permutation_nil in Hp. subst. reflexivity.
  - destruct l2 as [|b t2]; [apply Permutation_sym, Permutation_nil in Hp; discriminate|].
    inversion H2 as [|? ? Hs2 Hb]; subst.
    assert (a = b).
    { assert (Ia : In a (b :: t2)) by (apply (Permutation_in _ Hp); now left).
      assert (Ib : In b (a :: t1)) by (apply (Permutation_in _ (Permutation_sym Hp)); now left).
      rewrite Forall_forall in Ha, Hb.
      destruct Ia as [E|Ia]; [congruence|]. destruct Ib as [E|Ib]; [congruence|].
      specialize (Ha b Ib). specialize (Hb a Ia). lia. }
    subst b. f_equal. apply IH; [exact Hs2|]. eapply Permutation_cons_inv; exact Hp.
Qed.
Lemma seq_sorted s k : StronglySorted lt (seq s k).
Proof.
  revert s; induction k as [|k IH]; intros s; simpl; constructor; [apply IH|].
  apply Forall_forall. intros x Hx. apply in_seq in Hx. lia.
Qed.

Definition isS (p : okey * nat) : bool := match fst p with Some _ => true | None => false end.
Lemma sorted_split L : StronglySorted kle L -> L = filter isS L ++ filter (fun p => negb (isS p)) L.
Proof.
  induction 1 as [|[k i] r Hs IH Hall]; [reflexivity|]. destruct k as [x|].
  - change (filter isS ((Some x, i) :: r)) with ((Some x, i) :: filter isS r).
    change (filter (fun p => negb (isS p)) ((Some x, i) :: r)) with (filter (fun p => negb (isS p)) r).
    simpl app. f_equal. exact IH.
  - change (filter isS ((None, i) :: r)) with (filter isS r).
    change (filter (fun p => negb (isS p)) ((None, i) :: r)) with ((None, i) :: filter (fun p => negb (isS p)) r).
    assert (Hn : forall p, In p r -> isS p = false).
    { rewrite Forall_forall in Hall. intros [k' i'] Hp. specialize (Hall _ Hp). unfold kle in Hall. simpl in Hall.
      unfold isS. simpl. destruct k'; [discriminate|reflexivity]. }
    assert (E1 : filter isS r = []).
    { clear IH Hs Hall. induction r as [|p t IHt]; simpl; [reflexivity|]. rewrite (Hn p (or_introl eq_refl)). apply IHt. intros q Hq. apply Hn. now right. }
    assert (E2 : filter (fun p => negb (isS p)) r = r).
    { clear IH Hs Hall E1. induction r as [|p t IHt]; simpl; [reflexivity|]. rewrite (Hn p (or_introl eq_refl)). simpl. f_equal. apply IHt. intros q Hq. apply Hn. now right. }
    rewrite E1, E2. reflexivity.
Qed.

Lemma filter_sorted (f : okey * nat -> bool) L : StronglySorted kle L -> StronglySorted kle (filter f L).
Proof.
  induction 1 as [|p r Hs IH Hall]; simpl; [constructor|].
  destruct (f p); [|exact IH]. constructor; [exact IH|]. rewrite Forall_forall in *. intros q Hq. apply filter_In in Hq. apply Hall. tauto.
Qed.
Lemma filter_nodup_snd (f : okey * nat -> bool) (L : list (okey * nat)) : NoDup (map snd L) -> NoDup (map snd (filter f L)).
Proof.
  induction L as [|p r IH]; simpl; intros H; [constructor|]. inversion H; subst.
  destruct (f p); simpl; [constructor; [|apply IH; assumption]|apply IH; assumption].
  intros Hin. apply H2. apply in_map_iff in Hin. destruct Hin as [q [E Hq]]. apply filter_In in Hq. apply in_map_iff. exists q. tauto.
Qed.

Definition valof (p : okey * nat) : nat := match fst p with Some x => x | None => 0 end.

Lemma vals_strict (L1 : list (okey * nat)) :
  StronglySorted kle L1 -> NoDup (map snd L1) ->
  (forall p, In p L1 -> fst p = Some (valof p)) ->
  (forall p q, In p L1 -> In q L1 -> valof p = valof q -> snd p = snd q) ->
  StronglySorted lt (map valof L1).
Proof.
  induction 1 as [|p r Hs IH Hall]; intros Hnd HL1 Hinj; simpl; [constructor|].
  simpl in Hnd. inversion Hnd; subst.
  constructor.
  - apply IH; [assumption|intros q Hq; apply HL1; now right|intros a b Ha Hb; apply Hinj; now right].
  - rewrite Forall_forall in *. intros v Hv. apply in_map_iff in Hv. destruct Hv as [q [<- Hq]].
    specialize (Hall q Hq). unfold kle in Hall.
    rewrite (HL1 p (or_introl eq_refl)), (HL1 q (or_intror Hq)) in Hall. simpl in Hall. apply Nat.leb_le in Hall.
    destruct (Nat.eq_dec (valof p) (valof q)) as [E|E]; [|lia]. exfalso.
    pose proof (Hinj p q (or_introl eq_refl) (or_intror Hq) E) as Es.
    apply H1. rewrite Es. apply in_map. exact Hq.
Qed.

Theorem argsort_dense row k : dense row k ->
  (forall r, r < k -> exists j, nth_error (argsort row) r = Some j /\ nth_error row j = Some (Some r)) /\
  (forall r j, k <= r -> nth_error (argsort row) r = Some j -> nth_error row j = Some None).
Proof.
  intros [Hlt [Hex Huniq]].
  set (L := sorted_pairs row).
  pose proof (sorted_pairs_sorted row) as HS. fold L in HS.
  pose proof (sorted_split L HS) as Hsplit.
  set (L1 := filter isS L) in *. set (L2 := filter (fun p => negb (isS p)) L) in *.
  assert (Hkey : forall kk i, In (kk, i) L -> nth_error row i = Some kk) by (intros; apply sorted_pairs_key; assumption).
  assert (HndL : NoDup (map snd L)).
  { apply (Permutation_NoDup (Permutation_sym (argsort_perm row))). apply seq_NoDup. }
  (* the values of the Some-part are exactly 0..k-1 in order *)
  set (vs := map valof L1).
  assert (HL1 : forall p, In p L1 -> fst p = Some (valof p)).
  { intros [kk i] Hp. apply filter_In in Hp. destruct Hp as [_ Hs]. unfold isS, valof in *. simpl in *. destruct kk; [reflexivity|discriminate]. }
  assert (Hvs_sorted : StronglySorted lt vs).
  { apply vals_strict; [apply filter_sorted; exact HS|apply filter_nodup_snd; exact HndL|exact HL1|].
    intros [kp ip] [kq iq] Hp Hq E. simpl.
    assert (HpL : In (kp, ip) L) by (apply filter_In in Hp; tauto).
    assert (HqL : In (kq, iq) L) by (apply filter_In in Hq; tauto).
    pose proof (Hkey _ _ HpL) as K1. pose proof (Hkey _ _ HqL) as K2.
    pose proof (HL1 _ Hp) as F1. pose proof (HL1 _ Hq) as F2. simpl in F1, F2.
    rewrite F1 in K1. rewrite F2, <- E in K2. exact (Huniq _ _ _ K1 K2). }
  assert (Hvs_perm : Permutation vs (seq 0 k)).
  { apply NoDup_Permutation.
    - clear -Hvs_sorted. induction Hvs_sorted as [|a t Hs IH Ha]; constructor; [|exact IH]. rewrite Forall_forall in Ha. intros Hin. specialize (Ha a Hin). lia.
    - apply seq_NoDup.
    - intros x. rewrite in_seq. split.
      + intros Hx. apply in_map_iff in Hx. destruct Hx as [[kk i] [E Hp]]. pose proof (HL1 _ Hp) as F. simpl in F.
        assert (HpL : In (kk, i) L) by (apply filter_In in Hp; tauto). pose proof (Hkey _ _ HpL) as K. rewrite F in K. rewrite E in K. specialize (Hlt _ _ K). lia.
      + intros [_ Hx]. destruct (Hex x Hx) as [j Hj].
        assert (Hj' : In j (map snd L)).
        { apply (Permutation_in _ (Permutation_sym (argsort_perm row))). apply in_seq. split; [lia|]. simpl. apply nth_error_Some. congruence. }
        apply in_map_iff in Hj'. destruct Hj' as [[kk i] [E Hp]]. simpl in E. subst i. pose proof (Hkey _ _ Hp) as K. rewrite Hj in K. injection K as <-.
        apply in_map_iff. exists (Some x, j). split; [reflexivity|]. apply filter_In. split; [exact Hp|reflexivity]. }
  pose proof (sorted_lt_unique vs (seq 0 k) Hvs_sorted (seq_sorted 0 k) Hvs_perm) as Hvs.
  assert (Hlen1 : length L1 = k) by (rewrite <- (map_length valof L1); fold vs; rewrite Hvs; apply seq_length).
  split.
  - intros r Hr.
    destruct (nth_error L1 r) as [[kk j]|] eqn:En; [|apply nth_error_None in En; lia].
    exists j. split.
    + unfold argsort. fold L. rewrite Hsplit. rewrite map_app. rewrite nth_error_app1 by (rewrite map_length; lia).
      rewrite (map_nth_error snd _ _ En). reflexivity.
    + assert (Hp : In (kk, j) L1) by (eapply nth_error_In; exact En).
      assert (HpL : In (kk, j) L) by (apply filter_In in Hp; tauto).
      pose proof (Hkey _ _ HpL) as K. rewrite K. f_equal.
      pose proof (HL1 _ Hp) as F. simpl in F. rewrite F. f_equal.
      assert (Ev : nth_error vs r = Some (valof (kk, j))) by (unfold vs; apply (map_nth_error valof _ _ En)).
      rewrite Hvs in Ev. rewrite nth_error_nth' with (d := 0) in Ev by (rewrite seq_length; exact Hr).
      rewrite seq_nth in Ev by exact Hr. simpl in Ev. injection Ev as <-. reflexivity.
  - intros r j Hr Hn. unfold argsort in Hn. fold L in Hn. rewrite Hsplit, map_app in Hn.
    rewrite nth_error_app2 in Hn by (rewrite map_length; lia).
    apply nth_error_In in Hn. apply in_map_iff in Hn. destruct Hn as [[kk i] [E Hp]]. simpl in E. subst i.
    apply filter_In in Hp. destruct Hp as [HpL Hs]. pose proof (Hkey _ _ HpL) as K. rewrite K. f_equal.
    unfold isS in Hs. simpl in Hs. destruct kk; [discriminate|reflexivity].
Qed.
Print Assumptions argsort_dense.
