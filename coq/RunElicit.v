(* C14: correspondence checker with the theorems' domain evaluated by the kernel on every explored case. *)
From Coq Require Import Arith ZArith QArith List Bool.
Import ListNotations.
From SCK Require Import ElicitM ElicitRules ElicitFinal.
Local Open Scope Z_scope.

(* profile strict and complete, valuations consistent with it, thresholds non-increasing in the level *)
Definition thr_domainb (P : list (list Z)) (k : nat) (tau : list (list Q)) (Vm : list (list Q)) : bool :=
  let n := length P in let m := length (nth 0 P []) in
  (1 <=? m)%nat &&
  forallb (fun row => (length row =? m)%nat && strict_rowb row) P &&
  forallb (fun i => forallb (fun j => forallb (fun j' =>
      negb (nth j (nth i P []) 0 <=? nth j' (nth i P []) 0) || Qle_bool (nth j' (nth i Vm []) 0%Q) (nth j (nth i Vm []) 0%Q)) (seq 0 m)) (seq 0 m)) (seq 0 n) &&
  forallb (fun i => forallb (fun l => Qle_bool (tauof tau i (S l)) (tauof tau i l)) (seq 1 (k - 1))) (seq 0 n).
Definition chk_thr_dom (c : thr_case) : bool :=
  let '(P, k, tau, byq, init, rc) := c in
  let '(memoize, fixer, Vm, e, etrace, ecnt) := rc in
  thr_domainb P k tau Vm && chk_thr c.
