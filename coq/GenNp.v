(* NaN-aware scalar operations used by the pointwise translation of numpy vector code (harness/translate.py, translate_eatloop).
   A float that may be NaN is an option Q (None = NaN); arithmetic is exact (Eat3.qadd ... keep rationals reduced).
   x / 0 (+inf for x > 0, NaN for 0 / 0) is represented by None as well: the only quotients with a zero denominator in the translated code
   (time until an item nobody eats is finished) feed np.nanargmin / min, where +inf and an absent entry behave alike as long as one entry is a number. *)
From Coq Require Import ZArith QArith List Bool.
Import ListNotations.
From SCK Require Import Eat3.
Local Open Scope Q_scope.

Definition isnan {A} (x : option A) : bool := match x with None => true | Some _ => false end.
Definition oget0 (x : option nat) : nat := match x with Some p => p | None => O end.          (* .astype(int) of a position known not to be NaN *)
Definition oget0q (x : option Q) : Q := match x with Some q => q | None => 0 end.
Definition oeqn (x : option nat) (j : nat) : bool := match x with Some c => (c =? j)%nat | None => false end.      (* NaN == j is False *)
Definition oadd (a b : option Q) : option Q := match a, b with Some x, Some y => Some (qadd x y) | _, _ => None end.
Definition osub (a b : option Q) : option Q := match a, b with Some x, Some y => Some (qsub x y) | _, _ => None end.
Definition omul (a b : option Q) : option Q := match a, b with Some x, Some y => Some (qmul x y) | _, _ => None end.
Definition odiv (a b : option Q) : option Q := match a, b with Some x, Some y => if Qeq_bool y 0 then None else Some (qdiv x y) | _, _ => None end.
(* comparisons with NaN are False *)
Definition ogtq (a b : option Q) : bool := match a, b with Some x, Some y => negb (Qle_bool x y) | _, _ => false end.
Definition oltq (a b : option Q) : bool := match a, b with Some x, Some y => negb (Qle_bool y x) | _, _ => false end.
Definition oleq (a b : option Q) : bool := match a, b with Some x, Some y => Qle_bool x y | _, _ => false end.
Definition ogeq (a b : option Q) : bool := match a, b with Some x, Some y => Qle_bool y x | _, _ => false end.
(* v[np.nanargmin(v)]: the least entry that is not NaN; None: there is none (numpy raises ValueError) *)
Definition nanmin (v : list (option Q)) : option Q := fold_left qminO v None.
