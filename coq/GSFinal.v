(* C01 at the level of the returned list of pairs: the matching read off the final state of either
   coded deferred-acceptance loop is stable (feasible + no blocking pair) in the sense of DA.stableM. *)
From Coq Require Import Arith ZArith List Bool Lia Permutation.
Import ListNotations.
From SCK Require Import Argsort StrictB DA DAOpt GS2 GS3 GSRefine HRefine GSInst HInst GSTerm HTerm.

Lemma in_firstn_in' {A} (l : list A) k x : In x (firstn k l) -> In x l.
Proof. revert k; induction l as [|y t IH]; intros k H; destruct k; simpl in *; try tauto. destruct H as [H|H]; [now left|right; eapply IH; exact H]. Qed.

(* ---------- abstract: a terminal good state is a stable matching ---------- *)
Section Abs.
Variable pl : nat -> list nat.
Variable rk : nat -> nat -> option nat.
Variable qP qR : nat -> nat.
Variable Rs : list nat.


Lemma state_stableM s :
  invF pl rk qR s -> invQ qP Rs s -> (forall p r, ~ blocking pl rk qP qR Rs s p r) ->
  stableM pl rk qP qR Rs (held s).
Proof.
  intros HF HQ HB. split.
  - split.
    + intros r. destruct (HF r) as [H1 [H2 H3]]. split; [exact H1|]. split; [exact H2|].
      intros p Hp. destruct (H3 p Hp) as [Ha Hb]. split; [exact Ha|]. unfold prefix in Hb. eapply in_firstn_in'; exact Hb.
    + intros p. exact (HQ p).
  - intros p r Hb. exact (HB p r Hb).
Qed.

Lemma stableM_ext mu mu' : (forall r, mu r = mu' r) -> stableM pl rk qP qR Rs mu -> stableM pl rk qP qR Rs mu'.
Proof.
  intros E.
  assert (EE : forall p, engsM Rs mu p = engsM Rs mu' p).
  { intros p. unfold engsM. apply filter_ext. intros r. rewrite E. reflexivity. }
  intros [[F1 F2] B]. split.
  - split.
    + intros r. rewrite <- E. apply F1.
    + intros p. rewrite <- EE. apply F2.
  - intros p r [B1 [B2 [B3 [B4 B5]]]]. apply (B p r). split; [exact B1|]. split; [exact B2|].
    split; [rewrite E; exact B3|]. split.
    + destruct B4 as [B4|[r' [B4 B4']]]; [left; rewrite EE; exact B4|right; exists r'; rewrite E; split; assumption].
    + destruct B5 as [B5|[p' [B5 B5']]]; [left; rewrite E; exact B5|right; exists p'; rewrite E; split; assumption].
Qed.
End Abs.

(* ---------- reading the matching off the returned pairs ---------- *)
(* pairs are (resident, hospital) in both orientations *)
Definition mu_of_hospital (out : list (nat * nat)) (h : nat) : list nat := map fst (filter (fun pr => Nat.eqb (snd pr) h) out).
Definition mu_of_resident (out : list (nat * nat)) (r : nat) : list nat := map snd (filter (fun pr => Nat.eqb (fst pr) r) out).

Lemma filter_flat_map {A B} (p : B -> bool) (f : A -> list B) l : filter p (flat_map f l) = flat_map (fun x => filter p (f x)) l.
Proof. induction l as [|x t IH]; simpl; [reflexivity|]. rewrite filter_app, IH. reflexivity. Qed.

Lemma flat_map_single {A B} (f : A -> list B) (l : list A) (a : A) (eqb : A -> A -> bool) :
  (forall x y, eqb x y = true <-> x = y) -> NoDup l ->
  forall g : A -> list B, (forall x, x <> a -> g x = []) -> flat_map g l = if existsb (fun x => eqb x a) l then g a else [].
Proof.
  intros Heq Hnd g Hg. induction l as [|x t IH]; simpl; [reflexivity|].
  inversion Hnd as [|? ? Hx Ht]; subst. destruct (eqb x a) eqn:E; simpl.
  - apply Heq in E. subst x. rewrite IH by exact Ht.
    assert (En : existsb (fun x => eqb x a) t = false).
    { destruct (existsb (fun x => eqb x a) t) eqn:E2; [|reflexivity]. apply existsb_exists in E2 as [y [Hy E3]]. apply Heq in E3. subst. contradiction. }
    rewrite En, app_nil_r. reflexivity.
  - assert (x <> a) by (intros ->; assert (eqb a a = true) by (apply Heq; reflexivity); congruence).
    rewrite (Hg x H). simpl. apply IH. exact Ht.
Qed.

Lemma mu_res_out m unrank st h : h < m ->
  mu_of_hospital (res_out m unrank st) h = map (unrank h) (wl st h).
Proof.
  intros Hh. unfold mu_of_hospital, res_out. rewrite filter_flat_map.
  rewrite (flat_map_single (fun h' => map (fun r => (unrank h' r, h')) (wl st h')) (seq 0 m) h Nat.eqb Nat.eqb_eq (seq_NoDup m 0)
             (fun x => filter (fun pr => Nat.eqb (snd pr) h) (map (fun r => (unrank x r, x)) (wl st x)))).
  - assert (E : existsb (fun x => Nat.eqb x h) (seq 0 m) = true) by (apply existsb_exists; exists h; split; [apply in_seq; lia|apply Nat.eqb_refl]).
    rewrite E. induction (wl st h) as [|r t IH]; simpl; [reflexivity|]. rewrite Nat.eqb_refl. simpl. f_equal. exact IH.
  - intros x Hx. induction (wl st x) as [|r t IH]; simpl; [reflexivity|].
    assert (E : Nat.eqb x h = false) by (apply Nat.eqb_neq; exact Hx). rewrite E. exact IH.
Qed.
Lemma mu_res_out_ge m unrank st h : m <= h -> mu_of_hospital (res_out m unrank st) h = [].
Proof.
  intros Hh. unfold mu_of_hospital, res_out. rewrite filter_flat_map.
  assert (E : forall l, (forall x, In x l -> x < m) ->
     flat_map (fun x => filter (fun pr => Nat.eqb (snd pr) h) (map (fun r => (unrank x r, x)) (wl st x))) l = []).
  { induction l as [|x t IH]; intros Hl; simpl; [reflexivity|]. rewrite IH by (intros y Hy; apply Hl; now right).
    rewrite app_nil_r. assert (Hx : x < m) by (apply Hl; now left).
    induction (wl st x) as [|r t' IH']; simpl; [reflexivity|]. assert (E : Nat.eqb x h = false) by (apply Nat.eqb_neq; lia). rewrite E. exact IH'. }
  rewrite E; [reflexivity|]. intros x Hx. apply in_seq in Hx. lia.
Qed.

(* ---------- resident-oriented ---------- *)
Definition gs_res_run (R H : list (list okey)) (cap : nat -> nat) (fuel : nat) : option (list (nat * nat)) :=
  option_map (res_out (length H) (i_unrank H))
             (res_loop (length R) (i_prefR R) (i_rkH H) (i_unrank H) cap fuel res_init).

Theorem C01_res_output R H cap fuel out :
  strictb R (length H) = true -> strictb H (length R) = true ->
  gs_res_run R H cap fuel = Some out ->
  stableM (i_pl R) (i_rkH H) (fun _ => 1) cap (seq 0 (length H)) (mu_of_hospital out).
Proof.
  intros HR HH Hrun. unfold gs_res_run in Hrun.
  destruct (res_loop (length R) (i_prefR R) (i_rkH H) (i_unrank H) cap fuel res_init) as [st'|] eqn:El; [|discriminate].
  injection Hrun as <-.
  destruct (strictb_sound R _ HR) as [HRd HRl]. destruct (strictb_sound H _ HH) as [HHd _].
  destruct (C01_res_stable R H HRd HRl (fun h => ex_intro _ _ (HHd h)) cap fuel st' El) as [s [HI [[HF [HRr [HQ HA]]] [HT HB]]]].
  apply (stableM_ext _ _ _ _ _ (held s)).
  - intros h. rewrite (i_held _ _ _ _ _ _ HI). destruct (Nat.lt_ge_cases h (length H)) as [Hh|Hh].
    + symmetry. apply mu_res_out. exact Hh.
    + rewrite mu_res_out_ge by exact Hh.
      destruct (map (i_unrank H h) (wl st' h)) as [|p t] eqn:E; [reflexivity|exfalso].
      destruct (HF h) as [_ [_ H3]]. rewrite (i_held _ _ _ _ _ _ HI), E in H3.
      destruct (H3 p (or_introl eq_refl)) as [_ Hpre]. unfold prefix in Hpre. apply in_firstn_in' in Hpre.
      pose proof (inst_pl_lt R H HRl p h Hpre). lia.
  - apply state_stableM; assumption.
Qed.

(* ---------- hospital-oriented ---------- *)
Definition gs_hosp_run (R H : list (list okey)) (cap : nat -> nat) (fuel : nat) : option (list (nat * nat)) :=
  option_map (hosp_out (length R))
             (hosp_loop (length H) (j_prefH H) (j_rkR R) cap fuel hosp_init).

Lemma mu_hosp_out n st r : mu_of_resident (hosp_out n st) r = if r <? n then hl (rwl st r) else [].
Proof.
  unfold mu_of_resident, hosp_out. rewrite filter_flat_map.
  rewrite (flat_map_single (fun r' => match rwl st r' with Some h => [(r', h)] | None => [] end) (seq 0 n) r Nat.eqb Nat.eqb_eq (seq_NoDup n 0)
             (fun x => filter (fun pr => Nat.eqb (fst pr) r) (match rwl st x with Some h => [(x, h)] | None => [] end))).
  - destruct (r <? n) eqn:E.
    + apply Nat.ltb_lt in E. assert (E2 : existsb (fun x => Nat.eqb x r) (seq 0 n) = true) by (apply existsb_exists; exists r; split; [apply in_seq; lia|apply Nat.eqb_refl]).
      rewrite E2. destruct (rwl st r); simpl; [rewrite Nat.eqb_refl; reflexivity|reflexivity].
    + apply Nat.ltb_ge in E. assert (E2 : existsb (fun x => Nat.eqb x r) (seq 0 n) = false).
      { destruct (existsb (fun x => Nat.eqb x r) (seq 0 n)) eqn:E3; [|reflexivity]. apply existsb_exists in E3 as [y [Hy E4]]. apply Nat.eqb_eq in E4. subst. apply in_seq in Hy. lia. }
      rewrite E2. reflexivity.
  - intros x Hx. destruct (rwl st x); simpl; [|reflexivity]. assert (E : Nat.eqb x r = false) by (apply Nat.eqb_neq; exact Hx). rewrite E. reflexivity.
Qed.

Theorem C01_hosp_output R H cap fuel out :
  strictb R (length H) = true -> strictb H (length R) = true ->
  gs_hosp_run R H cap fuel = Some out ->
  stableM (j_pl H) (j_rkR R) cap (fun _ => 1) (seq 0 (length R)) (mu_of_resident out).
Proof.
  intros HR HH Hrun. unfold gs_hosp_run in Hrun.
  destruct (hosp_loop (length H) (j_prefH H) (j_rkR R) cap fuel hosp_init) as [st'|] eqn:El; [|discriminate].
  injection Hrun as <-.
  destruct (strictb_sound R _ HR) as [HRd _]. destruct (strictb_sound H _ HH) as [HHd HHl].
  destruct (C01_hosp_stable R H HHd HHl (fun r => ex_intro _ _ (HRd r)) cap fuel st' El) as [s [HI [[HF [HRr [HQ HA]]] [HT HB]]]].
  apply (stableM_ext _ _ _ _ _ (held s)).
  - intros r. rewrite (h_held _ _ _ _ HI). rewrite mu_hosp_out.
    destruct (r <? length R) eqn:E; [reflexivity|]. apply Nat.ltb_ge in E.
    destruct (hl (rwl st' r)) as [|p t] eqn:E2; [reflexivity|exfalso].
    destruct (HF r) as [_ [_ H3]]. rewrite (h_held _ _ _ _ HI), E2 in H3.
    destruct (H3 p (or_introl eq_refl)) as [_ Hpre]. unfold prefix in Hpre. apply in_firstn_in' in Hpre.
    pose proof (jinst_pl_lt R H HHl p r Hpre). lia.
  - apply state_stableM; assumption.
Qed.

(* ---------- C02: optimality for the proposing side, at the level of the returned pairs ---------- *)
Theorem C02_res_optimal R H cap fuel out :
  strictb R (length H) = true -> strictb H (length R) = true ->
  gs_res_run R H cap fuel = Some out ->
  forall mu, stableM (i_pl R) (i_rkH H) (fun _ => 1) cap (seq 0 (length H)) mu ->
  forall p h, In p (mu h) ->
  exists h', In p (mu_of_hospital out h') /\ (h' = h \/ before (i_pl R p) h' h).
Proof.
  intros HR HH Hrun mu Hmu p h Hin. unfold gs_res_run in Hrun.
  destruct (res_loop (length R) (i_prefR R) (i_rkH H) (i_unrank H) cap fuel res_init) as [st'|] eqn:El; [|discriminate].
  injection Hrun as <-.
  destruct (strictb_sound R _ HR) as [HRd HRl]. destruct (strictb_sound H _ HH) as [HHd _].
  destruct (C01_res_stable R H HRd HRl (fun h => ex_intro _ _ (HHd h)) cap fuel st' El) as [s [HI [[HF [HRr [HQ HA]]] [HT HB]]]].
  destruct (proposer_optimal (i_pl R) (i_rkH H) (fun _ => 1) cap (seq 0 (length H)) s HF HA HT (fun _ => eq_refl) mu Hmu p h Hin)
    as [h' [Hh' Hb]].
  exists h'. split; [|exact Hb].
  assert (Hlt : h' < length H).
  { destruct (HF h') as [_ [_ H3]]. destruct (H3 p Hh') as [_ Hpre]. unfold prefix in Hpre. apply in_firstn_in' in Hpre.
    exact (inst_pl_lt R H HRl p h' Hpre). }
  rewrite (mu_res_out _ _ _ _ Hlt). rewrite <- (i_held _ _ _ _ _ _ HI). exact Hh'.
Qed.

Theorem C02_hosp_pessimal R H cap fuel out :
  strictb R (length H) = true -> strictb H (length R) = true ->
  gs_hosp_run R H cap fuel = Some out ->
  forall mu, stableM (j_pl H) (j_rkR R) cap (fun _ => 1) (seq 0 (length R)) mu ->
  forall r h, In h (mu_of_resident out r) ->
  exists h', In h' (mu r) /\ (h' = h \/ better (j_rkR R) r h' h).
Proof.
  intros HR HH Hrun mu Hmu r h Hin. unfold gs_hosp_run in Hrun.
  destruct (hosp_loop (length H) (j_prefH H) (j_rkR R) cap fuel hosp_init) as [st'|] eqn:El; [|discriminate].
  injection Hrun as <-.
  destruct (strictb_sound R _ HR) as [HRd _]. destruct (strictb_sound H _ HH) as [HHd HHl].
  destruct (C01_hosp_stable R H HHd HHl (fun r => ex_intro _ _ (HRd r)) cap fuel st' El) as [s [HI [[HF [HRr [HQ HA]]] [HT HB]]]].
  rewrite mu_hosp_out in Hin. destruct (r <? length R) eqn:E; [|destruct Hin]. apply Nat.ltb_lt in E.
  rewrite <- (h_held _ _ _ _ HI) in Hin.
  apply (receiver_pessimal (j_pl H) (j_rkR R) cap (fun _ => 1) (seq 0 (length R)) (seq_NoDup _ _) (jinst_rk_inj R (fun r => ex_intro _ _ (HRd r))) s HF HQ HA (fun _ => eq_refl) mu Hmu r h); [apply in_seq; lia|exact Hin].
Qed.

(* ---------- termination of both loops on strict profiles ---------- *)
Lemma i_pl_len (R H : list (list okey)) : (forall p, p < length R -> length (rowR R p) = length H) -> forall p, length (i_pl R p) <= length H.
Proof.
  intros HRl p. unfold i_pl. rewrite firstn_length. destruct (Nat.lt_ge_cases p (length R)) as [Hp|Hp].
  - rewrite argsort_length, (HRl p Hp). lia.
  - rewrite (rowR_out R p Hp). simpl. lia.
Qed.
Lemma j_pl_len (R H : list (list okey)) : (forall h, h < length H -> length (hrow H h) = length R) -> forall h, length (j_pl H h) <= length R.
Proof.
  intros HHl h. unfold j_pl. rewrite firstn_length. destruct (Nat.lt_ge_cases h (length H)) as [Hp|Hp].
  - rewrite argsort_length, (HHl h Hp). lia.
  - rewrite (hrow_out H h Hp). simpl. lia.
Qed.

Theorem C01_res_terminates R H cap fuel :
  strictb R (length H) = true -> length R * length H + 2 <= fuel -> gs_res_run R H cap fuel <> None.
Proof.
  intros HR Hf. destruct (strictb_sound R _ HR) as [HRd HRl]. unfold gs_res_run.
  pose proof (res_loop_total (length R) (length H) (i_prefR R) (i_rkH H) (i_unrank H) cap (i_pl R)
                (inst_pl_spec R H HRd) (i_pl_len R H HRl) fuel res_init) as Ht.
  destruct (res_loop (length R) (i_prefR R) (i_rkH H) (i_unrank H) cap fuel res_init); [discriminate|].
  exfalso. apply Ht; [intros p; simpl; lia|lia|reflexivity].
Qed.

Theorem C01_hosp_terminates R H cap fuel :
  strictb H (length R) = true -> length H * length R + 2 <= fuel -> gs_hosp_run R H cap fuel <> None.
Proof.
  intros HH Hf. destruct (strictb_sound H _ HH) as [HHd HHl]. unfold gs_hosp_run.
  pose proof (hosp_loop_total (length R) (length H) (j_prefH H) (j_rkR R) cap (j_pl H)
                (jinst_pl_spec R H HHd) (j_pl_len R H HHl) fuel hosp_init) as Ht.
  destruct (hosp_loop (length H) (j_prefH H) (j_rkR R) cap fuel hosp_init); [discriminate|].
  exfalso. apply Ht; [intros p; simpl; lia|lia|reflexivity].
Qed.

(* ---------- C02: the resident-optimal stable matching is unique, hence the result does not depend on anything but the
   instance (processing order, numbering of the free residents, ...) ---------- *)
Lemma before_asym (l : list nat) a b : NoDup l -> before l a b -> before l b a -> False.
Proof.
  intros Hnd [i [j [Hij [Hi Hj]]]] [i' [j' [Hij' [Hi' Hj']]]]. rewrite NoDup_nth_error in Hnd.
  assert (i = j') by (apply Hnd; [apply nth_error_Some; congruence|congruence]).
  assert (j = i') by (apply Hnd; [apply nth_error_Some; congruence|congruence]). lia.
Qed.
Lemma nodup_le1 (l : list nat) a b : NoDup l -> length l <= 1 -> In a l -> In b l -> a = b.
Proof.
  intros Hnd Hl Ha Hb. destruct l as [|x [|y t]].
  - destruct Ha.
  - destruct Ha as [<-|[]]. destruct Hb as [<-|[]]. reflexivity.
  - simpl in Hl. lia.
Qed.
Lemma stable_one_hospital R H cap mu p h1 h2 : (forall p, p < length R -> length (rowR R p) = length H) ->
  stableM (i_pl R) (i_rkH H) (fun _ => 1) cap (seq 0 (length H)) mu -> In p (mu h1) -> In p (mu h2) -> h1 = h2.
Proof.
  intros HRl [[Hf1 Hf2] _] H1 H2.
  assert (L1 : h1 < length H). { destruct (Hf1 h1) as [_ [_ H3]]. destruct (H3 p H1) as [_ Hp]. exact (inst_pl_lt R H HRl p h1 Hp). }
  assert (L2 : h2 < length H). { destruct (Hf1 h2) as [_ [_ H3]]. destruct (H3 p H2) as [_ Hp]. exact (inst_pl_lt R H HRl p h2 Hp). }
  apply (nodup_le1 (engsM (seq 0 (length H)) mu p)).
  - unfold engsM. apply NoDup_filter, seq_NoDup.
  - apply Hf2.
  - apply engsM_In. split; [apply in_seq; lia|exact H1].
  - apply engsM_In. split; [apply in_seq; lia|exact H2].
Qed.

Theorem C02_res_unique R H cap fuel out :
  strictb R (length H) = true -> strictb H (length R) = true ->
  gs_res_run R H cap fuel = Some out ->
  forall mu, stableM (i_pl R) (i_rkH H) (fun _ => 1) cap (seq 0 (length H)) mu ->
  (forall nu, stableM (i_pl R) (i_rkH H) (fun _ => 1) cap (seq 0 (length H)) nu ->
     forall p h, In p (nu h) -> exists h', In p (mu h') /\ (h' = h \/ before (i_pl R p) h' h)) ->
  forall p h, In p (mu h) <-> In p (mu_of_hospital out h).
Proof.
  intros HR HH Hrun mu Hmu Hopt p h.
  pose proof (C01_res_output R H cap fuel out HR HH Hrun) as HM.
  destruct (strictb_sound R _ HR) as [_ HRl].
  split; intros Hin.
  - destruct (C02_res_optimal R H cap fuel out HR HH Hrun mu Hmu p h Hin) as [h' [Hh' Hb]].
    destruct (Hopt _ HM p h' Hh') as [h'' [Hh'' Hb']].
    assert (h'' = h) by (apply (stable_one_hospital R H cap mu p h'' h HRl Hmu Hh'' Hin)). subst h''.
    destruct Hb as [->|Hb]; [exact Hh'|]. destruct Hb' as [->|Hb']; [exact Hh'|].
    exfalso. exact (before_asym _ _ _ (inst_pl_nodup R p) Hb Hb').
  - destruct (Hopt _ HM p h Hin) as [h' [Hh' Hb]].
    destruct (C02_res_optimal R H cap fuel out HR HH Hrun mu Hmu p h' Hh') as [h'' [Hh'' Hb']].
    assert (h'' = h) by (apply (stable_one_hospital R H cap (mu_of_hospital out) p h'' h HRl HM Hh'' Hin)). subst h''.
    destruct Hb as [->|Hb]; [exact Hh'|]. destruct Hb' as [->|Hb']; [exact Hh'|].
    exfalso. exact (before_asym _ _ _ (inst_pl_nodup R p) Hb Hb').
Qed.
