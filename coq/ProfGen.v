(* C18: the generated valuation row sums to one and is accepted by the consistency predicate, for every strict complete
   row of ranks and every vector of draws with positive (clipped) sum - exact-arithmetic model. *)
From Coq Require Import Arith ZArith QArith Qround Qabs List Bool Lia Lqa Permutation Sorted.
Import ListNotations.
From SCK Require Import ProfModel ProfProof.

Definition qsum (l : list Q) : Q := fold_right Qplus 0%Q l.
Lemma qsum_perm l l' : Permutation l l' -> (qsum l == qsum l')%Q.
Proof. induction 1; simpl; try lra. Qed.
Lemma qsum_sumq l : (sumq l == qsum l)%Q.
Proof. induction l as [|x t IH]; [reflexivity|]. change (sumq (x :: t)) with (Qred (x + sumq t)). change (qsum (x :: t)) with (x + qsum t)%Q. rewrite Qred_correct, IH. reflexivity. Qed.
Lemma qsum_map_div l s : ~ (s == 0)%Q -> (qsum (map (fun x => Qred (x / s)) l) == qsum l / s)%Q.
Proof.
  intros Hs. induction l as [|x t IH]; [unfold qsum; cbn [map fold_right]; field; exact Hs|].
  change (qsum (map (fun x0 => Qred (x0 / s)) (x :: t))) with (Qred (x / s) + qsum (map (fun x0 => Qred (x0 / s)) t))%Q.
  change (qsum (x :: t)) with (x + qsum t)%Q. rewrite IH, Qred_correct. field. exact Hs.
Qed.
Lemma map_nth_seq (l : list Q) : map (fun i => nth i l 0%Q) (seq 0 (length l)) = l.
Proof.
  induction l as [|x t IH]; [reflexivity|]. cbn [length seq map nth]. f_equal. rewrite <- seq_shift, map_map. exact IH.
Qed.

(* a strict complete row of ranks: the ranks 1..m in some order, stored as the code stores them *)
Definition rank_row (sigma : list nat) : list oq := map (fun r => Some (inject_Z (Z.of_nat r))) sigma.
Definition valof (o : oq) : Q := match o with Some v => v | None => 0%Q end.

Lemma floor_inject r : (Z.to_nat (Qfloor (inject_Z (Z.of_nat r))) - 1 = r - 1)%nat.
Proof. rewrite Qfloor_Z, Nat2Z.id. reflexivity. Qed.

Lemma gen_row_rank clip sigma draws :
  map valof (gen_row clip (rank_row sigma) draws) = map (fun r => nth (r - 1) (gen_vals clip draws) 0%Q) sigma.
Proof.
  unfold gen_row, rank_row. fold (gen_vals clip draws). rewrite !map_map. apply map_ext. intros r. cbn [valof]. rewrite floor_inject. reflexivity.
Qed.

Lemma gen_vals_length clip draws : length (gen_vals clip draws) = length draws.
Proof. unfold gen_vals. rewrite map_length, sort_desc_length. destruct clip; [apply map_length|reflexivity]. Qed.

Lemma perm_ranks_vals sigma (vals : list Q) : Permutation sigma (seq 1 (length vals)) ->
  Permutation (map (fun r => nth (r - 1) vals 0%Q) sigma) vals.
Proof.
  intros Hp. apply Permutation_trans with (map (fun r => nth (r - 1) vals 0%Q) (seq 1 (length vals))); [apply Permutation_map; exact Hp|].
  rewrite <- seq_shift, map_map.
  rewrite (map_ext (fun x => nth (S x - 1) vals 0%Q) (fun i => nth i vals 0%Q)) by (intros; rewrite Nat.sub_succ, Nat.sub_0_r; reflexivity).
  rewrite map_nth_seq. reflexivity.
Qed.

Theorem gen_sums_to_one (clip : bool) sigma draws : let u := if clip then clip0 draws else draws in
  (0 < sumq u)%Q -> Permutation sigma (seq 1 (length draws)) ->
  (qsum (map valof (gen_row clip (rank_row sigma) draws)) == 1)%Q.
Proof.
  intros u Hs Hp. rewrite gen_row_rank. rewrite <- (gen_vals_length clip draws) in Hp.
  rewrite (qsum_perm _ _ (perm_ranks_vals sigma _ Hp)). unfold gen_vals. fold u.
  rewrite qsum_map_div by lra. rewrite (qsum_perm _ _ (sort_desc_perm u)), <- qsum_sumq. field. lra.
Qed.

(* ---------- acceptance by the consistency predicate ---------- *)
Lemma canonical_eq a b : (Qred a == Qred b)%Q -> Qred a = Qred b.
Proof. intros H. rewrite !Qred_correct in H. apply Qred_complete. exact H. Qed.
Definition canon (l : list Q) : Prop := forall x, In x l -> exists t, x = Qred t.
Lemma sorted_perm_eq l1 : forall l2, canon l1 -> StronglySorted geq l1 -> StronglySorted geq l2 -> Permutation l1 l2 -> l1 = l2.
Proof.
  induction l1 as [|a t IH]; intros l2 Hc H1 H2 Hp.
  - apply Permutation_nil in Hp. subst. reflexivity.
  - destruct l2 as [|b u]; [apply Permutation_sym, Permutation_nil in Hp; discriminate|].
    inversion H1 as [|? ? H1s H1f]; subst. inversion H2 as [|? ? H2s H2f]; subst. rewrite Forall_forall in H1f, H2f.
    assert (Hc2 : canon (b :: u)) by (intros x Hx; apply Hc; eapply Permutation_in; [symmetry; exact Hp|exact Hx]).
    assert (Hab : a = b).
    { destruct (Hc a (or_introl eq_refl)) as [ta ->]. destruct (Hc2 b (or_introl eq_refl)) as [tb ->]. apply canonical_eq.
      assert (Hb : In (Qred tb) (Qred ta :: t)) by (eapply Permutation_in; [symmetry; exact Hp|now left]).
      assert (Ha : In (Qred ta) (Qred tb :: u)) by (eapply Permutation_in; [exact Hp|now left]).
      assert (L1 : (Qred tb <= Qred ta)%Q) by (destruct Hb as [E|Hb]; [rewrite E; lra|apply H1f; exact Hb]).
      assert (L2 : (Qred ta <= Qred tb)%Q) by (destruct Ha as [E|Ha]; [rewrite E; lra|apply H2f; exact Ha]).
      lra. }
    subst b. f_equal. apply IH.
    + intros x Hx. apply Hc. now right.
    + exact H1s.
    + exact H2s.
    + apply Permutation_cons_inv with (a := a). exact Hp.
Qed.

Lemma gen_vals_sorted (clip : bool) draws : (0 < sumq (if clip then clip0 draws else draws))%Q -> StronglySorted geq (gen_vals clip draws).
Proof.
  intros Hs. unfold gen_vals. set (u := if clip then clip0 draws else draws) in *.
  pose proof (sort_desc_sorted u) as H. induction H as [|a t Hs' IH Hf]; cbn [map]; constructor; [exact IH|].
  rewrite Forall_forall in *. intros y Hy. apply in_map_iff in Hy as [x [<- Hx]]. specialize (Hf x Hx). unfold geq in *.
  rewrite !Qred_correct. unfold Qdiv. assert (0 < / sumq u)%Q by (apply Qinv_lt_0_compat; exact Hs). nra.
Qed.
Lemma gen_vals_canon clip draws : canon (gen_vals clip draws).
Proof. intros x Hx. unfold gen_vals in Hx. apply in_map_iff in Hx as [y [<- _]]. eexists. reflexivity. Qed.

Lemma allclose_refl a : allclose a a = true.
Proof.
  apply allclose_iff. unfold band. assert (E : (a - a == 0)%Q) by ring. rewrite E. change (Qabs 0) with 0%Q.
  pose proof (Qabs_nonneg a). nra.
Qed.

(* by_rank on a generated row lists the values in rank order: exactly gen_vals *)
Lemma find_rank sigma (vrow : list Q) r : NoDup sigma -> length vrow = length sigma -> In r sigma ->
  exists j, nth_error sigma j = Some r /\
    find (fun jv : option Q * Q => match fst jv with Some x => Qeq_bool x (inject_Z (Z.of_nat r)) | None => false end) (combine (rank_row sigma) vrow)
    = Some (Some (inject_Z (Z.of_nat r)), nth j vrow 0%Q).
Proof.
  revert vrow. induction sigma as [|s t IH]; intros vrow Hnd Hl Hin; [destruct Hin|].
  destruct vrow as [|v vt]; [discriminate|]. cbn [rank_row map combine find fst].
  destruct (Nat.eq_dec s r) as [->|Hne].
  - exists 0%nat. split; [reflexivity|]. assert (E : Qeq_bool (inject_Z (Z.of_nat r)) (inject_Z (Z.of_nat r)) = true) by (apply Qeq_bool_iff; reflexivity).
    rewrite E. reflexivity.
  - assert (E : Qeq_bool (inject_Z (Z.of_nat s)) (inject_Z (Z.of_nat r)) = false).
    { destruct (Qeq_bool _ _) eqn:E; [|reflexivity]. apply Qeq_bool_iff in E. unfold Qeq in E. simpl in E. lia. }
    rewrite E. inversion Hnd; subst. destruct Hin as [->|Hin]; [contradiction|].
    destruct (IH vt ltac:(assumption) ltac:(simpl in Hl; lia) Hin) as [j [Hj Hf]]. exists (S j). split; [exact Hj|]. exact Hf.
Qed.

Theorem generated_is_accepted (clip : bool) sigma draws : let u := if clip then clip0 draws else draws in
  (0 < sumq u)%Q -> Permutation sigma (seq 1 (length draws)) ->
  consistent_row (rank_row sigma) (map valof (gen_row clip (rank_row sigma) draws)) = true.
Proof.
  intros u Hs Hp. set (vals := gen_vals clip draws). set (vrow := map valof (gen_row clip (rank_row sigma) draws)).
  assert (Hvrow : vrow = map (fun r => nth (r - 1) vals 0%Q) sigma) by apply gen_row_rank.
  assert (Hlen : length vals = length draws) by apply gen_vals_length.
  assert (Hls : length sigma = length draws) by (rewrite (Permutation_length Hp); apply seq_length).
  assert (Hnd : NoDup sigma) by (eapply Permutation_NoDup; [symmetry; exact Hp|apply seq_NoDup]).
  assert (Hperm : Permutation vrow vals) by (rewrite Hvrow; apply perm_ranks_vals; rewrite Hlen; exact Hp).
  (* sort_desc vrow = vals *)
  assert (Hsort : sort_desc vrow = vals).
  { symmetry. apply sorted_perm_eq; [apply gen_vals_canon|apply gen_vals_sorted; exact Hs|apply sort_desc_sorted|].
    rewrite sort_desc_perm. symmetry. exact Hperm. }
  (* by_rank = vals *)
  assert (Hby : by_rank (rank_row sigma) vrow = vals).
  { unfold by_rank. replace (length (rank_row sigma)) with (length vals) by (unfold rank_row; rewrite map_length; lia). rewrite <- (map_nth_seq vals) at 2.
    rewrite <- seq_shift, map_map. apply map_ext_in. intros i Hi. apply in_seq in Hi.
    assert (Hin : In (S i) sigma) by (eapply Permutation_in; [symmetry; exact Hp|apply in_seq; lia]).
    destruct (find_rank sigma vrow (S i) Hnd ltac:(rewrite Hvrow, map_length; reflexivity) Hin) as [j [Hj Hf]].
    rewrite Hf. cbn [snd]. rewrite Hvrow. rewrite (nth_map_dflt (fun r => nth (r - 1) vals 0%Q) sigma 0%Q 0%nat j) by (apply nth_error_Some; congruence).
    rewrite (nth_error_nth _ _ 0%nat Hj). rewrite Nat.sub_succ, Nat.sub_0_r. reflexivity. }
  unfold consistent_row. fold vrow. rewrite Hby, Hsort. apply forallb_forall. intros [a b] Hab.
  assert (a = b). { clear -Hab. induction vals as [|x t IH]; [destruct Hab|]. destruct Hab as [E|Hab]; [injection E as <- <-; reflexivity|apply IH; exact Hab]. }
  subst. cbn [fst snd]. apply allclose_refl.
Qed.
