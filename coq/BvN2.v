From Coq Require Import ZArith QArith List Bool Lia.
Import ListNotations.
Require Import FlowModel BipModel.
Local Open Scope Z_scope.

(* Birkhoff-von Neumann over exact rationals, on top of the bipartite matching model *)
Definition qsub (a b : Q) := Qred (a - b).
Definition mat := list (list Q).
Definition mget (X : mat) (i j : nat) : Q := nth j (nth i X []) 0%Q.
Definition posb (q : Q) : bool := negb (Qle_bool q 0).
Definition adjP (X : mat) (n i : nat) : list Z := map (fun j => Z.of_nat (j + n)) (filter (fun j => posb (mget X i j)) (seq 0 n)).
Definition posgraph (X : mat) (n : nat) : bgraph := map (fun i => (Z.of_nat i, adjP X n i)) (seq 0 n).
Definition keys_ok (X : mat) (n : nat) : bool :=
  forallb (fun i => existsb (fun j => posb (mget X i j)) (seq 0 n)) (seq 0 n) &&
  forallb (fun j => existsb (fun i => posb (mget X i j)) (seq 0 n)) (seq 0 n).
Definition xs (n : nat) : list Z := map Z.of_nat (seq 0 n).
Definition ys (n : nat) : list Z := map (fun j => Z.of_nat (j + n)) (seq 0 n).
Definition matched (M : list (Z * Z)) (n i j : nat) : bool := existsb (pair_eqb (Z.of_nat i, Z.of_nat (j + n))) M.
Definition zmin (X : mat) (n : nat) (M : list (Z * Z)) : option Q :=
  fold_left (fun z ij => let v := mget X (Z.to_nat (fst ij)) (Z.to_nat (snd ij) - n) in
                         match z with None => Some v | Some z0 => Some (if Qle_bool z0 v then z0 else v) end) M None.
Definition sub_step (X : mat) (n : nat) (M : list (Z * Z)) (z : Q) : mat :=
  map (fun i => map (fun j => if matched M n i j then qsub (mget X i j) z else mget X i j) (seq 0 n)) (seq 0 n).
Fixpoint bvn_loop (fuel ffuel : nat) (n : nat) (X : mat) (acc : list (Q * list (Z * Z))) : option (list (Q * list (Z * Z))) :=
  match fuel with O => None | S f =>
    if forallb (forallb (fun x => Qeq_bool x 0)) X then Some acc else
    if negb (keys_ok X n) then None else
    match max_matching ffuel (posgraph X n) (xs n) (ys n) with
    | None => None
    | Some M => match zmin X n M with
                | None => None
                | Some z => bvn_loop f ffuel n (sub_step X n M z) (acc ++ [(z, M)])
                end
    end
  end.
Definition bvn (ffuel : nat) (X : mat) : option (list (Q * list (Z * Z))) :=
  bvn_loop (length X * length X + 2) ffuel (length X) X [].
