From Coq Require Import ZArith QArith List Bool Lia.
Import ListNotations.
Require Import ElicitM ElicitRun.
Local Open Scope Z_scope.

(* the value computed by a query program, as a pure function of the valuation *)
Fixpoint eval {A} (fixer : Z) (V : key -> Q) (p : prog A) : A :=
  match p with Ret a => a | Ask k c => eval fixer V (c (V (fst k + fixer, snd k + fixer))) end.

(* with a memoising elicitor whose table is truthful, running a program returns exactly that value *)
Theorem run_eval {A} fixer V (p : prog A) : forall st, memo_inv V st ->
  fst (run true fixer V p st) = eval fixer V p /\ memo_inv V (snd (run true fixer V p st)).
Proof.
  induction p as [a|k c IH]; intros st Hm; simpl; [split; [reflexivity|exact Hm]|].
  pose proof (elicit_memo_inv fixer V st k Hm) as [Hm1 Hv].
  destruct (elicit true fixer V st k) as [st1 v] eqn:E. simpl in Hm1, Hv. subst v. apply IH. exact Hm1.
Qed.
Lemma memo_inv_init V : memo_inv V einit.
Proof. split; [constructor|]. split; [reflexivity|]. split; [intros k; simpl; split; [intros []|intros H; exfalso; apply H; reflexivity]|intros k v H; discriminate]. Qed.

Lemma eval_bind {A B} fixer V (p : prog A) (f : A -> prog B) : eval fixer V (bind p f) = eval fixer V (f (eval fixer V p)).
Proof. induction p as [a|k c IH]; simpl; [reflexivity|apply IH]. Qed.
Lemma eval_mapP {A B} fixer V (f : A -> prog B) l : eval fixer V (mapP f l) = map (fun x => eval fixer V (f x)) l.
Proof. induction l as [|x t IH]; simpl; [reflexivity|]. rewrite eval_bind, eval_bind. simpl. rewrite IH. reflexivity. Qed.
Lemma eval_foldP {A S} fixer V (f : S -> A -> prog S) l : forall s, eval fixer V (foldP f l s) = fold_left (fun s x => eval fixer V (f s x)) l s.
Proof. induction l as [|x t IH]; intros s; simpl; [reflexivity|]. rewrite eval_bind. apply IH. Qed.

(* the binary search as a pure function *)
Fixpoint bs_pure (fixer : Z) (V : key -> Q) (fuel : nat) (rk : list Z) (i a b : Z) (tau : Q) : Z :=
  match fuel with O => a | S f =>
    if b - a <=? 1 then a else
    let mid := (a + b) / 2 in
    if Qle_bool tau (V (i + fixer, nth (Z.to_nat mid) rk 0 + fixer)) then bs_pure fixer V f rk i mid b tau else bs_pure fixer V f rk i a mid tau
  end.
Lemma eval_bsearch fixer V fuel rk i : forall a b tau, eval fixer V (bsearchP fuel rk i a b tau) = bs_pure fixer V fuel rk i a b tau.
Proof.
  induction fuel as [|f IH]; intros a b tau; simpl; [reflexivity|]. destruct (b - a <=? 1); [reflexivity|]. simpl.
  destruct (Qle_bool tau _); apply IH.
Qed.
Print Assumptions run_eval.
