(* C03 (partial): the stages of the Irving model whose correctness does not need the rotation-poset theory. *)
From Coq Require Import Arith ZArith List Bool Lia Permutation.
Import ListNotations.
From SCK Require Import Argsort StrictB DA FlowModel FlowWf Mwcs MwcsProof MwcsOpt MwcsFinal GS2 GSInst GSFinal Irving.

Local Open Scope nat_scope.
Definition tok (P : list (list nat)) : list (list okey) := map (map Some) P.

(* ---------- (a) the first stage is the man-optimal stable matching ---------- *)
Theorem irving_start_stable P1 P2 V1 V2 ff t :
  strictb (tok P1) (length P1) = true -> strictb (tok P2) (length P1) = true -> length P2 = length P1 ->
  irving P1 P2 V1 V2 ff = Some t ->
  stableM (i_pl (tok P1)) (i_rkH (tok P2)) (fun _ => 1) (fun _ => 1) (seq 0 (length P2)) (mu_of_hospital (t_M0 t)) /\
  (forall mu, stableM (i_pl (tok P1)) (i_rkH (tok P2)) (fun _ => 1) (fun _ => 1) (seq 0 (length P2)) mu ->
     forall p h, In p (mu h) -> exists h', In p (mu_of_hospital (t_M0 t) h') /\ (h' = h \/ before (i_pl (tok P1) p) h' h)).
Proof.
  intros H1 H2 Hlen H. unfold irving in H. fold (tok P1) in H. fold (tok P2) in H.
  destruct (gs_res_run (tok P1) (tok P2) (fun _ => 1) (length P1 * length P1 + 2)) as [M0|] eqn:Eg; [|discriminate].
  assert (L1 : length (tok P1) = length P1) by (unfold tok; apply map_length).
  assert (L2 : length (tok P2) = length P2) by (unfold tok; apply map_length).
  assert (Et : t_M0 t = M0).
  { destruct (find_all (new_pl1 P1 P2 M0) (new_pl2 P1 P2 M0)) as [[rots el]|]; [|discriminate].
    destruct (mwcs ff (poset rots (new_pl1 P1 P2 M0) el) (map (rot_weight V1 V2) rots)); [|discriminate]. injection H as <-. reflexivity. }
  rewrite Et. split.
  - pose proof (C01_res_output (tok P1) (tok P2) (fun _ => 1) (length P1 * length P1 + 2) M0) as S. rewrite L1, L2 in S. apply S; [rewrite Hlen; exact H1|exact H2|exact Eg].
  - pose proof (C02_res_optimal (tok P1) (tok P2) (fun _ => 1) (length P1 * length P1 + 2) M0) as S. rewrite L1, L2 in S. apply S; [rewrite Hlen; exact H1|exact H2|exact Eg].
Qed.

(* ---------- (e) the closed-subset stage returns a maximum-weight predecessor-closed set ---------- *)
Fixpoint nodupn (l : list nat) : bool := match l with [] => true | x :: r => negb (Mwcs.memn x r) && nodupn r end.
Definition poset_okb (P : list (list nat)) : bool :=
  forallb (fun pi => nodupn (Mwcs.nthl P pi) && forallb (fun rho => (rho <? length P)%nat && negb (rho =? pi)%nat) (Mwcs.nthl P pi)) (seq 0 (length P)).
Lemma nodupn_sound l : nodupn l = true -> NoDup l.
Proof.
  induction l as [|x r IH]; simpl; intros H; [constructor|]. apply andb_prop in H as [H1 H2]. constructor; [|apply IH; exact H2].
  intros Hin. assert (E : Mwcs.memn x r = true) by (unfold Mwcs.memn; apply existsb_exists; exists x; split; [exact Hin|apply Nat.eqb_refl]).
  rewrite E in H1. discriminate.
Qed.
Lemma poset_okb_sound P : poset_okb P = true ->
  forall pi, (pi < length P)%nat -> NoDup (Mwcs.nthl P pi) /\ forall rho, In rho (Mwcs.nthl P pi) -> (rho < length P)%nat /\ rho <> pi.
Proof.
  unfold poset_okb. intros H pi Hpi. rewrite forallb_forall in H. specialize (H pi (proj2 (in_seq _ _ _) (conj (Nat.le_0_l _) Hpi))).
  apply andb_prop in H as [H1 H2]. split; [apply nodupn_sound; exact H1|]. rewrite forallb_forall in H2.
  intros rho Hr. specialize (H2 rho Hr). apply andb_prop in H2 as [A B]. apply Nat.ltb_lt in A. split; [exact A|].
  intros ->. rewrite Nat.eqb_refl in B. discriminate.
Qed.

Lemma sortZ_perm l : Permutation (sortZ l) l.
Proof.
  induction l as [|x t IH]; simpl; [constructor|].
  assert (H : forall y s, Permutation (insZ y s) (y :: s)).
  { intros y s. induction s as [|z r IHs]; simpl; [reflexivity|]. destruct (y <=? z)%Z; [reflexivity|]. rewrite IHs. apply perm_swap. }
  rewrite H. constructor. exact IH.
Qed.
Lemma sorted_nat_mem l x : Mwcs.memn x (sorted_nat l) = Mwcs.memn x l.
Proof.
  assert (P : Permutation (sorted_nat l) l).
  { unfold sorted_nat. rewrite (Permutation_map Z.to_nat (sortZ_perm (map Z.of_nat l))). rewrite map_map.
    rewrite (map_ext _ (fun x => x)) by (intros; apply Nat2Z.id). rewrite map_id. reflexivity. }
  unfold Mwcs.memn. destruct (existsb (Nat.eqb x) l) eqn:E.
  - apply existsb_exists in E as [y [Hy E]]. apply existsb_exists. exists y. split; [eapply Permutation_in; [symmetry; exact P|exact Hy]|exact E].
  - destruct (existsb (Nat.eqb x) (sorted_nat l)) eqn:E2; [|reflexivity]. apply existsb_exists in E2 as [y [Hy E2]].
    assert (existsb (Nat.eqb x) l = true) by (apply existsb_exists; exists y; split; [eapply Permutation_in; [exact P|exact Hy]|exact E2]). congruence.
Qed.

Theorem irving_closed_subset_optimal P1 P2 V1 V2 ff t :
  irving P1 P2 V1 V2 ff = Some t ->
  poset_okb (t_P t) = true -> (sumN (negp (t_ws t)) (seq 0 (length (t_P t))) < maxsize)%Z ->
  let c1 := fun pi => Mwcs.memn pi (t_S t) in
  pred_closed (t_P t) c1 /\ forall c, pred_closed (t_P t) c -> (W (t_P t) (t_ws t) c <= W (t_P t) (t_ws t) c1)%Z.
Proof.
  intros H Hok Hsmall. unfold irving in H.
  destruct (gs_res_run _ _ _ _) as [M0|]; [|discriminate].
  destruct (find_all (new_pl1 P1 P2 M0) (new_pl2 P1 P2 M0)) as [[rots el]|]; [|discriminate].
  destruct (mwcs ff (poset rots (new_pl1 P1 P2 M0) el) (map (rot_weight V1 V2) rots)) as [cs0|] eqn:Em; [|discriminate].
  injection H as <-. cbn [t_P t_ws t_S] in *.
  pose proof (mwcs_optimal _ _ ff cs0 (poset_okb_sound _ Hok) Hsmall Em) as [A B]. cbv zeta in *.
  assert (E : forall pi, Mwcs.memn pi (sorted_nat cs0) = Mwcs.memn pi cs0) by (intros; apply sorted_nat_mem).
  split.
  - intros u v Hu Hv Hc. rewrite E in *. exact (A u v Hu Hv Hc).
  - intros c Hc. specialize (B c Hc).
    assert (EW : W (poset rots (new_pl1 P1 P2 M0) el) (map (rot_weight V1 V2) rots) (fun pi => Mwcs.memn pi (sorted_nat cs0)) =
                 W (poset rots (new_pl1 P1 P2 M0) el) (map (rot_weight V1 V2) rots) (fun pi => Mwcs.memn pi cs0)).
    { unfold W. f_equal. apply filter_ext. exact E. }
    rewrite EW. exact B.
Qed.
