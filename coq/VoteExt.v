(* Further executable models for the voting rules: utilitarian score, ranking (swf) checker,
   probabilities handed to the sampler by the randomized scoring rules. No proofs here. *)
From Coq Require Import ZArith QArith List Bool Lia.
Import ListNotations.
From SCK Require Import Voting.
Local Open Scope Z_scope.

(* deterministic_scoring.py:531  np.nansum(V, axis=0) / np.nansum(V)   (None = NaN) *)
Definition nz (o : option Q) : Q := match o with Some q => q | None => 0%Q end.
Definition colsum (V : list (list (option Q))) (j : nat) : Q :=
  fold_left (fun acc row => Qred (acc + nz (nth j row None))) V 0%Q.
Definition sumQl (l : list Q) : Q := fold_left (fun acc x => Qred (acc + x)) l 0%Q.
Definition util_score (V : list (list (option Q))) : list Q :=
  let m := length (nth 0 V []) in
  let cols := map (colsum V) (seq 0 m) in
  let tot := sumQl cols in
  map (fun c => Qred (c / tot)) cols.

(* BaseScoring.swf / BaseTournament.swf: np.argsort(-score) leaves the order of tied scores open, so the
   ranking is validated, not compared: alternatives (after removing the index shift) are a
   permutation of 0..m-1, each carries its score, scores are non-increasing. *)
Fixpoint nonincrQ (l : list Q) : bool :=
  match l with x :: ((y :: _) as t) => Qle_bool y x && nonincrQ t | _ => true end.
Definition ranking_ok (s : list Q) (fixer : Z) (alts : list Z) (scs : list Q) : bool :=
  let m := length s in
  let a0 := map (fun a => Z.to_nat (a - fixer)) alts in
  (length alts =? m)%nat && (length scs =? m)%nat &&
  forallb (fun a => fixer <=? a) alts &&
  forallb (fun j => existsb (Nat.eqb j) a0) (seq 0 m) &&
  forallb (fun p => match nth_error s (fst p) with Some v => Qeq_bool v (snd p) | None => false end) (combine a0 scs) &&
  nonincrQ scs.

(* randomized_scoring.py:68  p = score / np.sum(score) *)
Definition rand_probs (s : list Q) : list Q := let tot := sumQl s in map (fun x => Qred (x / tot)) s.
Definition probs_close (a b : list Q) : bool :=
  (length a =? length b)%nat && forallb (fun p => Qle_bool (fst p - snd p) (1 # 1000000000000) && Qle_bool (snd p - fst p) (1 # 1000000000000)) (combine a b).
