From Coq Require Import ZArith List Bool Lia.
Import ListNotations.
Require Import FlowModel FlowProof FlowInit FlowCut.
Local Open Scope Z_scope.

Lemma insZ_in x y l : In y (insZ x l) <-> y = x \/ In y l.
Proof.
  induction l as [|z t IH]; simpl; [intuition|]. destruct (x <=? z); simpl; [intuition|]. rewrite IH. intuition.
Qed.
Lemma sortZ_in y l : In y (sortZ l) <-> In y l.
Proof. induction l as [|z t IH]; simpl; [tauto|]. rewrite insZ_in, IH. intuition congruence. Qed.

(* C08 for the model: partial correctness of ford_fulkerson *)
Theorem C08_ff_correct G s t fuel out cut :
  wf_in G -> In s (keys G) -> s <> t ->
  ford_fulkerson fuel G s t = Some (out, cut) ->
  exists fl,
    out = flat_map (fun ka => map (fun e => ((fst ka, fst e), fget fl (fst ka, fst e))) (snd ka)) G /\
    (* a feasible net flow *)
    (forall x y, fget fl (x, y) = - fget fl (y, x)) /\
    (forall x y, fget fl (x, y) <= cf G x y) /\
    (forall x, In x (keys G) -> x <> s -> x <> t -> sumZ (fun y => fget fl (x, y)) (keys G) = 0) /\
    (* the cut *)
    In s cut /\ ~ In t cut /\
    sumZ (fun y => fget fl (s, y)) (keys G) = cutcap (cf G) (keys G) (fun x => memZ x cut) /\
    (* maximality *)
    forall g, feasible G s t g -> sumZ (g s) (keys G) <= sumZ (fun y => fget fl (s, y)) (keys G).
Proof.
  intros Hwf Hs Hst H. pose proof Hwf as [HV _].
  unfold ford_fulkerson in H.
  destruct (ff_loop fuel (init G) s t) as [[Gf fl]|] eqn:El; [|discriminate]. injection H as <- <-.
  pose proof (init_FInv G s t Hwf) as F0.
  destruct (init G) as [Gf0 fl0] eqn:Ei. cbn [fst snd] in F0.
  destruct (ff_loop_inv G s t HV Hst fuel Gf0 fl0 Gf fl F0 El) as [F [_ [vis' Hd]]].
  pose proof (f_p _ _ _ _ _ F) as P. pose proof (p_wf _ _ _ P) as [HKn Hstruct].
  exists fl. split; [reflexivity|]. split; [apply (p_skew _ _ _ P)|].
  split; [intros x y; pose proof (p_cf _ _ _ P x y); pose proof (p_nn _ _ _ P x y); lia|].
  split; [apply (f_cons _ _ _ _ _ F)|].
  (* the marked set of the failing search *)
  pose proof (dfs_posts _ Gf t s [s] vis' None Hd) as [_ [_ [Hsucc Hcl]]].
  set (C := fun x => In x (s :: vis')).
  assert (HC : closedP Gf C).
  { intros u v c Hu Hin Hc. unfold C in *. right. assert (Hp : pos Gf u v) by (exists c; auto).
    destruct Hu as [<-|Hu]; [apply Hsucc; exact Hp|].
    destruct (Z.eq_dec s u) as [<-|Hne]; [apply Hsucc; exact Hp|].
    destruct (Hcl u Hu (fun X => match X with or_introl e => Hne e | or_intror f => f end)) as [_ Hs']. apply Hs'; exact Hp. }
  set (R := closure (S (length Gf)) Gf [s]).
  destruct (closure_props Gf C HC (S (length Gf)) [s]) as [RA [RB RC]].
  { constructor; [intros []|constructor]. } { intros x [<-|[]]. unfold C. now left. }
  fold R in RA, RB, RC.
  assert (HsGf : In s (keys Gf)) by (rewrite (p_keys _ _ _ P); exact Hs).
  assert (Rcl : closedP Gf (fun x => In x R)).
  { apply (closure_closed Gf (keys Gf)).
    - intros u v c Hin. assert (Hv : In v (targets Gf u)) by (unfold targets; apply (in_map fst) in Hin; exact Hin).
      destruct (Hstruct u v Hv) as [_ [Hk _]]. exact Hk.
    - exact HKn.
    - constructor; [intros []|constructor].
    - intros x [<-|[]]. exact HsGf.
    - unfold keys. rewrite map_length. simpl. lia. }
  assert (HsR : In s R) by (apply RA; now left).
  assert (HtR : ~ In t R).
  { intros Ht. apply RC in Ht. unfold C in Ht. destruct Ht as [E|Ht]; [congruence|].
    destruct (Hcl t Ht (fun X => match X with or_introl e => Hst e | or_intror f => f end)) as [Hne _]. congruence. }
  split; [apply (proj2 (sortZ_in _ _)); exact HsR|]. split; [intros X; apply (proj1 (sortZ_in _ _)) in X; exact (HtR X)|].
  set (inR := fun x => memZ x (sortZ R)).
  assert (E1 : inR s = true) by (apply memZ_In; apply (proj2 (sortZ_in _ _)); exact HsR).
  assert (E2 : inR t = false).
  { unfold inR. destruct (memZ t (sortZ R)) eqn:E; [|reflexivity]. apply memZ_In in E. apply (proj1 (sortZ_in _ _)) in E. exfalso. exact (HtR E). }
  destruct (maxflow_mincut G s t Gf fl inR HV Hs F E1 E2) as [Hval Hmax].
  { intros x y Hx Hpos. unfold inR in *. apply memZ_In; apply (proj2 (sortZ_in _ _)). apply memZ_In in Hx. apply (proj1 (sortZ_in _ _)) in Hx.
    destruct (cf_pos_pos Gf x y (f_nt _ _ _ _ _ F) Hpos) as [c [Hin Hc]]. eapply Rcl; eauto. }
  split; [exact Hval|exact Hmax].
Qed.
Print Assumptions C08_ff_correct.
