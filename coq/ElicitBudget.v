(* C15: per-agent query budget of the threshold rules run against a memoising elicitor: every agent is asked at
   most 1 + k * ceil(log2 m) distinct questions (k-ARV, lambda-TSF: byq = false). *)
From Coq Require Import Arith ZArith QArith List Bool Lia.
Import ListNotations.
From SCK Require Import ElicitM ElicitRun ElicitEval ElicitBS ElicitRules.
Local Open Scope Z_scope.
Ltac Zify.zify_post_hook ::= Z.to_euclidean_division_equations.

Lemma log2_up_half (a b : Z) : 1 < b - a -> forall w, 1 <= w -> 2 * w <= (b - a) + 1 -> Z.log2_up w + 1 <= Z.log2_up (b - a).
Proof.
  intros E.
 intros w Hw Hle. destruct (Z.eq_dec w 1) as [->|Hne].
  - simpl. assert (1 < b - a) by lia. pose proof (Z.log2_up_pos (b - a) H). lia.
  - assert (Hw2 : 1 < w) by lia.
    (* 2^(log2_up w - 1) < w, so 2^(log2_up w) < 2w <= b-a+1, hence 2^(log2_up w) <= b - a ... *)
    pose proof (Z.log2_up_spec w Hw2) as [Hl _].
    assert (Hp : 2 ^ Z.log2_up w < 2 * w).
    { replace (Z.log2_up w) with (Z.succ (Z.pred (Z.log2_up w))) by lia. rewrite Z.pow_succ_r; [lia|].
      pose proof (Z.log2_up_pos w Hw2). lia. }
    assert (Hq : 2 ^ Z.log2_up w < b - a + 1) by lia.
    (* log2_up w < log2_up (b-a) or equal with slack: use monotonicity on 2^(log2_up w) + ... *)
    assert (Hr : 2 ^ Z.log2_up w <= b - a) by lia.
    assert (Hs : 2 ^ Z.log2_up w < b - a \/ 2 ^ Z.log2_up w = b - a) by lia.
    destruct Hs as [Hs|Hs].
    + apply Z.log2_up_lt_pow2 in Hs; lia.
    + (* then 2w > b - a = 2^L means w > 2^(L-1): fine, but we need L + 1 <= log2_up (b-a) = L: impossible, so show contradiction *)
      exfalso. rewrite <- Hs in Hle. (* 2w <= 2^L + 1 and 2^(L-1) < w, i.e. 2^L < 2w <= 2^L + 1, so 2w = 2^L + 1: parity *)
      assert (Hpar : 2 * w = 2 ^ Z.log2_up w + 1) by lia.
      pose proof (Z.log2_up_pos w Hw2) as HLpos.
      replace (Z.log2_up w) with (Z.succ (Z.pred (Z.log2_up w))) in Hpar by lia. rewrite Z.pow_succ_r in Hpar by lia. lia. 
Qed.

Section Budget.
Variables (fixer : Z) (V : key -> Q).
(* number of questions forwarded to agent a (a is the agent number as the callback sees it, i.e. with the index shift) *)
Definition acnt (a : Z) (st : estate) : nat := length (filter (fun k => fst k =? a) (trace st)).

Lemma elicit_acnt a st k0 : (acnt a (fst (elicit true fixer V st k0)) <= acnt a st + (if (fst k0 + fixer =? a)%Z then 1 else 0))%nat.
Proof.
  unfold elicit, acnt. cbv beta iota zeta. destruct (mget (memo st) (fst k0 + fixer, snd k0 + fixer)); cbn [fst trace]; [lia|].
  rewrite filter_app, app_length. cbn [filter fst]. destruct (fst k0 + fixer =? a)%Z; simpl; apply le_n.
Qed.

Lemma bsearch_acnt a rk i tau fuel : forall lo hi st p st',
  run true fixer V (bsearchP fuel rk i lo hi tau) st = (p, st') -> lo < hi ->
  (Z.of_nat (acnt a st') <= Z.of_nat (acnt a st) + (if i + fixer =? a then Z.log2_up (hi - lo) else 0)).
Proof.
  induction fuel as [|f IH]; intros lo hi st p st' Hrun Hlt.
  - cbn in Hrun. injection Hrun as _ <-. pose proof (Z.log2_up_nonneg (hi - lo)). destruct (i + fixer =? a); lia.
  - cbn [bsearchP] in Hrun. destruct (hi - lo <=? 1) eqn:E.
    + cbn in Hrun. injection Hrun as _ <-. pose proof (Z.log2_up_nonneg (hi - lo)). destruct (i + fixer =? a); lia.
    + apply Z.leb_gt in E. cbn [run] in Hrun. set (mid := (lo + hi) / 2) in *.
      assert (Hmid : lo < mid /\ mid < hi) by (unfold mid; lia).
      pose proof (elicit_acnt a st (i, nth (Z.to_nat mid) rk 0)) as He. cbn [fst] in He.
      destruct (elicit true fixer V st (i, nth (Z.to_nat mid) rk 0)) as [st1 u] eqn:Ee. cbn [fst] in He.
      pose proof (log2_up_half lo hi E) as Hlog.
      destruct (Qle_bool tau u).
      * specialize (IH mid hi st1 p st' Hrun ltac:(lia)). pose proof (Hlog (hi - mid) ltac:(lia) ltac:(unfold mid; lia)).
        destruct (i + fixer =? a); lia.
      * specialize (IH lo mid st1 p st' Hrun ltac:(lia)). pose proof (Hlog (mid - lo) ltac:(lia) ltac:(unfold mid; lia)).
        destruct (i + fixer =? a); lia.
Qed.

(* a list of per-agent programs, one per agent index, each charging only its own agent *)
Lemma mapP_acnt {B} a (f : nat -> prog B) (bd : Z) : 0 <= bd ->
  (forall i st y st', run true fixer V (f i) st = (y, st') -> Z.of_nat (acnt a st') <= Z.of_nat (acnt a st) + (if Z.of_nat i + fixer =? a then bd else 0)) ->
  forall l st ys st', NoDup l -> run true fixer V (mapP f l) st = (ys, st') ->
  Z.of_nat (acnt a st') <= Z.of_nat (acnt a st) + (if existsb (fun i => Z.of_nat i + fixer =? a) l then bd else 0).
Proof.
  intros Hbd Hf. induction l as [|x t IH]; intros st ys st' Hnd Hrun.
  - rewrite run_mapP_nil in Hrun. injection Hrun as _ <-. cbn. lia.
  - rewrite run_mapP_cons in Hrun. destruct (run true fixer V (f x) st) as [y st1] eqn:E1.
    destruct (run true fixer V (mapP f t) st1) as [ys' st2] eqn:E2. injection Hrun as _ <-.
    inversion Hnd as [|? ? Hx Ht]; subst. pose proof (Hf x st y st1 E1) as H1. pose proof (IH st1 ys' st2 Ht E2) as H2.
    cbn [existsb]. destruct (Z.of_nat x + fixer =? a) eqn:Ex; cbn [orb]; [|lia].
    assert (En : existsb (fun i => Z.of_nat i + fixer =? a) t = false).
    { destruct (existsb _ t) eqn:Et; [|reflexivity]. apply existsb_exists in Et as [z [Hz Ez]]. apply Z.eqb_eq in Ex. apply Z.eqb_eq in Ez. assert (z = x) by lia. subst. contradiction. }
    rewrite En in H2. lia.
Qed.

Section Rule.
Variables (ranked : list (list Z)) (tau : list (list Q)) (n : nat) (m : Z).
Hypothesis Hm : 1 <= m.
Let L := Z.log2_up m.

Lemma level_acnt a st l est st1 est' : run true fixer V (levelP ranked tau false n m st l) est = (st1, est') ->
  Z.of_nat (acnt a est') <= Z.of_nat (acnt a est) + L.
Proof.
  unfold levelP. rewrite run_bind. intros H.
  destruct (run true fixer V (mapP (fun i => bsearchP (S (Z.to_nat m)) (nth i ranked []) (Z.of_nat i) 0 m (tauof tau i l)) (seq 0 n)) est) as [pstar e1] eqn:E1.
  rewrite run_bind in H. cbn [run] in H. injection H as _ <-.
  pose proof (mapP_acnt a (fun i => bsearchP (S (Z.to_nat m)) (nth i ranked []) (Z.of_nat i) 0 m (tauof tau i l)) L (Z.log2_up_nonneg m)) as Hm1.
  assert (Hb : forall i st0 y st', run true fixer V (bsearchP (S (Z.to_nat m)) (nth i ranked []) (Z.of_nat i) 0 m (tauof tau i l)) st0 = (y, st') ->
            Z.of_nat (acnt a st') <= Z.of_nat (acnt a st0) + (if Z.of_nat i + fixer =? a then L else 0)).
  { intros i st0 y st' Hr. pose proof (bsearch_acnt a (nth i ranked []) (Z.of_nat i) (tauof tau i l) (S (Z.to_nat m)) 0 m st0 y st' Hr ltac:(lia)) as Hq.
    rewrite Z.sub_0_r in Hq. exact Hq. }
  specialize (Hm1 Hb (seq 0 n) est pstar e1 (seq_NoDup n 0) E1). pose proof (Z.log2_up_nonneg m). fold L in Hm1. destruct (existsb _ _); lia.
Qed.

Lemma levels_acnt a : forall ls st est st1 est', run true fixer V (foldP (levelP ranked tau false n m) ls st) est = (st1, est') ->
  Z.of_nat (acnt a est') <= Z.of_nat (acnt a est) + Z.of_nat (length ls) * L.
Proof.
  induction ls as [|l t IH]; intros st est st1 est' H.
  - cbn in H. injection H as _ <-. cbn. lia.
  - rewrite run_foldP_cons in H. destruct (run true fixer V (levelP ranked tau false n m st l) est) as [s' e1] eqn:E1.
    pose proof (level_acnt a st l est s' e1 E1). specialize (IH s' e1 st1 est' H). cbn [length]. lia.
Qed.

(* the whole rule: 1 question for the favourite + at most ceil(log2 m) per level *)
Theorem thr_budget a k init vt est' : run true fixer V (thrP ranked tau false n m k init) einit = (vt, est') ->
  Z.of_nat (acnt a est') <= 1 + Z.of_nat k * L.
Proof.
  unfold thrP. rewrite run_bind. intros H.
  destruct (run true fixer V (mapP (askfav ranked) (seq 0 n)) einit) as [vfav e1] eqn:E1.
  rewrite run_bind in H.
  destruct (run true fixer V (foldP (levelP ranked tau false n m) (seq 1 k) _) e1) as [st e2] eqn:E2. cbn [run] in H. injection H as _ <-.
  pose proof (mapP_acnt a (askfav ranked) 1 ltac:(lia)) as Hf.
  assert (Hq : forall i st0 y st', run true fixer V (askfav ranked i) st0 = (y, st') -> Z.of_nat (acnt a st') <= Z.of_nat (acnt a st0) + (if Z.of_nat i + fixer =? a then 1 else 0)).
  { intros i st0 y st' Hr. unfold askfav in Hr. cbn [run] in Hr. pose proof (elicit_acnt a st0 (Z.of_nat i, rkat (nth i ranked []) 0)) as He. cbn [fst] in He.
    destruct (elicit true fixer V st0 (Z.of_nat i, rkat (nth i ranked []) 0)) as [s1 u]. cbn [fst run] in *. injection Hr as _ <-. destruct (Z.of_nat i + fixer =? a); lia. }
  specialize (Hf Hq (seq 0 n) einit vfav e1 (seq_NoDup n 0) E1).
  pose proof (levels_acnt a (seq 1 k) _ e1 st e2 E2) as Hl. rewrite seq_length in Hl.
  assert (acnt a einit = 0%nat) by reflexivity. destruct (existsb _ _); lia.
Qed.
End Rule.
End Budget.

(* rule level: k-ARV and lambda-TSF (byq = false) on a profile with m >= 1 alternatives *)
Theorem thr_rule_budget fixer V P k tau init a vt est' :
  let m := Z.of_nat (length (nth 0 P [])) in 1 <= m ->
  run true fixer V (thr_rule P k tau false init) einit = (vt, est') ->
  Z.of_nat (acnt a est') <= 1 + Z.of_nat k * Z.log2_up m /\ NoDup (trace est') /\ cnt est' = length (trace est').
Proof.
  intros m Hm H. split; [apply (thr_budget fixer V (map rank_list P) tau (length P) m Hm a k init vt est' H)|].
  pose proof (run_memo_inv fixer V (thr_rule P k tau false init) einit (memo_inv_init V)) as Hi. rewrite H in Hi. cbn [snd] in Hi.
  destruct Hi as [A [B _]]. split; assumption.
Qed.
