(* C05: with equal speeds (probabilistic serial) the exact eating process is SD-envy-free: for every agent i, every other
   agent k and every q, the amount i holds of its q most preferred items is at least the amount k holds of them. *)
From Coq Require Import Arith ZArith QArith List Bool Lia Lqa.
Import ListNotations.
From SCK Require Import Eat3 Eat3Proof Eat3Term.
Local Open Scope Q_scope.

Lemma sumQ_nonneg f l : (forall x, In x l -> 0 <= f x) -> 0 <= sumQ f l.
Proof. induction l as [|a t IH]; intros H; simpl; [lra|]. pose proof (H a (or_introl eq_refl)). assert (0 <= sumQ f t) by (apply IH; intros; apply H; now right). lra. Qed.
Lemma sumQ_ge_term f l a : (forall x, In x l -> 0 <= f x) -> In a l -> f a <= sumQ f l.
Proof.
  induction l as [|b t IH]; intros H Ha; [destruct Ha|]. simpl. destruct Ha as [->|Ha].
  - assert (0 <= sumQ f t) by (apply sumQ_nonneg; intros; apply H; now right). lra.
  - pose proof (H b (or_introl eq_refl)). assert (f a <= sumQ f t) by (apply IH; [intros; apply H; now right|exact Ha]). lra.
Qed.
Lemma sumQ_zero f l : (forall x, In x l -> f x == 0) -> sumQ f l == 0.
Proof. induction l as [|a t IH]; intros H; simpl; [reflexivity|]. rewrite (H a (or_introl eq_refl)), IH; [lra|]. intros; apply H; now right. Qed.
(* at most one index hits c when g is injective on l *)
Lemma sumQ_at_most_one (g : nat -> nat) c v l : 0 <= v -> NoDup l -> (forall x y, In x l -> In y l -> g x = g y -> x = y) ->
  sumQ (fun p => if (c =? g p)%nat then v else 0) l <= v.
Proof.
  intros Hv. induction l as [|a t IH]; intros Hnd Hinj; simpl; [exact Hv|]. inversion Hnd as [|? ? Hna Hnd']; subst.
  destruct (c =? g a)%nat eqn:E.
  - apply Nat.eqb_eq in E. rewrite (sumQ_zero _ t); [lra|]. intros x Hx. destruct (c =? g x)%nat eqn:E2; [|reflexivity].
    apply Nat.eqb_eq in E2. exfalso. apply Hna. assert (a = x) by (apply Hinj; [now left|now right|congruence]). subst. exact Hx.
  - assert (sumQ (fun p => if (c =? g p)%nat then v else 0) t <= v) by (apply IH; [exact Hnd'|intros x y Hx Hy; apply Hinj; now right]). lra.
Qed.

Section Envy.
Variable n : nat.
Variable item : nat -> nat -> nat.
Variable sp : nat -> Q.
Variable s : Q.
Hypothesis item_lt : forall i p, (item i p < n)%nat.
Hypothesis sp_pos : forall i, 0 < sp i.
Hypothesis item_surj : forall i j, (i < n)%nat -> (j < n)%nat -> exists p, (p < n)%nat /\ item i p = j.
Hypothesis item_inj : forall i p p', (i < n)%nat -> (p < n)%nat -> (p' < n)%nat -> item i p = item i p' -> p = p'.
Hypothesis sp_eq : forall i, (i < n)%nat -> sp i = s.

Notation nextst := (nextst n item sp).
Notation Inv2 := (Inv2 n item).
Definition pref (st : est) (a i q : nat) : Q := sumQ (fun p => E st a (item i p)) (seq 0 q).
Definition SameE (st : est) : Prop := forall i k, (i < n)%nat -> (k < n)%nat -> nth i (eaten st) None = nth k (eaten st) None.
Definition EnvyInv (st : est) : Prop := forall i k q, (i < n)%nat -> (k < n)%nat -> (q <= n)%nat -> pref st k i q <= pref st i i q.
Definition Inv3 (st : est) : Prop := Inv2 st /\ SameE st /\ EnvyInv st.

Definition inc (st : est) (t : Q) (a i q : nat) : Q := sumQ (fun p => if eats item st a (item i p) then t * sp a else 0) (seq 0 q).
Lemma pref_next st t a i q : Shape n st -> (a < n)%nat -> pref (nextst st t) a i q == pref st a i q + inc st t a i q.
Proof.
  intros Hsh Ha. unfold pref, inc. rewrite <- sumQ_add. apply sumQ_ext. intros p _. unfold E at 1. unfold Eat3Proof.nextst. cbn [X].
  apply (entry_next n item sp st t a (item i p) Hsh Ha (item_lt i p)).
Qed.

Lemma step_preserves3 st t : Inv3 st -> finished n st = false -> step_time n item sp st = Some t -> Inv3 (nextst st t).
Proof.
  intros [HI2 [HS HEn]] Hf Ht. split; [apply (step_preserves2 n item sp item_lt sp_pos item_surj); assumption|]. split.
  - intros i k Hi Hk. unfold Eat3Proof.nextst. cbn [eaten]. unfold eaten_next. rewrite !nth_map_seq by assumption.
    rewrite (HS i k Hi Hk), (sp_eq i Hi), (sp_eq k Hk). reflexivity.
  - destruct HI2 as [[Hsh [HC [HR HP]]] [HPa [HE HA]]].
    pose proof (time_nonneg n item sp sp_pos st t HR HC Ht) as Ht0.
    intros i k q Hi Hk Hq. rewrite !pref_next by assumption. specialize (HEn i k q Hi Hk Hq).
    assert (Hts : 0 <= t * s) by (pose proof (sp_pos i) as Hp; rewrite (sp_eq i Hi) in Hp; nra).
    assert (Hnn : 0 <= inc st t i i q).
    { unfold inc. apply sumQ_nonneg. intros p _. destruct (eats item st i (item i p)); [rewrite (sp_eq i Hi); exact Hts|lra]. }
    cut (inc st t k i q <= inc st t i i q); [lra|].
    unfold inc at 1. unfold eats, cur. destruct (nth k (pos st) None) as [pk|] eqn:Epk; simpl.
    2:{ rewrite sumQ_zero; [exact Hnn|reflexivity]. }
    destruct (existsb (fun p => (item k pk =? item i p)%nat) (seq 0 q)) eqn:Ex.
    2:{ rewrite sumQ_zero; [exact Hnn|]. intros p Hp. destruct (item k pk =? item i p)%nat eqn:E1; [|reflexivity].
        exfalso. assert (existsb (fun p => (item k pk =? item i p)%nat) (seq 0 q) = true) by (apply existsb_exists; exists p; auto). congruence. }
    apply existsb_exists in Ex as [p0 [Hp0 E0]]. apply Nat.eqb_eq in E0. apply in_seq in Hp0.
    (* k eats an item among i's top q: it is not exhausted, so i eats one of its top q as well *)
    destruct (HP k pk Hk Epk) as [_ Hne].
    assert (Hek : exists e, nth k (eaten st) None = Some e).
    { specialize (HR k Hk). destruct (nth k (eaten st) None) as [e|]; [eauto|]. destruct HR as [_ Hn]. congruence. }
    destruct Hek as [e Hek]. assert (Hei : nth i (eaten st) None = Some e) by (rewrite (HS i k Hi Hk); exact Hek).
    destruct (nth i (pos st) None) as [p|] eqn:Epi; [|pose proof (HA i e Hi Hei Epi); congruence].
    assert (Hpp : (p <= p0)%nat).
    { destruct (Nat.le_gt_cases p p0) as [L|L]; [exact L|]. exfalso. apply Hne. rewrite E0. apply (HPa i p p0 Hi Epi L). }
    assert (Hup : sumQ (fun p1 => if (item k pk =? item i p1)%nat then t * sp k else 0) (seq 0 q) <= t * sp k).
    { apply sumQ_at_most_one; [rewrite (sp_eq k Hk); exact Hts|apply seq_NoDup|].
      intros x y Hx Hy. apply in_seq in Hx, Hy. apply item_inj; [exact Hi|lia|lia]. }
    assert (Hlow : t * sp i <= inc st t i i q).
    { unfold inc. pose proof (sumQ_ge_term (fun p1 => if eats item st i (item i p1) then t * sp i else 0) (seq 0 q) p) as H.
      unfold eats, cur in H. rewrite Epi in H. simpl in H. rewrite Nat.eqb_refl in H. unfold eats, cur. rewrite Epi. simpl. apply H.
      - intros x _. destruct (item i p =? item i x)%nat; [rewrite (sp_eq i Hi); exact Hts|lra].
      - apply in_seq. lia. }
    rewrite (sp_eq k Hk) in Hup |- *. rewrite (sp_eq i Hi) in Hlow. lra.
Qed.

Lemma init_inv3 : Inv3 (einit n).
Proof.
  split; [apply (init_inv2 n item item_lt)|]. split.
  - intros i k Hi Hk. unfold einit. cbn [eaten]. rewrite !nth_repeat by assumption. reflexivity.
  - intros i k q Hi Hk Hq. assert (H0 : forall a, (a < n)%nat -> pref (einit n) a i q == 0).
    { intros a Ha. unfold pref. apply sumQ_zero. intros p _. unfold E, einit. cbn [X]. rewrite nth_repeat by exact Ha. rewrite nth_repeat by apply item_lt. reflexivity. }
    rewrite (H0 i Hi), (H0 k Hk). lra.
Qed.
Lemma loop_inv3 fuel : forall st st', Inv3 st -> eloop n item sp fuel st = Some st' -> Inv3 st'.
Proof.
  induction fuel as [|f IH]; intros st st' HI H; [discriminate|]. cbn [eloop] in H.
  destruct (finished n st) eqn:Ef; [injection H as <-; exact HI|].
  unfold estep in H. destruct (step_time n item sp st) as [t|] eqn:Et; [|discriminate].
  apply (IH (nextst st t)); [|exact H]. apply step_preserves3; assumption.
Qed.
Theorem eating_sd_envy_free fuel st : eloop n item sp fuel (einit n) = Some st ->
  forall i k q, (i < n)%nat -> (k < n)%nat -> (q <= n)%nat -> pref st k i q <= pref st i i q.
Proof. intros H. exact (proj2 (proj2 (loop_inv3 fuel _ _ init_inv3 H))). Qed.
End Envy.
