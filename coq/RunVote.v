(* Correspondence checkers for the voting rules (C10-C13). *)
From Coq Require Import ZArith QArith List Bool.
Import ListNotations.
From SCK Require Import Voting VoteExt.
Local Open Scope Z_scope.

Definition rule_of (i : nat) : rule :=
  match i with 0%nat => Plurality | 1%nat => Borda | 2%nat => Veto | 3%nat => KApproval | _ => Harmonic end.
Definition lq_eqb (a b : list Q) : bool := (length a =? length b)%nat && forallb (fun p => Qeq_bool (fst p) (snd p)) (combine a b).

(* score: (rule, k, profile, observed score); exact for the four integer rules, 1e-9 for Harmonic *)
Definition score_case : Type := (nat * Z * list (list Z) * list Q)%type.
Definition chk_score (c : score_case) : bool :=
  let '(r, k, P, e) := c in
  match rule_of r with
  | Harmonic => lq_close (score Harmonic k P) e
  | x => lq_eqb (score x k P) e
  end.

(* scf glue: (observed score vector, index fixer, tie-breaker, include_accept, sampler's pick, observed outcome) *)
Definition tb_of (i : nat) : option tb := match i with 0%nat => Some TRandom | 1%nat => Some TFirst | 2%nat => Some TAccept | _ => None end.
Definition outcome_eqb (a b : outcome) : bool :=
  match a, b with
  | OList x, OList y => lz_eqb x y
  | OOne x, OOne y => x =? y
  | OErr, OErr => true
  | _, _ => false
  end.
Definition scf_case : Type := (list Q * Z * nat * bool * nat * outcome)%type.
Definition chk_scf (c : scf_case) : bool :=
  let '(s, fixer, t, inc, pick, e) := c in
  match tb_of t with
  | Some t' => outcome_eqb (break_tie (winners s fixer) t' inc pick) e
  | None => outcome_eqb OErr e
  end.

Definition swf_case : Type := (list Q * Z * list Z * list Q)%type.
Definition chk_swf (c : swf_case) : bool := let '(s, fixer, alts, scs) := c in ranking_ok s fixer alts scs.

Definition cop_case : Type := (list (list Z) * list Z)%type.
Definition chk_cop (c : cop_case) : bool := let '(P, e) := c in lz_eqb (copeland P) e.

(* STV: (profile, fixer, tie-break picks as indices into the minimal candidates, observed winner) *)
Definition stv_case : Type := (list (list Z) * Z * list nat * Z)%type.
Definition chk_stv (c : stv_case) : bool :=
  let '(P, fixer, picks, e) := c in
  let m := length (nth 0 P []) in
  match stv_loop (S m) P (map (fun j => Z.of_nat j + fixer) (seq 0 m)) picks with Some w => w =? e | None => false end.

Definition util_case : Type := (list (list (option Q)) * list Q)%type.
Definition chk_util (c : util_case) : bool := let '(V, e) := c in lq_close (util_score V) e.

(* randomized scoring: (score vector, probability vector handed to the sampler, index returned by the sampler) *)
Definition randp_case : Type := (list Q * list Q * nat)%type.
Definition chk_randp (c : randp_case) : bool :=
  let '(s, p, idx) := c in
  probs_close (rand_probs s) p && match nth_error s idx with Some x => negb (Qle_bool x 0) | None => false end.
