(* The elicitation rules as query programs (the only access to the valuations is Ask):
   k-ARV (elicitation_voting.py:190-248), lambda-PRV (:79-111), lambda-TSF (elicitation_allocation.py:54-118),
   Match-TwoQueries (:160-210, with root_n_serial_dictatorship deterministic_allocation.py:48-86) and the
   two-sided lambda-TSF (elicitation_matching.py:117-152, one side). Thresholds v/alpha_l are inputs (tau):
   they are the floats the code computes, carried as exact rationals. No proofs here. *)
From Coq Require Import ZArith QArith List Bool Lia.
Import ListNotations.
From SCK Require Import Argsort ElicitM.
Local Open Scope Z_scope.

(* np.argsort of a row of 1-based ranks: the proved stable argsort on the 0-based keys *)
Definition rank_list (row : list Z) : list Z := map Z.of_nat (Argsort.argsort (map (fun r => Some (Z.to_nat (r - 1))) row)).

Definition rkat (rk : list Z) (p : Z) : Z := nth (Z.to_nat p) rk 0.
(* positions lo+1 .. hi of the ranking get value v *)
Definition fill (row : list Q) (rk : list Z) (lo hi : Z) (v : Q) : list Q :=
  fold_left (fun r p => updz r (Z.to_nat (rkat rk (Z.of_nat p))) v) (seq (S (Z.to_nat lo)) (Z.to_nat hi - Z.to_nat lo)) row.

Section Thr.
Variable ranked : list (list Z).
Variable tau : list (list Q).      (* tau[i][l-1] = threshold of agent i at level l *)
Variable byquery : bool.           (* false: fill with the threshold; true: fill with the value asked at p* (two-sided rule) *)
Variable n : nat.
Variable m : Z.
Definition tauof (i l : nat) : Q := nth (l - 1) (nth i tau []) 0%Q.
Definition askfav (i : nat) : prog Q := Ask (Z.of_nat i, rkat (nth i ranked []) 0) (fun v => Ret v).
Definition levelP (st : list (list Q * Z)) (l : nat) : prog (list (list Q * Z)) :=
  pstar <- mapP (fun i => bsearchP (S (Z.to_nat m)) (nth i ranked []) (Z.of_nat i) 0 m (tauof i l)) (seq 0 n) ;;
  vals <- (if byquery then mapP (fun i => Ask (Z.of_nat i, rkat (nth i ranked []) (nth i pstar 0)) (fun v => Ret v)) (seq 0 n)
           else Ret (map (fun i => tauof i l) (seq 0 n))) ;;
  Ret (map (fun i => let rs := nth i st ([], 0) in
                     (fill (fst rs) (nth i ranked []) (snd rs) (nth i pstar 0) (nth i vals 0%Q), nth i pstar 0)) (seq 0 n)).
Definition thrP (k : nat) (init : Q) : prog (list (list Q)) :=
  vfav <- mapP askfav (seq 0 n) ;;
  let st0 := map (fun i => (updz (repeat init (Z.to_nat m)) (Z.to_nat (rkat (nth i ranked []) 0)) (nth i vfav 0%Q), 0)) (seq 0 n) in
  st <- foldP levelP (seq 1 k) st0 ;;
  Ret (map fst st).
End Thr.

Definition thr_rule (profile : list (list Z)) (k : nat) (tau : list (list Q)) (byquery : bool) (init : Q) : prog (list (list Q)) :=
  let n := length profile in
  let m := Z.of_nat (length (nth 0 profile [])) in
  thrP (map rank_list profile) tau byquery n m k init.

(* lambda-PRV: each voter is asked its lambda best alternatives; scores are accumulated per alternative *)
Definition prvP (profile : list (list Z)) (lam : nat) : prog (list Q) :=
  let n := length profile in
  let m := length (nth 0 profile []) in
  let ranked := map rank_list profile in
  foldP (fun (sc : list Q) (ip : nat * nat) =>
           let j := rkat (nth (fst ip) ranked []) (Z.of_nat (snd ip)) in
           Ask (Z.of_nat (fst ip), j) (fun v => Ret (updz sc (Z.to_nat j) (Qred (nth (Z.to_nat j) sc 0%Q + v)))))
        (flat_map (fun i => map (fun p => (i, p)) (seq 0 lam)) (seq 0 n)) (repeat 0%Q m).

(* root_n_serial_dictatorship: agents in index order take their best alternative whose count is below sqrt n
   (count < sqrt n  <->  count * count < n on integers) *)
Definition rootn_sd (profile : list (list Z)) : list Z :=
  let n := length profile in
  let m := length (nth 0 profile []) in
  let ranked := map rank_list profile in
  fst (fold_left (fun (st : list Z * list nat) i =>
                    let '(alloc, cnt) := st in
                    match find (fun j => (nth (Z.to_nat j) cnt O * nth (Z.to_nat j) cnt O <? n)%nat) (nth i ranked []) with
                    | Some j => (alloc ++ [j], updz cnt (Z.to_nat j) (S (nth (Z.to_nat j) cnt O)))
                    | None => (alloc ++ [-1], cnt)
                    end) (seq 0 n) ([], repeat O m)).
Definition m2qP (profile : list (list Z)) (eps : Q) : prog (list (list Q)) :=
  let n := length profile in
  let m := length (nth 0 profile []) in
  let ranked := map rank_list profile in
  let A := rootn_sd profile in
  vfav <- mapP (askfav ranked) (seq 0 n) ;;
  let vt0 := map (fun i => updz (repeat eps m) (Z.to_nat (rkat (nth i ranked []) 0)) (nth i vfav 0%Q)) (seq 0 n) in
  foldP (fun (vt : list (list Q)) i =>
           let j := nth i A 0 in
           Ask (Z.of_nat i, j) (fun v =>
             let r := nth (Z.to_nat j) (nth i profile []) 0 in      (* 1-based rank of j *)
             let row := updz (nth i vt []) (Z.to_nat j) v in
             (* ranks r-1 down to 2, i.e. positions r-2 .. 1 of the ranking, copy the value *)
             let row := fold_left (fun rw p => updz rw (Z.to_nat (rkat (nth i ranked []) (Z.of_nat p))) v) (seq 1 (Z.to_nat r - 2)) row in
             Ret (updz vt i row))) (seq 0 n) vt0.

(* ---------- correspondence checkers ---------- *)
Definition run_case (A : Type) : Type := (bool * Z * list (list Q) * A * list key * nat)%type.
Definition chk_run {A} (p : prog A) (eqb : A -> A -> bool) (c : run_case A) : bool :=
  let '(memoize, fixer, Vm, e, etrace, ecnt) := c in
  let V := fun k : key => vfun Vm (fst k - fixer, snd k - fixer) in
  let '(r, st) := run memoize fixer V p einit in
  eqb r e && keys_eqb (trace st) etrace && (cnt st =? ecnt)%nat.

Definition thr_case : Type := (list (list Z) * nat * list (list Q) * bool * Q * run_case (list (list Q)))%type.
Definition chk_thr (c : thr_case) : bool :=
  let '(P, k, tau, byq, init, rc) := c in chk_run (thr_rule P k tau byq init) qeqb_ll rc.

Definition lq_close9 (a b : list Q) : bool :=
  (length a =? length b)%nat && forallb (fun p => Qle_bool (fst p - snd p) (1 # 1000000000) && Qle_bool (snd p - fst p) (1 # 1000000000)) (combine a b).
Definition prv_case : Type := (list (list Z) * nat * run_case (list Q))%type.
Definition chk_prv (c : prv_case) : bool := let '(P, lam, rc) := c in chk_run (prvP P lam) lq_close9 rc.

Definition m2q_case : Type := (list (list Z) * Q * run_case (list (list Q)))%type.
Definition chk_m2q (c : m2q_case) : bool := let '(P, eps, rc) := c in chk_run (m2qP P eps) qeqb_ll rc.

Definition rootn_case : Type := (list (list Z) * list Z)%type.
Definition chk_rootn (c : rootn_case) : bool :=
  let '(P, e) := c in let a := rootn_sd P in (length a =? length e)%nat && forallb (fun p => fst p =? snd p) (combine a e).

(* the elicitor alone: an arbitrary sequence of questions; observed answers, forwarded questions and counter *)
Definition seqP (qs : list key) : prog (list Q) := mapP (fun k => Ask k (fun v => Ret v)) qs.
Definition lq_eqb (a b : list Q) : bool := (length a =? length b)%nat && forallb (fun p => Qeq_bool (fst p) (snd p)) (combine a b).
Definition seq_case : Type := (list key * run_case (list Q))%type.
Definition chk_seq (c : seq_case) : bool := let '(qs, rc) := c in chk_run (seqP qs) lq_eqb rc.
