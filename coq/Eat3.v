From Coq Require Import ZArith QArith List Bool Lia.
Import ListNotations.
Require Eating.
Local Open Scope Q_scope.

(* Exact eating process, list state, no snapping; the step is factored into named pieces for the proofs. *)
Definition qadd (a b : Q) := Qred (a + b).
Definition qsub (a b : Q) := Qred (a - b).
Definition qmul (a b : Q) := Qred (a * b).
Definition qdiv (a b : Q) := Qred (a / b).
Definition sumq (l : list Q) : Q := fold_left qadd l 0.
Definition qminO (a b : option Q) : option Q :=
  match a, b with Some x, Some y => Some (if Qle_bool x y then x else y) | Some x, None => Some x | None, b => b end.
Fixpoint upd {A} (l : list A) (i : nat) (x : A) : list A :=
  match l, i with [], _ => [] | _ :: r, O => x :: r | y :: r, S j => y :: upd r j x end.

Record est := { pos : list (option nat); rem : list (option Q); eaten : list (option Q); X : list (list Q) }.

Section Eat.
Variable n : nat.
Variable item : nat -> nat -> nat.          (* item i p = agent i's p-th choice *)
Variable sp : nat -> Q.
Let ids := seq 0 n.

Definition cur (st : est) (i : nat) : option nat := option_map (item i) (nth i (pos st) None).
Definition eats (st : est) (i j : nat) : bool := match cur st i with Some c => (c =? j)%nat | None => false end.
Definition tot (st : est) (j : nat) : Q := sumq (map sp (filter (fun i => eats st i j) ids)).
Definition cand_agents (st : est) : list (option Q) :=
  map (fun i => match nth i (eaten st) None with Some e => Some (qdiv (qsub 1 e) (sp i)) | None => None end) ids.
Definition cand_items (st : est) : list (option Q) :=
  map (fun j => match nth j (rem st) None with
                | Some r => if Qle_bool (tot st j) 0 then None else Some (qdiv r (tot st j)) | None => None end) ids.
Definition step_time (st : est) : option Q :=
  match fold_left qminO (cand_agents st) None with
  | None => None
  | Some ta => qminO (Some ta) (fold_left qminO (cand_items st) None)
  end.
Fixpoint advance (rem' : list (option Q)) (i : nat) (fuel p : nat) : nat :=
  match fuel with O => p | S f => if (p <? n)%nat then match nth (item i p) rem' None with None => advance rem' i f (S p) | Some _ => p end else p end.

Definition X_next (st : est) (t : Q) : list (list Q) :=
  map (fun i => let row := nth i (X st) [] in
                match cur st i with Some c => upd row c (qadd (nth c row 0) (qmul t (sp i))) | None => row end) ids.
Definition rem_next (st : est) (t : Q) : list (option Q) :=
  map (fun j => match nth j (rem st) None with
                | Some r => let r' := qsub r (qmul (tot st j) t) in if Qle_bool r' 0 then None else Some r'
                | None => None end) ids.
Definition eaten_next (st : est) (t : Q) : list (option Q) :=
  map (fun i => match nth i (eaten st) None with
                | Some e => let e' := qadd e (qmul (sp i) t) in if Qle_bool 1 e' then None else Some e'
                | None => None end) ids.
Definition pos_next (st : est) (t : Q) : list (option nat) :=
  map (fun i => match nth i (pos st) None with
                | Some p => let p' := advance (rem_next st t) i (S n) p in
                            if (p' =? n)%nat then None else match nth i (eaten_next st t) None with None => None | Some _ => Some p' end
                | None => None end) ids.
Definition estep (st : est) : option est :=
  match step_time st with
  | None => None
  | Some t => Some {| pos := pos_next st t; rem := rem_next st t; eaten := eaten_next st t; X := X_next st t |}
  end.
Definition finished (st : est) : bool := forallb (fun j => match nth j (rem st) None with None => true | Some _ => false end) ids.
Fixpoint eloop (fuel : nat) (st : est) : option est :=
  match fuel with O => None | S f => if finished st then Some st else match estep st with None => None | Some st' => eloop f st' end end.
Definition einit : est := {| pos := repeat (Some O) n; rem := repeat (Some 1) n; eaten := repeat (Some 0) n; X := repeat (repeat 0 n) n |}.
End Eat.

Definition eating3 (profile : list (list (option Z))) (speeds : list Q) : option (list (list Q)) :=
  let n := length profile in
  let ranked := map Eating.argsort profile in
  match eloop n (fun i p => nth p (nth i ranked []) O) (fun i => nth i speeds 0) (2 * n + 2) (einit n) with
  | Some st => Some (X st) | None => None end.
Definition echeck3 (c : list (list (option Z)) * list Q * list (list Q)) : bool :=
  let '(P, s, E) := c in
  match eating3 P s with Some Xm => Eating.mclose (1 # 10000000) Xm E | None => false end.
Fixpoint emism3 (i : nat) (cs : list _) : list nat :=
  match cs with [] => [] | c :: r => if echeck3 c then emism3 (S i) r else i :: emism3 (S i) r end.
