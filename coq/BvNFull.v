(* C06 (rest of the statement): along the Birkhoff-von Neumann loop the residual keeps equal row and column sums,
   every matching is a permutation, the number of positive entries strictly decreases (so at most n*n terms), and
   the coefficients add up to the common row sum. *)
From Coq Require Import Arith ZArith QArith List Bool Lia Lqa Permutation.
Import ListNotations.
From SCK Require Import FlowModel BipModel BipProof BipFinal BipHall BvN2 BvN2Proof Distortion BvNPerfect.
Local Open Scope Q_scope.

Lemma sumQ_sub f g l : sumQ (fun x => f x - g x) l == sumQ f l - sumQ g l.
Proof. induction l as [|a t IH]; simpl; [lra|]. rewrite IH. lra. Qed.
Lemma sumQ_single (z : Q) j0 l : NoDup l -> In j0 l -> sumQ (fun j => if Nat.eqb j j0 then z else 0) l == z.
Proof.
  induction l as [|a t IH]; intros Hnd Hin; [destruct Hin|]. inversion Hnd as [|? ? Ha Ht]; subst. simpl.
  destruct (Nat.eqb a j0) eqn:E.
  - apply Nat.eqb_eq in E. subst. assert (Z0 : sumQ (fun j => if Nat.eqb j j0 then z else 0) t == 0).
    { rewrite (sumQ_ext _ (fun _ => 0)); [rewrite sumQ_const; lra|]. intros x Hx. destruct (Nat.eqb x j0) eqn:E2; [apply Nat.eqb_eq in E2; subst; contradiction|reflexivity]. }
    rewrite Z0. lra.
  - destruct Hin as [->|Hin]; [rewrite Nat.eqb_refl in E; discriminate|]. rewrite (IH Ht Hin). lra.
Qed.
Lemma filter_len_le {A} (p : A -> bool) l : (length (filter p l) <= length l)%nat.
Proof. induction l as [|x t IH]; simpl; [lia|]. destruct (p x); simpl; lia. Qed.
Lemma filter_strict_sub {A} (p p' : A -> bool) (l : list A) e0 :
  (forall e, In e l -> p' e = true -> p e = true) -> In e0 l -> p e0 = true -> p' e0 = false ->
  (length (filter p' l) < length (filter p l))%nat.
Proof.
  induction l as [|x t IH]; intros Himp Hin H1 H2; [destruct Hin|]. simpl.
  assert (Hle : forall t', (forall e, In e t' -> p' e = true -> p e = true) -> (length (filter p' t') <= length (filter p t'))%nat).
  { induction t' as [|y r IHr]; intros Hi; simpl; [lia|]. assert (length (filter p' r) <= length (filter p r))%nat by (apply IHr; intros; apply Hi; [now right|assumption]).
    destruct (p' y) eqn:E; [rewrite (Hi y (or_introl eq_refl) E); simpl; lia|destruct (p y); simpl; lia]. }
  destruct Hin as [->|Hin].
  - rewrite H1, H2. simpl. assert (length (filter p' t) <= length (filter p t))%nat by (apply Hle; intros; apply Himp; [now right|assumption]). lia.
  - assert (length (filter p' t) < length (filter p t))%nat by (apply IH; try assumption; intros; apply Himp; [now right|assumption]).
    destruct (p' x) eqn:E; [rewrite (Himp x (or_introl eq_refl) E); simpl; lia|destruct (p x); simpl; lia].
Qed.

Section Full.
Variable n : nat.
Definition rowsum (X : mat) (i : nat) : Q := sumQ (fun j => mget X i j) (seq 0 n).
Definition colsum (X : mat) (j : nat) : Q := sumQ (fun i => mget X i j) (seq 0 n).
Definition shape (X : mat) : Prop := length X = n /\ forall row, In row X -> length row = n.
Definition Bal (X : mat) (s : Q) : Prop :=
  (forall i j, (i < n)%nat -> (j < n)%nat -> 0 <= mget X i j) /\ (forall i, (i < n)%nat -> rowsum X i == s) /\ (forall j, (j < n)%nat -> colsum X j == s).
Definition cells : list (nat * nat) := list_prod (seq 0 n) (seq 0 n).
Definition npos (X : mat) : nat := length (filter (fun ij => posb (mget X (fst ij) (snd ij))) cells).
Definition sumz (acc : list (Q * list (Z * Z))) : Q := fold_right (fun x a => fst x + a) 0 acc.

Lemma sumz_snoc acc x : sumz (acc ++ [x]) == sumz acc + fst x.
Proof. unfold sumz. induction acc as [|y t IH]; simpl; [lra|]. rewrite IH. lra. Qed.
Lemma cells_in i j : In (i, j) cells <-> (i < n)%nat /\ (j < n)%nat.
Proof. unfold cells. rewrite in_prod_iff, !in_seq. lia. Qed.
Lemma npos_le X : (npos X <= n * n)%nat.
Proof.
  unfold npos. eapply Nat.le_trans; [apply filter_len_le|]. unfold cells. rewrite prod_length, !seq_length. lia.
Qed.

(* a non-zero balanced matrix of the right shape has positive sum *)
Lemma not_all_zero_pos X s : shape X -> Bal X s -> forallb (forallb (fun x => Qeq_bool x 0)) X = false -> 0 < s.
Proof.
  intros [Hl Hr] [Hnn [Hrow _]] Hz.
  assert (Hex : exists row, In row X /\ forallb (fun x => Qeq_bool x 0) row = false).
  { clear -Hz. induction X as [|r t IH]; [discriminate|]. simpl in Hz. destruct (forallb (fun x => Qeq_bool x 0) r) eqn:E; [destruct (IH Hz) as [row [H1 H2]]; exists row; split; [now right|exact H2]|exists r; split; [now left|exact E]]. }
  destruct Hex as [row [Hin Hf]]. apply In_nth with (d := []) in Hin as [i [Hi <-]].
  assert (Hex2 : exists j, (j < length (nth i X []))%nat /\ ~ nth j (nth i X []) 0 == 0).
  { clear -Hf. induction (nth i X []) as [|x t IH]; [discriminate|]. simpl in Hf. destruct (Qeq_bool x 0) eqn:E.
    - destruct (IH Hf) as [j [H1 H2]]. exists (S j). split; [simpl; lia|exact H2].
    - exists 0%nat. split; [simpl; lia|]. simpl. intros H. apply Qeq_bool_iff in H. congruence. }
  destruct Hex2 as [j [Hj Hne]]. rewrite (Hr (nth i X []) (nth_In X [] Hi)) in Hj. rewrite Hl in Hi.
  fold (mget X i j) in Hne. pose proof (Hnn i j Hi Hj) as H0. assert (Hp : 0 < mget X i j) by (destruct (Qlt_le_dec 0 (mget X i j)); [assumption|exfalso; apply Hne; lra]).
  rewrite <- (Hrow i Hi). unfold rowsum.
  assert (Hle : mget X i j <= sumQ (fun j0 => mget X i j0) (seq 0 n)) by (apply (term_le_sumQ (fun j0 => mget X i j0)); [intros x Hx; apply in_seq in Hx; apply Hnn; lia|apply in_seq; lia]).
  lra.
Qed.

(* a perfect matching of the positivity graph has exactly one entry per row and per column *)
Section Perm.
Variables (X : mat) (M : list (Z * Z)).
Hypothesis HM : matching (posgraph X n) (xs n) M.
Hypothesis Hlen : length M = n.
Lemma M_pairs p : In p M -> exists i j, (i < n)%nat /\ (j < n)%nat /\ p = (Z.of_nat i, Z.of_nat (j + n)).
Proof. intros Hp. destruct (matching_entries n X M HM p Hp) as [i [j [Hi [Hj [E _]]]]]. exists i, j. tauto. Qed.
Lemma row_has i : (i < n)%nat -> exists j, (j < n)%nat /\ In (Z.of_nat i, Z.of_nat (j + n)) M.
Proof.
  intros Hi. destruct HM as [_ [Hf _]].
  assert (Hp : Permutation (map fst M) (xs n)).
  { apply NoDup_Permutation_bis; [exact Hf|unfold xs; rewrite !map_length, seq_length; lia|].
    intros x Hx. apply in_map_iff in Hx as [p [<- Hp]]. destruct (M_pairs p Hp) as [a [b [Ha [Hb ->]]]]. apply in_xs. exists a. split; [exact Ha|reflexivity]. }
  assert (Hin : In (Z.of_nat i) (map fst M)) by (apply (Permutation_in _ (Permutation_sym Hp)); apply in_xs; exists i; split; [exact Hi|reflexivity]).
  apply in_map_iff in Hin as [p [E Hp']]. destruct (M_pairs p Hp') as [a [b [Ha [Hb ->]]]]. cbn in E. apply Nat2Z.inj in E. subst a. exists b. split; [exact Hb|exact Hp'].
Qed.
Lemma col_has j : (j < n)%nat -> exists i, (i < n)%nat /\ In (Z.of_nat i, Z.of_nat (j + n)) M.
Proof.
  intros Hj. destruct HM as [_ [_ Hs]].
  assert (Hp : Permutation (map snd M) (ys n)).
  { apply NoDup_Permutation_bis; [exact Hs|unfold ys; rewrite !map_length, seq_length; lia|].
    intros y Hy. apply in_map_iff in Hy as [p [<- Hp]]. destruct (M_pairs p Hp) as [a [b [Ha [Hb ->]]]]. apply in_ys. exists b. split; [exact Hb|reflexivity]. }
  assert (Hin : In (Z.of_nat (j + n)) (map snd M)) by (apply (Permutation_in _ (Permutation_sym Hp)); apply in_ys; exists j; split; [exact Hj|reflexivity]).
  apply in_map_iff in Hin as [p [E Hp']]. destruct (M_pairs p Hp') as [a [b [Ha [Hb ->]]]]. cbn in E. assert (b = j) by lia. subst b. exists a. split; [exact Ha|exact Hp'].
Qed.
Lemma fst_unique a b b' : In (a, b) M -> In (a, b') M -> b = b'.
Proof.
  destruct HM as [_ [Hf _]]. intros H1 H2. clear -Hf H1 H2. induction M as [|p t IH]; [destruct H1|]. simpl in Hf. inversion Hf as [|? ? Hp Ht]; subst.
  destruct H1 as [->|H1], H2 as [E|H2].
  - injection E as <-. reflexivity.
  - exfalso. apply Hp. cbn. apply (in_map fst) in H2. exact H2.
  - subst p. exfalso. apply Hp. cbn. apply (in_map fst) in H1. exact H1.
  - apply IH; assumption.
Qed.
Lemma snd_unique a a' b : In (a, b) M -> In (a', b) M -> a = a'.
Proof.
  destruct HM as [_ [_ Hs]]. intros H1 H2. clear -Hs H1 H2. induction M as [|p t IH]; [destruct H1|]. simpl in Hs. inversion Hs as [|? ? Hp Ht]; subst.
  destruct H1 as [->|H1], H2 as [E|H2].
  - injection E as <-. reflexivity.
  - exfalso. apply Hp. cbn. apply (in_map snd) in H2. exact H2.
  - subst p. exfalso. apply Hp. cbn. apply (in_map snd) in H1. exact H1.
  - apply IH; assumption.
Qed.
Lemma row_matched_sum z i : (i < n)%nat -> sumQ (fun j => if matched M n i j then z else 0) (seq 0 n) == z.
Proof.
  intros Hi. destruct (row_has i Hi) as [j0 [Hj0 Hin]].
  rewrite (sumQ_ext _ (fun j => if Nat.eqb j j0 then z else 0)); [apply sumQ_single; [apply seq_NoDup|apply in_seq; lia]|].
  intros j Hj. destruct (matched M n i j) eqn:E.
  - apply matched_In in E. pose proof (fst_unique _ _ _ E Hin) as Eq. assert (j = j0) by lia. subst. rewrite Nat.eqb_refl. reflexivity.
  - destruct (Nat.eqb j j0) eqn:E2; [|reflexivity]. apply Nat.eqb_eq in E2. subst. apply matched_In in Hin. congruence.
Qed.
Lemma col_matched_sum z j : (j < n)%nat -> sumQ (fun i => if matched M n i j then z else 0) (seq 0 n) == z.
Proof.
  intros Hj. destruct (col_has j Hj) as [i0 [Hi0 Hin]].
  rewrite (sumQ_ext _ (fun i => if Nat.eqb i i0 then z else 0)); [apply sumQ_single; [apply seq_NoDup|apply in_seq; lia]|].
  intros i Hi. destruct (matched M n i j) eqn:E.
  - apply matched_In in E. pose proof (snd_unique _ _ _ E Hin) as Eq. apply Nat2Z.inj in Eq. subst. rewrite Nat.eqb_refl. reflexivity.
  - destruct (Nat.eqb i i0) eqn:E2; [|reflexivity]. apply Nat.eqb_eq in E2. subst. apply matched_In in Hin. congruence.
Qed.
End Perm.

(* ---------- one round ---------- *)
Lemma sub_step_shape X M z : shape (sub_step X n M z).
Proof.
  unfold shape, sub_step. split; [rewrite map_length, seq_length; reflexivity|].
  intros row Hr. apply in_map_iff in Hr as [i [<- _]]. rewrite map_length, seq_length. reflexivity.
Qed.

Lemma round_facts X M z s : Bal X s -> matching (posgraph X n) (xs n) M -> length M = n -> zmin X n M = Some z ->
  0 < z /\ Bal (sub_step X n M z) (s - z) /\ (npos (sub_step X n M z) < npos X)%nat.
Proof.
  intros [Hnn [Hrow Hcol]] HM Hlen Hz.
  pose proof (matching_entries n X M HM) as Hent.
  destruct (zmin_spec n X M z Hz) as [Hle [p0 [Hp0 Ez0]]].
  destruct (Hent p0 Hp0) as [i0 [j0 [Hi0 [Hj0 [Ep0 Hpos0]]]]].
  assert (Hzpos : 0 < z) by (rewrite Ez0, Ep0, ent_pair; exact Hpos0).
  split; [exact Hzpos|]. split; [split; [|split]|].
  - intros i j Hi Hj. rewrite (entry_step n X M z i j Hi Hj). destruct (matched M n i j) eqn:Emt; [|pose proof (Hnn i j Hi Hj); lra].
    apply matched_In in Emt. pose proof (Hle _ Emt) as Hl. rewrite ent_pair in Hl. lra.
  - intros i Hi. unfold rowsum.
    rewrite (sumQ_ext _ (fun j => mget X i j - (if matched M n i j then z else 0))) by (intros j Hj; apply in_seq in Hj; apply entry_step; lia).
    rewrite sumQ_sub, (row_matched_sum X M HM Hlen z i Hi). fold (rowsum X i). rewrite (Hrow i Hi). reflexivity.
  - intros j Hj. unfold colsum.
    rewrite (sumQ_ext _ (fun i => mget X i j - (if matched M n i j then z else 0))) by (intros i Hi; apply in_seq in Hi; apply entry_step; lia).
    rewrite sumQ_sub, (col_matched_sum X M HM Hlen z j Hj). fold (colsum X j). rewrite (Hcol j Hj). reflexivity.
  - unfold npos. apply (filter_strict_sub _ _ cells (i0, j0)).
    + intros [i j] Hc Hp. apply cells_in in Hc as [Hi Hj]. cbn [fst snd] in *. apply posb_true in Hp. apply posb_true.
      rewrite (entry_step n X M z i j Hi Hj) in Hp. destruct (matched M n i j); lra.
    + apply cells_in. split; assumption.
    + cbn [fst snd]. apply posb_true. exact Hpos0.
    + cbn [fst snd]. destruct (posb (mget (sub_step X n M z) i0 j0)) eqn:E; [|reflexivity]. apply posb_true in E.
      rewrite (entry_step n X M z i0 j0 Hi0 Hj0) in E. assert (Em : matched M n i0 j0 = true) by (apply matched_In; rewrite <- Ep0; exact Hp0).
      rewrite Em in E. rewrite Ez0, Ep0, ent_pair in E. lra.
Qed.

(* ---------- the loop ---------- *)
Hypothesis Hn1 : (1 <= n)%nat.
Theorem bvn_loop_full ffuel : forall fuel X acc res s, shape X -> Bal X s ->
  bvn_loop fuel ffuel n X acc = Some res -> (forall x, In x acc -> length (snd x) = n) ->
  (forall x, In x res -> length (snd x) = n) /\ (length res <= length acc + npos X)%nat /\ sumz res == sumz acc + s.
Proof.
  induction fuel as [|f IH]; intros X acc res s Hsh HB H Hacc; [discriminate|]. cbn [bvn_loop] in H.
  destruct (forallb (forallb (fun x => Qeq_bool x 0)) X) eqn:Ez.
  - injection H as <-. split; [exact Hacc|]. split; [lia|].
    destruct HB as [_ [Hrow _]]. rewrite <- (Hrow 0%nat ltac:(lia)). unfold rowsum.
    rewrite (sumQ_ext _ (fun _ => 0)) by (intros j _; apply all_zero; exact Ez). rewrite sumQ_const. lra.
  - destruct (negb (keys_ok X n)); [discriminate|].
    destruct (max_matching ffuel (posgraph X n) (xs n) (ys n)) as [M|] eqn:Em; [|discriminate].
    destruct (zmin X n M) as [z|] eqn:Ezm; [|discriminate].
    destruct (C09_max_matching _ _ _ _ _ (posgraph_wfb n X) Em) as [HM _].
    pose proof (not_all_zero_pos X s Hsh HB Ez) as Hs.
    destruct HB as [Hnn [Hrow Hcol]].
    pose proof (posgraph_perfect n X s Hnn Hrow Hcol Hs ffuel M Em) as Hlen.
    destruct (round_facts X M z s (conj Hnn (conj Hrow Hcol)) HM Hlen Ezm) as [Hz [HB' Hnp]].
    destruct (IH _ _ _ (s - z) (sub_step_shape X M z) HB' H) as [A [B C]].
    { intros x Hx. apply in_app_or in Hx as [Hx|[<-|[]]]; [apply Hacc; exact Hx|exact Hlen]. }
    split; [exact A|]. split; [rewrite app_length in B; simpl in B; lia|]. rewrite C, sumz_snoc. cbn [fst]. lra.
Qed.
End Full.

(* C06: for a non-negative n x n matrix (n >= 1) whose rows and columns all sum to s, the model's decomposition has
   at most n*n terms, every term matches all n rows (with C06_bvn_correct: no row or column twice, so each term is a
   permutation matrix), and the coefficients add up to s *)
Theorem C06_bvn_full ffuel X0 res s : let n := length X0 in
  (1 <= n)%nat -> shape n X0 -> Bal n X0 s -> bvn ffuel X0 = Some res ->
  (length res <= n * n)%nat /\ (forall x, In x res -> length (snd x) = n) /\ sumz res == s.
Proof.
  intros n Hn Hsh HB H. unfold bvn in H. fold n in H.
  destruct (bvn_loop_full n Hn ffuel _ X0 [] res s Hsh HB H (fun x Hx => match Hx with end)) as [A [B C]].
  split; [simpl in B; pose proof (npos_le n X0); lia|]. split; [exact A|]. rewrite C. unfold sumz. simpl. lra.
Qed.

(* ---------- totality: with matching fuel > n the decomposition never runs out of fuel ---------- *)
From SCK Require Import FlowProof FlowInit FlowTerm.
Lemma max_matching_total G X Y fuel : wfb G X Y -> (length X < fuel)%nat -> max_matching fuel G X Y <> None.
Proof.
  intros [HX [HY [Hd [H1 [H2 Ha]]]]] Hf. unfold max_matching.
  pose proof (N_wf G X Y HX HY Hd H1 H2 Ha) as Hwf. set (N := net G X Y) in *.
  pose proof (init_FInv N (-1) (-2) Hwf) as F0. pose proof (init_fl_zero N Hwf) as Hz.
  destruct (init N) as [Gf0 fl0] eqn:Ei. cbn [fst snd] in F0, Hz. pose proof Hwf as [HKn _].
  assert (Hv0 : value N fl0 (-1) = 0%Z).
  { unfold value, excess. rewrite (sumZ_ext _ (fun _ => 0%Z)); [apply sumZ_zero|]. intros y _. apply Hz. }
  assert (Hcap : sumZ (cf N (-1)) (keys N) = Z.of_nat (length X)).
  { unfold N. rewrite keys_N, !sumZ_app.
    assert (E1 : sumZ (cf (net G X Y) (-1)) X = Z.of_nat (length X)).
    { rewrite <- sumZ_const1. apply sumZ_ext. intros z Hzz. rewrite (cf_s G X Y H1 z). destruct (in_dec Z.eq_dec z X); [reflexivity|contradiction]. }
    assert (E2 : sumZ (cf (net G X Y) (-1)) [-1; -2]%Z = 0%Z).
    { cbn [sumZ fold_right]. rewrite !(cf_s G X Y H1). destruct (in_dec Z.eq_dec (-1)%Z X) as [H|_]; [exfalso; exact (proj1 H1 H)|]. destruct (in_dec Z.eq_dec (-2)%Z X) as [H|_]; [exfalso; exact (proj1 H2 H)|]. reflexivity. }
    assert (E3 : sumZ (cf (net G X Y) (-1)) Y = 0%Z).
    { apply sumZ_all_zero. intros z Hzz. rewrite (cf_s G X Y H1 z). destruct (in_dec Z.eq_dec z X) as [H|_]; [exfalso; exact (Hd z H Hzz)|reflexivity]. }
    rewrite E1, E2, E3. lia. }
  pose proof (ff_loop_total N (-1) (-2) HKn ltac:(lia) fuel Gf0 fl0 F0 ltac:(rewrite Hcap, Hv0; lia)) as Hn.
  destruct (ff_loop fuel (Gf0, fl0) (-1) (-2)) as [[Gf fl]|]; [discriminate|congruence].
Qed.

Lemma pos_entry_exists n X s i : (forall j, (j < n)%nat -> 0 <= mget X i j) -> sumQ (fun j => mget X i j) (seq 0 n) == s -> 0 < s ->
  exists j, (j < n)%nat /\ 0 < mget X i j.
Proof.
  intros Hnn Hsum Hs.
  destruct (existsb (fun j => posb (mget X i j)) (seq 0 n)) eqn:E.
  - apply existsb_exists in E as [j [Hj Hp]]. apply in_seq in Hj. apply posb_true in Hp. exists j. split; [lia|exact Hp].
  - exfalso. assert (Z0 : sumQ (fun j => mget X i j) (seq 0 n) == 0).
    { rewrite (sumQ_ext _ (fun _ => 0)); [rewrite sumQ_const; lra|]. intros j Hj. pose proof Hj as Hj'. apply in_seq in Hj'.
      destruct (Qlt_le_dec 0 (mget X i j)) as [Hp|Hz]; [|pose proof (Hnn j ltac:(lia)); lra].
      exfalso. assert (existsb (fun j => posb (mget X i j)) (seq 0 n) = true) by (apply existsb_exists; exists j; split; [exact Hj|apply posb_true; exact Hp]). congruence. }
    lra.
Qed.

Theorem bvn_loop_total n ffuel : (1 <= n)%nat -> (n < ffuel)%nat -> forall fuel X acc s, shape n X -> Bal n X s -> (npos n X < fuel)%nat ->
  bvn_loop fuel ffuel n X acc <> None.
Proof.
  intros Hn1 Hff. induction fuel as [|f IH]; intros X acc s Hsh HB Hf; [lia|]. cbn [bvn_loop].
  destruct (forallb (forallb (fun x => Qeq_bool x 0)) X) eqn:Ez; [discriminate|].
  pose proof (not_all_zero_pos n X s Hsh HB Ez) as Hs. destruct HB as [Hnn [Hrow Hcol]].
  assert (Hk : keys_ok X n = true).
  { unfold keys_ok. apply andb_true_iff. split; apply forallb_forall; intros a Ha; apply in_seq in Ha; apply existsb_exists.
    - destruct (pos_entry_exists n X s a (fun j Hj => Hnn a j ltac:(lia) Hj) (Hrow a ltac:(lia)) Hs) as [j [Hj Hp]]. exists j. split; [apply in_seq; lia|apply posb_true; exact Hp].
    - assert (Hc : exists i, (i < n)%nat /\ 0 < mget X i a).
      { destruct (existsb (fun i => posb (mget X i a)) (seq 0 n)) eqn:E.
        - apply existsb_exists in E as [i [Hi Hp]]. apply in_seq in Hi. apply posb_true in Hp. exists i. split; [lia|exact Hp].
        - exfalso. assert (Z0 : colsum n X a == 0).
          { unfold colsum. rewrite (sumQ_ext _ (fun _ => 0)); [rewrite sumQ_const; lra|]. intros i Hi. pose proof Hi as Hi'. apply in_seq in Hi'.
            destruct (Qlt_le_dec 0 (mget X i a)) as [Hp|Hz]; [|pose proof (Hnn i a ltac:(lia) ltac:(lia)); lra].
            exfalso. assert (existsb (fun i => posb (mget X i a)) (seq 0 n) = true) by (apply existsb_exists; exists i; split; [exact Hi|apply posb_true; exact Hp]). congruence. }
          pose proof (Hcol a ltac:(lia)). lra. }
      destruct Hc as [i [Hi Hp]]. exists i. split; [apply in_seq; lia|apply posb_true; exact Hp]. }
  rewrite Hk. cbn [negb].
  pose proof (max_matching_total (posgraph X n) (xs n) (ys n) ffuel (posgraph_wfb n X) ltac:(unfold xs; rewrite map_length, seq_length; exact Hff)) as Hmm.
  destruct (max_matching ffuel (posgraph X n) (xs n) (ys n)) as [M|] eqn:Em; [|congruence].
  destruct (C09_max_matching _ _ _ _ _ (posgraph_wfb n X) Em) as [HM _].
  pose proof (posgraph_perfect n X s Hnn Hrow Hcol Hs ffuel M Em) as Hlen.
  destruct (zmin X n M) as [z|] eqn:Ezm.
  - destruct (round_facts n X M z s (conj Hnn (conj Hrow Hcol)) HM Hlen Ezm) as [_ [HB' Hnp]].
    apply (IH _ _ (s - z) (sub_step_shape n X M z) HB'). lia.
  - exfalso. destruct M as [|p t]; [simpl in Hlen; lia|]. unfold zmin in Ezm. cbn [fold_left] in Ezm.
    assert (G : forall l acc, fold_left (fun z ij => let v := mget X (Z.to_nat (fst ij)) (Z.to_nat (snd ij) - n) in match z with None => Some v | Some z0 => Some (if Qle_bool z0 v then z0 else v) end) l (Some acc) <> None).
    { induction l as [|q r IHl]; intros a; cbn [fold_left]; [discriminate|]. apply IHl. }
    exact (G t _ Ezm).
Qed.

Theorem C06_bvn_total ffuel X0 s : let n := length X0 in
  (1 <= n)%nat -> (n < ffuel)%nat -> shape n X0 -> Bal n X0 s -> bvn ffuel X0 <> None.
Proof.
  intros n Hn Hff Hsh HB. unfold bvn. fold n. apply (bvn_loop_total n ffuel Hn Hff _ X0 [] s Hsh HB). pose proof (npos_le n X0). lia.
Qed.
