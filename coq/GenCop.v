(* Library for the generated Copeland score (deterministic_tournament.py:101-113): shape lemma connecting the translated
   loop to the hand-written model Voting.copeland. *)
From Coq Require Import ZArith List Bool Lia.
Import ListNotations.
From SCK Require Import Voting VotingProof GenLib.
Local Open Scope Z_scope.

Lemma sumZ_sumZl l : sumZ l = sumZl l.
Proof. induction l as [|x t IH]; [reflexivity|]. rewrite sumZl_cons. cbn [sumZ]. rewrite IH. reflexivity. Qed.

(* the translated shape: net[i] = column sums of f (P[v][j] - P[v][i]); score[i] = sum_j g (net[i][j]) *)
Definition copeland_shape (f g : Z -> Z) (P : list (list Z)) : list Z :=
  let m := ncols P in
  let net := map (fun i => colsumZ m (map (fun row => map (fun x => f (x - nth i row 0)) row) P)) (seq 0 (Z.to_nat m)) in
  map (fun r => sumZ (map g r)) net.

Theorem copeland_shape_is_model f g P m : rect P m -> (forall t, f t = sgn t) -> (forall t, g t = sgn t) ->
  copeland_shape f g P = copeland P.
Proof.
  intros HR Hf Hg. unfold copeland_shape, copeland. rewrite (ncols_rect P m HR). destruct HR as [Hrows Hm]. rewrite Hm, Nat2Z.id, map_map.
  apply map_ext_in. intros i Hi. rewrite sumZ_sumZl. f_equal.
  unfold colsumZ. rewrite Nat2Z.id, map_map. apply map_ext_in. intros j Hj. apply in_seq in Hj.
  rewrite Hg. f_equal. rewrite sumZ_sumZl. f_equal. rewrite map_map. apply map_ext_in. intros row Hrow.
  rewrite (nth_map_lt (fun x => f (x - nth i row 0)) row j 0) by (rewrite (Hrows row Hrow); lia). apply Hf.
Qed.
